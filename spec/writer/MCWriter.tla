------------------------------ MODULE MCWriter ------------------------------
EXTENDS Writer

M(sz, t) == [sz |-> sz, topic |-> t]
AllOutcomes == { o \in Outcomes : (o.ok => ~o.retriable) }

O3 == { [applied |-> TRUE, ok |-> TRUE, retriable |-> FALSE],
        [applied |-> TRUE, ok |-> FALSE, retriable |-> TRUE],
        [applied |-> FALSE, ok |-> FALSE, retriable |-> FALSE] }
O2 == { [applied |-> TRUE, ok |-> TRUE, retriable |-> FALSE],
        [applied |-> FALSE, ok |-> FALSE, retriable |-> TRUE] }

Base == [batchSize |-> 2, batchBytes |-> 3, maxAttempts |-> 2, acked |-> TRUE, async |-> FALSE,
         topic |-> "t", nparts |-> [t |-> 2], close |-> TRUE, metaFails |-> FALSE,
         outcomes |-> AllOutcomes,
         plan |-> ( 1 :> [g |-> 1, msgs |-> <<M(1, ""), M(2, "")>>, cancellable |-> FALSE]
                 @@ 2 :> [g |-> 2, msgs |-> <<M(2, "")>>, cancellable |-> TRUE] )]

\* two successive calls of one goroutine + a concurrent one: ordering across calls and retries
Seq2 == [Base EXCEPT !.nparts = [t |-> 1], !.close = FALSE,
         !.plan = ( 1 :> [g |-> 1, msgs |-> <<M(1, "")>>, cancellable |-> TRUE]
                 @@ 2 :> [g |-> 1, msgs |-> <<M(1, "")>>, cancellable |-> FALSE]
                 @@ 3 :> [g |-> 2, msgs |-> <<M(1, "")>>, cancellable |-> FALSE] )]

\* batch overflow by bytes and count, one oversize message, a topic conflict
Over == [Base EXCEPT !.nparts = [t |-> 1], !.batchBytes = 4, !.maxAttempts = 1,
         !.plan = ( 1 :> [g |-> 1, msgs |-> <<M(2, ""), M(3, ""), M(1, "")>>, cancellable |-> FALSE]
                 @@ 2 :> [g |-> 2, msgs |-> <<M(1, ""), M(5, "")>>, cancellable |-> FALSE]
                 @@ 3 :> [g |-> 3, msgs |-> <<M(1, ""), M(1, "u")>>, cancellable |-> FALSE] )]

\* asynchronous writer, no acknowledgements, message-level topics
Async == [Base EXCEPT !.async = TRUE, !.acked = FALSE, !.topic = "", !.nparts = [t |-> 1, u |-> 1],
          !.plan = ( 1 :> [g |-> 1, msgs |-> <<M(1, "t"), M(1, "u")>>, cancellable |-> FALSE]
                  @@ 2 :> [g |-> 1, msgs |-> <<M(2, "t")>>, cancellable |-> FALSE] )]

Three == [Base EXCEPT !.maxAttempts = 3, !.batchSize = 1, !.nparts = [t |-> 1],
          !.plan = ( 1 :> [g |-> 1, msgs |-> <<M(1, ""), M(1, "")>>, cancellable |-> FALSE] )]

\* small enough for fairness/liveness checking
Live1 == [Base EXCEPT !.nparts = [t |-> 1], !.outcomes = { o \in AllOutcomes : o.applied = o.ok \/ o.retriable },
          !.plan = ( 1 :> [g |-> 1, msgs |-> <<M(1, ""), M(2, "")>>, cancellable |-> FALSE]
                  @@ 2 :> [g |-> 2, msgs |-> <<M(1, "")>>, cancellable |-> FALSE] )]

ConfigsQuick == {Three, Over}
BaseS == [Base EXCEPT !.outcomes = O2]
AsyncS == [Async EXCEPT !.outcomes = O2, !.close = FALSE]
\* BaseS itself (2 partitions x 2 concurrent calls x Close x cancellation) has more than 30 million distinct states
\* (not completed in 10 minutes); the thorough tier covers its ingredients pairwise instead:
BaseM == [BaseS EXCEPT !.nparts = [t |-> 1]]                 \* both calls, Close, cancellation, one partition
BaseA == [Base EXCEPT !.nparts = [t |-> 1]]                  \* the same with every outcome class
TwoP == [BaseS EXCEPT !.plan = ( 1 :> [g |-> 1, msgs |-> <<M(1, ""), M(2, ""), M(1, "")>>, cancellable |-> TRUE] )]   \* one call over two partitions
TwoC == [BaseS EXCEPT !.plan = ( 1 :> [g |-> 1, msgs |-> <<M(1, "")>>, cancellable |-> FALSE]
                              @@ 2 :> [g |-> 2, msgs |-> <<M(2, "")>>, cancellable |-> TRUE] )]             \* two calls over two partitions
ConfigsFull == {BaseM, BaseA, TwoP, TwoC, Seq2, Over, AsyncS, Three}
Live0 == [Base EXCEPT !.nparts = [t |-> 1], !.outcomes = O3,
          !.plan = ( 1 :> [g |-> 1, msgs |-> <<M(1, ""), M(1, "")>>, cancellable |-> FALSE]
                  @@ 2 :> [g |-> 2, msgs |-> <<M(2, "")>>, cancellable |-> FALSE] )]
ConfigsLive == {Live1}
ConfigsLiveFull == {Live0, Live1}
Live00 == [Live0 EXCEPT !.batchSize = 3,
          !.plan = ( 1 :> [g |-> 1, msgs |-> <<M(1, ""), M(1, "")>>, cancellable |-> FALSE] )]
ConfigsLiveQuick == {Live00}
OnlyLive00 == {Live00}
OnlyLive0 == {Live0}

OnlyBase == {BaseS}
OnlyOver == {Over}
OnlyThree == {Three}
OnlySeq2 == {Seq2}
OnlyAsync == {AsyncS}
OnlyLive1 == {Live1}
CONSTANT ConfigSet
MCInit == cfg \in ConfigSet /\ Init
MCSpec == MCInit /\ [][Next]_vars
MCFairSpec == MCSpec /\ Fair

\* history variables the invariants read are part of the state; nothing to hide
Internal_OpenNotFull ==
  \A b \in DOMAIN batch : (batch[b].state = "open" /\ ~PWBusy(batch[b].pw)) =>
      Len(batch[b].msgs) < cfg.batchSize /\ batch[b].bytes < cfg.batchBytes


=============================================================================
