------------------------------ MODULE WireGen ------------------------------
(***************************************************************************)
(* C04, generation half: for every target (message, version) and every     *)
(* requested row of the pairwise array, TLC builds the boundary value      *)
(* (Wire!GenStruct), computes its canonical Kafka frame (Wire!RequestFrame *)
(* / ResponseFrame) and writes one ndjson vector per (target, row, mode):  *)
(*   mode "rt"  : the driver must produce exactly `frame` (or `frameAlt`,  *)
(*                which differs only in null-vs-"" of the request header's *)
(*                client id when the Go client id is "") and must decode   *)
(*                the frame back to `value`;                               *)
(*   mode "nil" : as "rt", but the driver passes every EMPTY array / bytes  *)
(*                value of a field that is not nullable at this version as *)
(*                a Go nil slice: nil is Go's empty slice, the frame must  *)
(*                be the same (an empty array, never null);                *)
(*   mode "dec" : decode-only: unknown tagged fields injected into every   *)
(*                tag section, Kafka-known tagged fields present, "" at    *)
(*                nullable strings, null record sets.                      *)
(* Every vector also carries specRoundTrip: WireDecode!SafeDecode applied   *)
(* to the frame followed by sentinel bytes returns exactly the value, the  *)
(* header fields, and the frame length (the specification's own Encode /   *)
(* Decode consistency, checked by TLC on every generated value).           *)
(* Inputs (environment): SCHEMAS (ndjson, one normalised message per line),*)
(* TARGETS (ndjson: {m: index into SCHEMAS, v, rt, dec, nil: [rows]}),     *)
(* SALT (integer), OUT (ndjson file to write), LAYOUT (optional).          *)
(***************************************************************************)
EXTENDS WireDecode, Json, IOUtils

Schemas == ndJsonDeserialize(IOEnv.SCHEMAS)
Targets == ndJsonDeserialize(IOEnv.TARGETS)
Salt    == atoi(IOEnv.SALT)
WithLayout == "LAYOUT" \in DOMAIN IOEnv      \* also emit the layout map of every frame (used to name the field at a differing byte)

ClientPool == << [null |-> FALSE, b |-> << 99 >>], [null |-> TRUE, b |-> << >>], [null |-> FALSE, b |-> << 118, 104, 45, 195, 169 >>],
                 [null |-> FALSE, b |-> << >>], [null |-> FALSE, b |-> Rep(120, 128)], [null |-> FALSE, b |-> << 107 >>],
                 [null |-> FALSE, b |-> << 99, 108, 105, 101, 110, 116 >>] >>

Vector(t, r, mode) ==
    LET m     == Schemas[t.m]
        v     == t.v
        val   == GenStruct(m.fields, v, r, Salt, IF mode = "nil" THEN "rt" ELSE mode)
        corr  == P32[(Idx(r, Salt + 6) % 6) + 1]
        cl    == ClientPool[Idx(r, Salt + 7) + 1]
        opt   == [inject |-> (mode = "dec"), mut |-> NoMut]
        isReq == m.kind = "request"
        emptyClient == isReq /\ (cl.null \/ cl.b = << >>)
        ts    == IF isReq THEN RequestFrame(m, v, corr, cl.null, cl.b, val, opt) ELSE ResponseFrame(m, v, corr, val, opt)
        alt   == IF emptyClient THEN Bytes(RequestFrame(m, v, corr, ~cl.null, << >>, val, opt)) ELSE << >>
        hdr   == 4 + Size(IF isReq THEN ReqHeader(m, v, corr, cl.null, cl.b, opt) ELSE ResHeader(m, v, corr, opt))
        fr    == Bytes(ts)
        \* the specification's own consistency: SafeDecode inverts Encode, consumes exactly the frame, leaves the sentinel
        dec   == IF isReq THEN DecodeRequest(m, v, fr \o <<222, 173, 190, 239>>) ELSE DecodeResponse(m, v, fr \o <<222, 173, 190, 239>>)
        rtOk  == /\ dec.ok /\ dec.val = val /\ dec.used = Len(fr) /\ dec.pos = Len(fr) /\ dec.corr = corr
                 /\ (isReq => dec.apiKey = m.apiKey /\ dec.ver = v /\ dec.clientNull = cl.null /\ dec.client = cl.b)
        bad   == SelectSeq(ts, LAMBDA k: k.k \notin {"fix", "data", "records", "frame-size", "string-len", "compact-string-len", "bytes-len",
                                                     "compact-bytes-len", "array-count", "compact-array-count", "tagged-count", "tagged-size",
                                                     "record-set-size", "compact-record-set-size"})
    IN  [id |-> m.name \o "/v" \o ToString(v) \o "/" \o mode \o ToString(r), msg |-> m.name, api |-> m.api, apiKey |-> m.apiKey, kind |-> m.kind,
         v |-> v, mode |-> mode, row |-> r, corr |-> corr, clientNull |-> (isReq /\ cl.null), client |-> (IF isReq THEN cl.b ELSE << >>),
         value |-> val, frame |-> fr, frameAlt |-> alt, hdr |-> hdr, specErrors |-> Len(bad), specRoundTrip |-> rtOk,
         layout |-> IF WithLayout THEN Layout(ts) ELSE << >>]

Vectors == Concat([i \in 1..Len(Targets) |->
              [j \in 1..Len(Targets[i].rt) |-> Vector(Targets[i], Targets[i].rt[j], "rt")] \o
              [j \in 1..Len(Targets[i].dec) |-> Vector(Targets[i], Targets[i].dec[j], "dec")] \o
              [j \in 1..Len(Targets[i].nil) |-> Vector(Targets[i], Targets[i].nil[j], "nil")]])

ASSUME ndJsonSerialize(IOEnv.OUT, Vectors)
ASSUME PrintT(<<"WIREGEN", Len(Vectors), Len(SelectSeq(Vectors, LAMBDA x: x.specRoundTrip /\ x.specErrors = 0))>>)

VARIABLE done
Init == done = FALSE
Next == ~done /\ done' = TRUE
=============================================================================
