---------------------------- MODULE WireFuzzGen ----------------------------
(***************************************************************************)
(* C20, enumeration run: writes one ndjson case per (response message,     *)
(* version, length-field position, value class) -- see WireFuzz.tla.       *)
(* Environment: SCHEMAS, TARGETS (ndjson {m, v, recs}), RECORDS (ndjson: record- *)
(* set blobs as token lists, built by the harness from its independent     *)
(* record codec; may be an empty file), OUT.                               *)
(***************************************************************************)
EXTENDS WireFuzz, Json, IOUtils

Schemas == ndJsonDeserialize(IOEnv.SCHEMAS)
Targets == ndJsonDeserialize(IOEnv.TARGETS)
Blobs   == ndJsonDeserialize(IOEnv.RECORDS)
BlobOf(name) == IF name = "" THEN << >> ELSE Blobs[CHOOSE i \in 1..Len(Blobs) : Blobs[i].name = name].tokens

Cases == Concat([i \in 1..Len(Targets) |-> CasesOf(Schemas[Targets[i].m], Targets[i].v, BlobOf(Targets[i].recs), Targets[i].recs)])

ASSUME ndJsonSerialize(IOEnv.OUT, Cases)
ASSUME PrintT(<<"WIREFUZZGEN", Len(Cases)>>)

VARIABLE done
Init == done = FALSE
Next == ~done /\ done' = TRUE
=============================================================================
