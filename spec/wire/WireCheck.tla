----------------------------- MODULE WireCheck -----------------------------
(***************************************************************************)
(* C04, judging half.  Reads the vectors written by WireGen (value, frame  *)
(* computed from Wire.tla + schema) and, per build of the driver (default  *)
(* and `unsafe`), the results of the real code: the bytes written by       *)
(* protocol.WriteRequest/WriteResponse for the value, and what             *)
(* protocol.ReadRequest/ReadResponse returned for the specification's      *)
(* frame followed by sentinel bytes.  TLC steps through the vectors; every *)
(* vector for which a property clause is false is printed as a MISMATCH    *)
(* line (vector id, build, failed clauses) and counted; the post-condition *)
(* AllAccepted is false iff the count is not zero.                         *)
(*                                                                         *)
(* GoView: kafka-go messages are Go structs.  A Go string holds null and   *)
(* "" as the same value, a nil slice is the Go value of a null array /     *)
(* bytes; for a field that is NOT nullable nil and empty are the same      *)
(* value.  Decoded values are compared modulo exactly this.                *)
(***************************************************************************)
EXTENDS Wire, Json, IOUtils, FiniteSets

Schemas == ndJsonDeserialize(IOEnv.SCHEMAS)
Vecs    == ndJsonDeserialize(IOEnv.VECTORS)
Res1    == ndJsonDeserialize(IOEnv.RESULTS1)
Res2    == ndJsonDeserialize(IOEnv.RESULTS2)
N       == Len(Vecs)

SchemaOf(name) == Schemas[CHOOSE i \in 1..Len(Schemas) : Schemas[i].name = name]

Has(r, k) == k \in DOMAIN r
InSeq(x, s) == \E i \in 1..Len(s) : s[i] = x

RECURSIVE EqStruct(_, _, _, _), EqField(_, _, _, _), EqElem(_, _, _, _), ZeroField(_, _), ZeroElem(_, _)

ZeroElem(f, x) ==
    CASE f.t = "bool" -> x = FALSE
      [] f.t \in {"int8", "int16", "int32", "uint16"} -> x = 0
      [] f.t \in {"int64", "float64"} -> x = <<0, 0, 0, 0, 0, 0, 0, 0>>
      [] f.t = "uuid" -> x = Rep(0, 16)
      [] f.t \in {"string", "bytes", "records"} -> Len(x) = 0
      [] OTHER -> \A i \in 1..Len(f.fields) : ZeroField(f.fields[i], x)
ZeroField(f, got) == ~Has(got, f.name) \/ (IF f.arr THEN Len(got[f.name]) = 0 ELSE ZeroElem(f, got[f.name]))

EqElem(f, v, x, y) ==
    IF f.t = "struct" THEN EqStruct(f.fields, v, x, y)
    ELSE IF f.t = "records" THEN TRUE                      \* record sets are property C05; here they are empty or null
    ELSE x = y

EqField(f, v, val, got) ==
    IF ~Active(f, v) THEN ZeroField(f, got)                              \* a field of another version stays zero
    ELSE IF InSeq(f.name, got["$unmapped"]) THEN Tagged(f, v)             \* only tagged fields may be unknown to the library
    ELSE IF Tagged(f, v) THEN TRUE
    ELSE IF ~Has(val, f.name)                                             \* null
         THEN IF f.arr \/ f.t = "bytes" THEN ~Has(got, f.name)            \* Go nil
              ELSE IF f.t = "records" THEN TRUE
              ELSE Has(got, f.name) /\ Len(got[f.name]) = 0               \* Go ""
    ELSE IF f.arr
         THEN IF ~Has(got, f.name) THEN ~Nullable(f, v) /\ Len(val[f.name]) = 0
              ELSE /\ Len(got[f.name]) = Len(val[f.name])
                   /\ \A i \in 1..Len(val[f.name]) : EqElem(f, v, val[f.name][i], got[f.name][i])
    ELSE IF ~Has(got, f.name) THEN f.t = "bytes" /\ ~Nullable(f, v) /\ Len(val[f.name]) = 0
    ELSE EqElem(f, v, val[f.name], got[f.name])

EqStruct(fields, v, val, got) == \A i \in 1..Len(fields) : EqField(fields[i], v, val, got)

\* the clauses of C04 for one vector and one build's result; returns the set of failed clause names
Failed(vec, res) ==
    LET m == SchemaOf(vec.msg)
        encBad == vec.mode \in {"rt", "nil"} /\ ~(res.encOk /\ (res.enc = vec.frame \/ (Len(vec.frameAlt) > 0 /\ res.enc = vec.frameAlt)))
        DecBad(d) ==
            IF ~d.ok THEN {"decode-error"}
            ELSE (IF d.consumed # Len(vec.frame) THEN {"consumed"} ELSE {}) \cup
                 (IF d.corr # vec.corr THEN {"correlation-id"} ELSE {}) \cup
                 (IF vec.kind = "request" /\ (d.ver # vec.v \/ d.client # vec.client) THEN {"request-header"} ELSE {}) \cup
                 (IF Len(d.typeErrs) > 0 THEN {"go-type"} ELSE IF ~EqStruct(m.fields, vec.v, vec.value, d.value) THEN {"decoded-value"} ELSE {})
    IN  (IF res.id # vec.id THEN {"result-order"} ELSE {}) \cup
        (IF encBad THEN {"encode"} ELSE {}) \cup
        UNION {DecBad(res.decs[j]) : j \in 1..Len(res.decs)}

Verdict(k) == LET f1 == Failed(Vecs[k], Res1[k])  f2 == Failed(Vecs[k], Res2[k]) IN
              IF f1 = {} /\ f2 = {} THEN TRUE
              ELSE PrintT(<<"MISMATCH", Vecs[k].id, "default", f1, "unsafe", f2>>) /\ FALSE

ASSUME Len(Res1) = N /\ Len(Res2) = N

\* register 7 counts the vectors with a failed clause (single worker); the post-condition is TLC's verdict for the run
VARIABLE i
Init == i = 0 /\ TLCSet(7, 0)
Next == /\ i < N
        /\ i' = i + 1
        /\ (Verdict(i + 1) \/ TLCSet(7, TLCGet(7) + 1))
AllAccepted == PrintT(<<"WIRECHECK", N, TLCGet(7)>>) /\ TLCGet(7) = 0
=============================================================================
