--------------------------- MODULE WireConnCheck ---------------------------
(***************************************************************************)
(* C04, driver B: requests written by the hand-written codec of kafka.Conn *)
(* (write.go, protocol.go requestHeader, the size()/writeTo() pairs).      *)
(* The harness (harness/connwire) lets real Conns talk to the fake brokers *)
(* and records, per connection, every byte the client wrote (`stream`),    *)
(* the version ranges the broker advertised on it and the client id the    *)
(* scenario configured.  TLC steps through the connections and judges each *)
(* stream with the definitions of Wire.tla / WireDecode.tla:               *)
(*                                                                         *)
(*  (a) framing: the stream is a concatenation of frames  size:INT32 body, *)
(*      every frame lies completely in the stream and nothing is left over *)
(*      at its end (a size prefix that does not equal the number of bytes  *)
(*      that follow shows up as a frame that runs past the end, as stray   *)
(*      bytes, or as garbage where the next header should be);             *)
(*  (b) header (request header v1; v2 for flexible versions): the api key  *)
(*      has a request schema in spec/wire/schemas and the version lies in  *)
(*      the schema's range; the version is not higher than what the broker *)
(*      advertised for the key on this connection (ApiVersions v0, which   *)
(*      asks for the ranges, is exempt); correlation ids strictly increase *)
(*      along the connection; the client id is the configured one (a Go    *)
(*      string holds null and "" as one value);                            *)
(*  (c) body: SafeDecode with the schema of (api key, version) succeeds    *)
(*      and ends exactly at the end of the frame, and Encode of the        *)
(*      decoded value gives back exactly the bytes of the body (canonical  *)
(*      encoding).  RECORDS fields are opaque here (record encoding is     *)
(*      C05): the schema is used with RECORDS read as BYTES, which has the *)
(*      same length prefix, so the announced record-set size must still be *)
(*      consistent with the frame.                                         *)
(*                                                                         *)
(* After a SaslHandshake v0 request with mechanism PLAIN the next frame is *)
(* the bare authentication token (size prefix + opaque bytes, no header):  *)
(* that is the protocol of handshake v0, only its framing is judged.       *)
(* A connection whose transport reported a failed Write (`werr`) may end   *)
(* in an incomplete frame: the library cannot finish a frame on a broken   *)
(* connection; everything before is judged as usual.                       *)
(*                                                                         *)
(* Output: one line <<"MISMATCH", scenario, conn, frame index, offset,     *)
(* api key, version, failed clauses>> per bad frame, one line              *)
(* <<"CONNFRAMES", scenario, conn, <<api key, version>>...>> per           *)
(* connection (coverage); the post-condition is false iff a frame is bad.  *)
(***************************************************************************)
EXTENDS WireDecode, Json, IOUtils, FiniteSets

Schemas == ndJsonDeserialize(IOEnv.SCHEMAS)          \* normalised request schemas
Conns   == ndJsonDeserialize(IOEnv.CONNS)
N       == Len(Conns)

\* RECORDS read as BYTES at every level of the schema
RECURSIVE Opaque(_)
Opaque(fs) == [i \in 1..Len(fs) |-> [fs[i] EXCEPT !.t = IF @ = "records" THEN "bytes" ELSE @, !.fields = Opaque(@)]]

ReqIdx(k) == {i \in 1..Len(Schemas) : Schemas[i].kind = "request" /\ Schemas[i].apiKey = k}
SchemaOfKey(k) == LET m == Schemas[CHOOSE i \in ReqIdx(k) : TRUE] IN [m EXCEPT !.fields = Opaque(@)]

NoOpt == [inject |-> FALSE, mut |-> NoMut]

AdvIdx(c, k) == {i \in 1..Len(c.advertised) : c.advertised[i].k = k}

\* the clauses of one frame bs[pos+1 .. pos+4+size] that carries a request header; returns [k, v, corr, bad, stop]
\* (stop: the header is not that of a known request, what follows cannot be interpreted)
Frame(c, bs, pos, size, lastCorr) ==
    LET end == pos + 4 + size IN
    IF size < 10 THEN [k |-> -1, v |-> -1, corr |-> lastCorr, bad |-> {"header-truncated"}, stop |-> TRUE]
    ELSE
    LET k    == DS16(Take(bs, pos + 4, 2))
        v    == DS16(Take(bs, pos + 6, 2))
        corr == DS32(Take(bs, pos + 8, 4))
    IN  IF ReqIdx(k) = {} THEN [k |-> k, v |-> v, corr |-> corr, bad |-> {"api-key-unknown"}, stop |-> TRUE]
        ELSE
        LET m == SchemaOfKey(k) IN
        IF ~InV(m.lo, m.hi, v) THEN [k |-> k, v |-> v, corr |-> corr, bad |-> {"version-unknown"}, stop |-> TRUE]
        ELSE
        LET flex   == Flexible(m, v)
            cl     == ReadLen("i16", bs, pos + 12, end, -1, 1)
            cpos   == IF cl.ok THEN cl.pos + (IF cl.val > 0 THEN cl.val ELSE 0) ELSE 0
            h      == IF ~cl.ok THEN Err ELSE IF flex THEN SkipTags(bs, cpos, end) ELSE Ok(cpos, EmptyRec)
            client == IF cl.ok /\ cl.val > 0 THEN Take(bs, cl.pos, cl.val) ELSE << >>
            adv    == AdvIdx(c, k)
            verBad == ~(k = 18 /\ v = 0) /\ (adv = {} \/ \E i \in adv : v > c.advertised[i].hi)
            b      == IF h.ok THEN DecStruct(m.fields, v, flex, bs, h.pos, end) ELSE Err
            canon  == IF b.ok /\ b.pos = end THEN Bytes(EncodeBody(m, v, b.val, NoOpt)) = SubSeq(bs, h.pos + 1, end) ELSE TRUE
        IN  [k |-> k, v |-> v, corr |-> corr, stop |-> FALSE,
             bad |-> (IF verBad THEN {"version-above-advertised"} ELSE {}) \cup
                     (IF corr <= lastCorr THEN {"correlation-id"} ELSE {}) \cup
                     (IF ~h.ok THEN {"header"} ELSE {}) \cup
                     (IF h.ok /\ client # c.clientId THEN {"client-id"} ELSE {}) \cup
                     (IF h.ok /\ ~b.ok THEN {"body-decode"} ELSE {}) \cup
                     (IF b.ok /\ b.pos # end THEN {"body-length"} ELSE {}) \cup
                     (IF ~canon THEN {"non-canonical"} ELSE {})]

\* the mechanism named in a SaslHandshake body (STRING)
IsPlainHandshake(bs, pos, size) ==
    LET end == pos + 4 + size
        cl  == ReadLen("i16", bs, pos + 12, end, -1, 1)
        cp  == IF cl.ok THEN cl.pos + (IF cl.val > 0 THEN cl.val ELSE 0) ELSE 0
        ml  == IF cl.ok THEN ReadLen("i16", bs, cp, end, 0, 1) ELSE Err
    IN  ml.ok /\ Take(bs, ml.pos, ml.val) = <<80, 76, 65, 73, 78>>

\* walks the stream; acc is the sequence of per-frame verdicts [idx, off, k, v, bad]
RECURSIVE Walk(_, _, _, _, _, _)
Walk(c, pos, idx, lastCorr, raw, acc) ==
    LET bs == c.stream  L == Len(c.stream) IN
    IF pos = L THEN acc
    ELSE IF L - pos < 4
         THEN IF c.werr THEN acc ELSE Append(acc, [idx |-> idx, off |-> pos, k |-> -1, v |-> -1, bad |-> {"stray-bytes"}])
    ELSE LET size == DS32(Take(bs, pos, 4)) IN
         IF size < 0 \/ size > L - pos - 4
         THEN IF c.werr /\ size >= 0 THEN acc ELSE Append(acc, [idx |-> idx, off |-> pos, k |-> -1, v |-> -1, bad |-> {"frame-exceeds-stream"}])
         ELSE IF raw > 0
              THEN Walk(c, pos + 4 + size, idx + 1, lastCorr, raw - 1, Append(acc, [idx |-> idx, off |-> pos, k |-> -2, v |-> 0, bad |-> {}]))
              ELSE LET f  == Frame(c, bs, pos, size, lastCorr)
                       a2 == Append(acc, [idx |-> idx, off |-> pos, k |-> f.k, v |-> f.v, bad |-> f.bad])
                   IN  IF f.stop THEN a2
                       ELSE Walk(c, pos + 4 + size, idx + 1, f.corr,
                                 IF f.k = 17 /\ f.v = 0 /\ f.bad = {} /\ IsPlainHandshake(bs, pos, size) THEN 1 ELSE 0, a2)

Judge(c) == Walk(c, 0, 0, 0, 0, << >>)

\* registers: 7 = bad frames, 8 = frames judged, 9 = connections without a bad frame
Report(c) ==
    LET fs  == Judge(c)
        bad == {j \in 1..Len(fs) : fs[j].bad # {}}
    IN  /\ PrintT(<<"CONNFRAMES", c.scenario, c.conn>> \o [j \in 1..Len(fs) |-> <<fs[j].k, fs[j].v>>])
        /\ \A j \in bad : PrintT(<<"MISMATCH", c.scenario, c.conn, fs[j].idx, fs[j].off, fs[j].k, fs[j].v, fs[j].bad>>)
        /\ TLCSet(7, TLCGet(7) + Cardinality(bad))
        /\ TLCSet(8, TLCGet(8) + Len(fs))
        /\ TLCSet(9, TLCGet(9) + (IF bad = {} THEN 1 ELSE 0))

VARIABLE i
Init == i = 0 /\ TLCSet(7, 0) /\ TLCSet(8, 0) /\ TLCSet(9, 0)
Next == /\ i < N
        /\ i' = i + 1
        /\ Report(Conns[i + 1])
AllAccepted == PrintT(<<"WIRECONNCHECK", N, TLCGet(8), TLCGet(7), TLCGet(9)>>) /\ TLCGet(7) = 0

\* self-test of the judge on hand-made streams (ApiVersions v0 request, client id "ab", correlation ids 1, 2)
TestConn(stream, werr) == [scenario |-> "t", conn |-> 1, clientId |-> <<97, 98>>, werr |-> werr,
                           advertised |-> << [k |-> 18, lo |-> 0, hi |-> 0], [k |-> 3, lo |-> 0, hi |-> 1], [k |-> 19, lo |-> 0, hi |-> 1] >>, stream |-> stream]
ApiV(corr) == <<0, 0, 0, 12, 0, 18, 0, 0, 0, 0, 0, corr, 0, 2, 97, 98>>
MetaV(ver, corr, n) == <<0, 0, 0, 16, 0, 3, 0, ver, 0, 0, 0, corr, 0, 2, 97, 98>> \o Int32(n)
CreateV1(corr, b) == <<0, 0, 0, 21, 0, 19, 0, 1, 0, 0, 0, corr, 0, 2, 97, 98>> \o Int32(0) \o Int32(5) \o <<b>>   \* no topics, timeout, validateOnly
Bads(c) == LET fs == Judge(c) IN [j \in 1..Len(fs) |-> fs[j].bad]
ASSUME Bads(TestConn(ApiV(1) \o ApiV(2), FALSE)) = << {}, {} >>
ASSUME Bads(TestConn(ApiV(1) \o ApiV(1), FALSE)) = << {}, {"correlation-id"} >>
ASSUME Bads(TestConn(ApiV(1) \o <<0>>, FALSE)) = << {}, {"stray-bytes"} >>
ASSUME Bads(TestConn(ApiV(1) \o <<0>>, TRUE)) = << {} >>
ASSUME Bads(TestConn(ApiV(1) \o <<0, 0, 0, 13>> \o Tail(Tail(Tail(Tail(ApiV(2))))), FALSE)) = << {}, {"frame-exceeds-stream"} >>
ASSUME Bads(TestConn(ApiV(1) \o MetaV(1, 2, 0), FALSE)) = << {}, {} >>
ASSUME Bads(TestConn(ApiV(1) \o MetaV(1, 2, -1), FALSE)) = << {}, {} >>                     \* null topic list: legal from v1
ASSUME Bads(TestConn(ApiV(1) \o MetaV(0, 2, -1), FALSE)) = << {}, {"body-decode"} >>        \* not nullable in v0
ASSUME Bads(TestConn(ApiV(1) \o MetaV(2, 2, 0), FALSE)) = << {}, {"version-above-advertised"} >>
ASSUME Bads(TestConn(ApiV(1) \o MetaV(1, 2, 1), FALSE)) = << {}, {"body-decode"} >>         \* one topic announced, none present
ASSUME Bads(TestConn(CreateV1(1, 1) \o CreateV1(2, 0) \o CreateV1(3, 2), FALSE)) = << {}, {}, {"non-canonical"} >>  \* BOOLEAN is 0 or 1
ASSUME Bads(TestConn(<<0, 0, 0, 13, 0, 18, 0, 0, 0, 0, 0, 1, 0, 2, 97, 98, 0>>, FALSE)) = << {"body-length"} >>
ASSUME Bads(TestConn(<<0, 0, 0, 12, 0, 99, 0, 0, 0, 0, 0, 1, 0, 2, 97, 98>> \o ApiV(2), FALSE)) = << {"api-key-unknown"} >>
ASSUME Bads(TestConn(<<0, 0, 0, 12, 0, 18, 0, 0, 0, 0, 0, 1, 0, 2, 97, 99>>, FALSE)) = << {"client-id"} >>
=============================================================================
