----------------------------- MODULE WireDecode -----------------------------
(***************************************************************************)
(* SafeDecode: the reference decoder of the Kafka wire format, the inverse *)
(* of Wire!Encode, written as a decoder that carries the end of the frame  *)
(* (`end`; remain = end - pos).  Every length or count L read from the     *)
(* wire must satisfy  lb <= L  (lb = -1 where null is legal, else 0) and   *)
(* L * minElemSize <= remain, otherwise the outcome is Error: a safe       *)
(* decoder never sizes an allocation from a length it has not checked      *)
(* against the bytes it actually holds, so what it allocates is bounded by *)
(* a linear function of the frame length.  The only outcomes are           *)
(* [ok |-> FALSE] (Error) and [ok |-> TRUE, val, pos] (Decoded).           *)
(* Unknown tagged fields are skipped; tags must ascend; an unsigned varint *)
(* has at most 5 bytes (Kafka's are 32 bit).                               *)
(* Positions are 0-based offsets into the byte sequence bs.                *)
(***************************************************************************)
EXTENDS Wire

Ok(pos, val) == [ok |-> TRUE, pos |-> pos, val |-> val]
Err          == [ok |-> FALSE, pos |-> 0, val |-> << >>]
Take(bs, pos, n) == SubSeq(bs, pos + 1, pos + n)

DU16(b) == b[1] * 256 + b[2]
DS16(b) == IF b[1] >= 128 THEN DU16(b) - 65536 ELSE DU16(b)
DS8(b)  == IF b[1] >= 128 THEN b[1] - 256 ELSE b[1]
DS32(b) == IF b[1] >= 128
           THEN -((255 - b[1]) * 16777216 + (255 - b[2]) * 65536 + (255 - b[3]) * 256 + (255 - b[4])) - 1
           ELSE b[1] * 16777216 + b[2] * 65536 + b[3] * 256 + b[4]

\* unsigned varint: Ok(pos, value) for values below 2^31; Err for more than 5 bytes, truncation, or a value of 2^31 and
\* more (no length in a frame can be that large: the frame size itself is an INT32)
RECURSIVE UVLoop(_, _, _, _, _, _)
UVLoop(bs, pos, end, i, mul, acc) ==
    IF pos >= end THEN Err
    ELSE LET b == bs[pos + 1] IN
         IF b < 128 THEN (IF i = 4 /\ b > 7 THEN Err ELSE Ok(pos + 1, acc + b * mul))
         ELSE IF i = 4 THEN Err
         ELSE UVLoop(bs, pos + 1, end, i + 1, mul * 128, acc + (b - 128) * mul)
ReadUV(bs, pos, end) == UVLoop(bs, pos, end, 0, 1, 0)

\* a length prefix: Ok(pos, L) with L the logical length (-1 = null), checked by the SafeDecode rule
ReadLen(kind, bs, pos, end, lb, me) ==
    LET r == CASE kind = "i16" -> IF pos + 2 <= end THEN Ok(pos + 2, DS16(Take(bs, pos, 2))) ELSE Err
               [] kind = "i32" -> IF pos + 4 <= end THEN Ok(pos + 4, DS32(Take(bs, pos, 4))) ELSE Err
               [] kind = "uvb" -> LET u == ReadUV(bs, pos, end) IN IF u.ok THEN Ok(u.pos, u.val - 1) ELSE Err
               [] OTHER        -> ReadUV(bs, pos, end)
    IN  IF ~r.ok THEN Err
        ELSE IF r.val < lb THEN Err
        ELSE IF r.val > 0 /\ r.val > (end - r.pos) \div (IF me < 1 THEN 1 ELSE me) THEN Err
        ELSE r

RECURSIVE DecStruct(_, _, _, _, _, _), DecFields(_, _, _, _, _, _, _, _), DecField(_, _, _, _, _, _),
          DecElem(_, _, _, _, _, _, _), DecArray(_, _, _, _, _, _, _, _, _), DecTags(_, _, _, _, _, _, _, _, _)

\* one element; for nullable string / bytes / records the result val is [null |-> BOOLEAN, x |-> value]
DecElem(f, v, flex, bs, pos, end, nl) ==
    LET Fixed(n, conv(_)) == IF pos + n <= end THEN Ok(pos + n, [null |-> FALSE, x |-> conv(Take(bs, pos, n))]) ELSE Err
        Id(b) == b
        Blob(kind) == LET l == ReadLen(kind, bs, pos, end, IF nl THEN -1 ELSE 0, 1) IN
                      IF ~l.ok THEN Err
                      ELSE IF l.val < 0 THEN Ok(l.pos, [null |-> TRUE, x |-> << >>])
                      ELSE Ok(l.pos + l.val, [null |-> FALSE, x |-> Take(bs, l.pos, l.val)])
    IN  CASE f.t = "bool"    -> Fixed(1, LAMBDA b: b[1] # 0)
          [] f.t = "int8"    -> Fixed(1, DS8)
          [] f.t = "int16"   -> Fixed(2, DS16)
          [] f.t = "uint16"  -> Fixed(2, DU16)
          [] f.t = "int32"   -> Fixed(4, DS32)
          [] f.t \in {"int64", "float64"} -> Fixed(8, Id)
          [] f.t = "uuid"    -> Fixed(16, Id)
          [] f.t = "string"  -> Blob(IF flex THEN "uvb" ELSE "i16")
          [] f.t \in {"bytes", "records"} -> Blob(IF flex THEN "uvb" ELSE "i32")
          [] OTHER -> LET s == DecStruct(f.fields, v, flex, bs, pos, end) IN
                      IF s.ok THEN Ok(s.pos, [null |-> FALSE, x |-> s.val]) ELSE Err

DecArray(f, v, flex, bs, pos, end, n, i, acc) ==
    IF i > n THEN Ok(pos, acc)
    ELSE LET e == DecElem(f, v, flex, bs, pos, end, FALSE) IN
         IF ~e.ok THEN Err ELSE DecArray(f, v, flex, bs, e.pos, end, n, i + 1, Append(acc, e.val.x))

\* a field: val is [null |-> BOOLEAN, x |-> value]
DecField(f, v, flex, bs, pos, end) ==
    LET nl == Nullable(f, v) IN
    IF f.arr
    THEN LET l == ReadLen(IF flex THEN "uvb" ELSE "i32", bs, pos, end, IF nl THEN -1 ELSE 0, MinElem(f, v, flex)) IN
         IF ~l.ok THEN Err
         ELSE IF l.val < 0 THEN Ok(l.pos, [null |-> TRUE, x |-> << >>])
         ELSE LET a == DecArray(f, v, flex, bs, l.pos, end, l.val, 1, << >>) IN
              IF a.ok THEN Ok(a.pos, [null |-> FALSE, x |-> a.val]) ELSE Err
    ELSE DecElem(f, v, flex, bs, pos, end, nl)

DecFields(fs, i, v, flex, bs, pos, end, acc) ==
    IF i > Len(fs) THEN Ok(pos, acc)
    ELSE LET r == DecField(fs[i], v, flex, bs, pos, end) IN
         IF ~r.ok THEN Err
         ELSE DecFields(fs, i + 1, v, flex, bs, r.pos, end, IF r.val.null THEN acc ELSE (fs[i].name :> r.val.x) @@ acc)

\* the tag section: n entries (tag, size, payload), tags strictly ascending; known tags are decoded, others skipped
DecTags(known, v, flex, bs, pos, end, n, last, acc) ==
    IF n = 0 THEN Ok(pos, acc)
    ELSE LET t == ReadUV(bs, pos, end) IN
         IF ~t.ok \/ t.val <= last THEN Err
         ELSE LET s == ReadLen("uv", bs, t.pos, end, 0, 1) IN
              IF ~s.ok THEN Err
              ELSE LET ks == SelectSeq(known, LAMBDA f: f.tag = t.val) IN
                   IF Len(ks) = 0 THEN DecTags(known, v, flex, bs, s.pos + s.val, end, n - 1, t.val, acc)
                   ELSE LET r == DecField(ks[1], v, flex, bs, s.pos, s.pos + s.val) IN
                        IF ~r.ok \/ r.pos # s.pos + s.val THEN Err
                        ELSE DecTags(known, v, flex, bs, r.pos, end, n - 1, t.val,
                                     IF r.val.null THEN acc ELSE (ks[1].name :> r.val.x) @@ acc)

EmptyRec == [n \in {} |-> 0]
DecStruct(fields, v, flex, bs, pos, end) ==
    LET act   == SelectSeq(fields, LAMBDA f: Active(f, v))
        plain == SelectSeq(act, LAMBDA f: ~Tagged(f, v))
        known == SelectSeq(act, LAMBDA f: Tagged(f, v))
        p     == DecFields(plain, 1, v, flex, bs, pos, end, EmptyRec)
    IN  IF ~p.ok \/ ~flex THEN p
        ELSE LET c == ReadLen("uv", bs, p.pos, end, 0, 2) IN
             IF ~c.ok THEN Err ELSE DecTags(known, v, flex, bs, c.pos, end, c.val, -1, p.val)

SkipTags(bs, pos, end) ==
    LET c == ReadLen("uv", bs, pos, end, 0, 2) IN
    IF ~c.ok THEN Err ELSE DecTags(<< >>, 0, TRUE, bs, c.pos, end, c.val, -1, EmptyRec)

(* a response frame as the client receives it: bs may be followed by bytes of the next frame.  Decoded: val = the body
   value, corr, used = number of bytes of bs that belong to this frame (4 + size); bytes of the frame behind the body
   are ignored (a decoder is bounded by the frame size and discards the unread rest) *)
DecodeResponse(m, v, bs) ==
    IF Len(bs) < 4 THEN Err
    ELSE LET size == DS32(Take(bs, 0, 4)) IN
         IF size < 0 \/ size > Len(bs) - 4 \/ size < 4 THEN Err
         ELSE LET end == 4 + size
                  h   == IF Flexible(m, v) /\ m.apiKey # 18 THEN SkipTags(bs, 8, end) ELSE Ok(8, EmptyRec)
              IN  IF ~h.ok THEN Err
                  ELSE LET b == DecStruct(m.fields, v, Flexible(m, v), bs, h.pos, end) IN
                       IF ~b.ok THEN Err
                       ELSE [ok |-> TRUE, pos |-> b.pos, val |-> b.val, corr |-> DS32(Take(bs, 4, 4)), used |-> end]

DecodeRequest(m, v, bs) ==
    IF Len(bs) < 4 THEN Err
    ELSE LET size == DS32(Take(bs, 0, 4)) IN
         IF size < 0 \/ size > Len(bs) - 4 \/ size < 10 THEN Err
         ELSE LET end == 4 + size
                  cl  == ReadLen("i16", bs, 12, end, -1, 1) IN
              IF ~cl.ok THEN Err
              ELSE LET cpos == cl.pos + (IF cl.val > 0 THEN cl.val ELSE 0)
                       h    == IF Flexible(m, v) THEN SkipTags(bs, cpos, end) ELSE Ok(cpos, EmptyRec)
                   IN  IF ~h.ok THEN Err
                       ELSE LET b == DecStruct(m.fields, v, Flexible(m, v), bs, h.pos, end) IN
                            IF ~b.ok THEN Err
                            ELSE [ok |-> TRUE, pos |-> b.pos, val |-> b.val, corr |-> DS32(Take(bs, 8, 4)), used |-> end,
                                  apiKey |-> DS16(Take(bs, 4, 2)), ver |-> DS16(Take(bs, 6, 2)),
                                  clientNull |-> cl.val < 0, client |-> IF cl.val > 0 THEN Take(bs, cl.pos, cl.val) ELSE << >>]

\* the value with its tagged fields removed when the struct carries them only in flexible versions does not matter
\* here: Encode writes exactly the keys of the value, SafeDecode returns exactly the keys it read.
ASSUME DS32(<<255, 255, 255, 254>>) = -2 /\ DS32(<<128, 0, 0, 0>>) = -2147483647 - 1 /\ DS16(<<255, 255>>) = -1
ASSUME ReadUV(<<172, 2>>, 0, 2) = Ok(2, 300) /\ ReadUV(<<128>>, 0, 1) = Err /\ ReadUV(<<128, 128, 128, 128, 128, 1>>, 0, 6) = Err
ASSUME ReadUV(<<255, 255, 255, 255, 7>>, 0, 5) = Ok(5, 2147483647) /\ ReadUV(<<128, 128, 128, 128, 8>>, 0, 5) = Err
=============================================================================
