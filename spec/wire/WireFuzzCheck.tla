--------------------------- MODULE WireFuzzCheck ---------------------------
(***************************************************************************)
(* C20, judging run: TLC steps through the cases written by WireFuzzGen    *)
(* and the outcome lines of the real decoder (protocol.ReadResponse run in *)
(* a child process) and applies WireFuzz!Judge to every pair.  Every       *)
(* violating case is printed (FUZZVIOL id verdict) and counted in register *)
(* 7; cases where the decoder was more lenient or stricter than the model  *)
(* are counted (not violations of C20); an unmutated base frame (class     *)
(* "exact") that the decoder rejects is printed as FUZZNOTE.               *)
(***************************************************************************)
EXTENDS WireFuzz, Json, IOUtils

Cases   == ndJsonDeserialize(IOEnv.CASES)
Results == ndJsonDeserialize(IOEnv.RESULTS)
N       == Len(Cases)
ASSUME Len(Results) = N

Verdict(k) ==
    LET c == Cases[k]  r == Results[k]  j == IF r.id = c.id THEN Judge(c, r) ELSE "result-order" IN
    /\ (j = "ok" \/ PrintT(<<"FUZZVIOL", c.id, j>>))
    /\ (j # "ok" \/ ~(c.class = "exact" /\ r.outcome = "error") \/ PrintT(<<"FUZZNOTE", c.id, "base-frame-rejected">>))
    /\ j = "ok"

VARIABLE i
Init == i = 0 /\ TLCSet(7, 0) /\ TLCSet(8, 0)
Next == /\ i < N
        /\ i' = i + 1
        /\ (Verdict(i + 1) \/ TLCSet(7, TLCGet(7) + 1))
        /\ (~(Cases[i + 1].expect = "Error" /\ Results[i + 1].outcome = "decoded") \/ TLCSet(8, TLCGet(8) + 1))
AllAccepted == PrintT(<<"WIREFUZZCHECK", N, TLCGet(7), TLCGet(8)>>) /\ TLCGet(7) = 0
=============================================================================
