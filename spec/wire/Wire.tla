------------------------------- MODULE Wire -------------------------------
(***************************************************************************)
(* The Kafka wire format as TLA+ operators over byte sequences (tuples of  *)
(* 0..255), independent of kafka-go's code:                                *)
(*   (i)   the primitive type system of the Kafka protocol;                *)
(*   (ii)  Encode of a message value against a message definition (the     *)
(*         schema files spec/wire/schemas/*.json, in the shape of Apache   *)
(*         Kafka's message definitions, normalised to numeric version      *)
(*         ranges by lib/engines/wire.py and loaded with the Json module), *)
(*         request header v1/v2, response header v0/v1, framing;           *)
(*   (iii) the boundary-value generator used by WireGen.                   *)
(* The encoder produces a sequence of TOKENS [k, b, p, x]: k the kind of   *)
(* the token (a length/count prefix kind, "fix" or "data"), b its bytes,   *)
(* p the path of the field, x the logical value of a length/count.  The    *)
(* bytes of a message are the concatenation of the b's; the layout map     *)
(* used by WireFuzz (offset/length/kind of every length field) is read off *)
(* the same tokens, so bytes and layout cannot disagree.                   *)
(*                                                                         *)
(* Values mirror the schema: a struct is a record keyed by the schema's    *)
(* field names, an array a tuple, BOOLEAN a boolean, INT8/16/32 an         *)
(* integer, INT64 / FLOAT64 / UUID an explicit tuple of 8 / 8 / 16 bytes   *)
(* (TLC integers are 32 bit), STRING and BYTES a tuple of bytes (the UTF-8 *)
(* bytes of a string), RECORDS a tuple of bytes.  null (nullable field) or *)
(* "not sent" (tagged field) is the ABSENCE of the field's key.            *)
(***************************************************************************)
EXTENDS Integers, Sequences, SequencesExt, TLC

Rep(b, n) == [i \in 1..n |-> b]

(* ---------------- (i) primitive types ---------------- *)
Int8(x)  == << IF x < 0 THEN x + 256 ELSE x >>
Int16(x) == LET u == IF x < 0 THEN x + 65536 ELSE x IN << u \div 256, u % 256 >>
NN32(y)  == << y \div 16777216, (y \div 65536) % 256, (y \div 256) % 256, y % 256 >>   \* 0 <= y < 2^31
\* two's complement of a negative x is the bitwise complement of -(x+1)
Int32(x) == IF x >= 0 THEN NN32(x)
            ELSE LET c == NN32(-(x + 1)) IN << 255 - c[1], 255 - c[2], 255 - c[3], 255 - c[4] >>
Bool(x)  == << IF x THEN 1 ELSE 0 >>
\* INT64, FLOAT64 (IEEE-754 bits) and UUID values are carried as explicit big-endian byte tuples
Int64(t) == t
I64Of(x) == IF x >= 0 THEN <<0, 0, 0, 0>> \o NN32(x) ELSE <<255, 255, 255, 255>> \o Int32(x)  \* sign extension of a 32-bit value

RECURSIVE UVarint(_)
UVarint(n) == IF n < 128 THEN << n >> ELSE << (n % 128) + 128 >> \o UVarint(n \div 128)       \* 0 <= n < 2^31
Varint(x)  == UVarint(IF x >= 0 THEN 2 * x ELSE -2 * x - 1)                                  \* zig-zag, |x| < 2^30

\* known answers (Kafka protocol guide / protobuf varint examples)
ASSUME Int16(-1) = <<255, 255>> /\ Int16(258) = <<1, 2>> /\ Int8(-128) = <<128>>
ASSUME Int32(-1) = <<255, 255, 255, 255>> /\ Int32(-2147483647 - 1) = <<128, 0, 0, 0>> /\ Int32(2147483647) = <<127, 255, 255, 255>>
ASSUME Int32(16909060) = <<1, 2, 3, 4>> /\ Int32(-2) = <<255, 255, 255, 254>>
ASSUME UVarint(0) = <<0>> /\ UVarint(127) = <<127>> /\ UVarint(128) = <<128, 1>> /\ UVarint(300) = <<172, 2>> /\ UVarint(16384) = <<128, 128, 1>>
ASSUME Varint(0) = <<0>> /\ Varint(-1) = <<1>> /\ Varint(1) = <<2>> /\ Varint(-64) = <<127>> /\ Varint(64) = <<128, 1>>
ASSUME I64Of(-2) = <<255, 255, 255, 255, 255, 255, 255, 254>> /\ I64Of(1) = <<0, 0, 0, 0, 0, 0, 0, 1>>

(* ---------------- tokens ---------------- *)
\* lb / me are meaningful for length and count tokens only: lb the least legal logical value (-1 where null is legal,
\* else 0), me the least number of bytes one counted element occupies in the frame (used by the SafeDecode rule)
Tok(k, b, p, x) == [k |-> k, b |-> b, p |-> p, x |-> x, lb |-> 0, me |-> 0, span |-> 0]
Fix(b, p)       == << Tok("fix", b, p, 0) >>
NoMut           == [k |-> "", p |-> "", b |-> << >>]
\* a length / count token; opt.mut (WireFuzz) overrides the bytes of exactly one of them, identified by (kind, path):
\* everything that encloses it (tagged-field sizes, the frame size) is still computed from the actual bytes
LenTok(k, b, p, x, lb, me, opt) ==
    [k |-> k, b |-> (IF opt.mut.k = k /\ opt.mut.p = p THEN opt.mut.b ELSE b), p |-> p, x |-> x, lb |-> lb, me |-> me, span |-> 0]

RECURSIVE CatB(_, _, _)
CatB(ts, lo, hi) == IF lo > hi THEN << >> ELSE IF lo = hi THEN ts[lo].b
                    ELSE LET m == (lo + hi) \div 2 IN CatB(ts, lo, m) \o CatB(ts, m + 1, hi)
Bytes(ts) == CatB(ts, 1, Len(ts))

RECURSIVE CatS(_, _, _)
CatS(ss, lo, hi) == IF lo > hi THEN << >> ELSE IF lo = hi THEN ss[lo]
                    ELSE LET m == (lo + hi) \div 2 IN CatS(ss, lo, m) \o CatS(ss, m + 1, hi)
Concat(ss) == CatS(ss, 1, Len(ss))                                    \* concatenation of a sequence of sequences

RECURSIVE SizeT(_, _, _)
SizeT(ts, lo, hi) == IF lo > hi THEN 0 ELSE IF lo = hi THEN Len(ts[lo].b)
                     ELSE LET m == (lo + hi) \div 2 IN SizeT(ts, lo, m) + SizeT(ts, m + 1, hi)
Size(ts) == SizeT(ts, 1, Len(ts))

(* length / count prefixes: x is the logical length, -1 for null; nl: null is legal here *)
LB(nl) == IF nl THEN -1 ELSE 0
StrLen(n, flex, p, nl, opt)   == IF flex THEN LenTok("compact-string-len", UVarint(n + 1), p, n, LB(nl), 1, opt) ELSE LenTok("string-len", Int16(n), p, n, LB(nl), 1, opt)
BytesLen(n, flex, p, nl, opt) == IF flex THEN LenTok("compact-bytes-len", UVarint(n + 1), p, n, LB(nl), 1, opt) ELSE LenTok("bytes-len", Int32(n), p, n, LB(nl), 1, opt)
RecsLen(n, flex, p, nl, opt)  == IF flex THEN LenTok("compact-record-set-size", UVarint(n + 1), p, n, LB(nl), 1, opt) ELSE LenTok("record-set-size", Int32(n), p, n, LB(nl), 1, opt)
ArrLen(n, flex, p, nl, me, opt) == IF flex THEN LenTok("compact-array-count", UVarint(n + 1), p, n, LB(nl), me, opt) ELSE LenTok("array-count", Int32(n), p, n, LB(nl), me, opt)

(* ---------------- schema helpers (normalised schema records) ---------------- *)
InV(lo, hi, v)   == lo <= v /\ v <= hi
Active(f, v)     == InV(f.vlo, f.vhi, v)
Nullable(f, v)   == InV(f.nlo, f.nhi, v)
Tagged(f, v)     == InV(f.tlo, f.thi, v)
Flexible(m, v)   == InV(m.flo, m.fhi, v)
IsPrim(t)        == t \in {"bool", "int8", "int16", "int32", "int64", "float64", "uuid", "string", "bytes", "records", "uint16", "uint32"}

\* least number of bytes an element of field f (or the field itself) occupies at version v
RECURSIVE MinElem(_, _, _), MinField(_, _, _)
MinElem(f, v, flex) ==
    CASE f.t \in {"bool", "int8"} -> 1 [] f.t \in {"int16", "uint16"} -> 2 [] f.t \in {"int32", "uint32"} -> 4
      [] f.t \in {"int64", "float64"} -> 8 [] f.t = "uuid" -> 16
      [] f.t = "string" -> IF flex THEN 1 ELSE 2
      [] f.t \in {"bytes", "records"} -> IF flex THEN 1 ELSE 4
      [] OTHER -> LET act == SelectSeq(f.fields, LAMBDA g: Active(g, v) /\ ~Tagged(g, v))
                      ms  == [i \in 1..Len(act) |-> MinField(act[i], v, flex)]
                  IN  FoldLeft(LAMBDA a, b: a + b, IF flex THEN 1 ELSE 0, ms)
MinField(f, v, flex) == IF f.arr THEN (IF flex THEN 1 ELSE 4) ELSE MinElem(f, v, flex)

(* ---------------- (ii) Encode ---------------- *)
\* opt = [inject |-> BOOLEAN, mut |-> NoMut or a mutation]; inject: unknown tagged fields in every tag section (decode-only vectors)
UnknownTags(top) == IF top THEN << [tag |-> 47, ts |-> << Tok("data", << >>, "?47", 0) >>],
                                   [tag |-> 300, ts |-> << Tok("data", Rep(165, 130), "?300", 0) >>] >>
                    ELSE << [tag |-> 47, ts |-> << Tok("data", << >>, "?47", 0) >>],
                            [tag |-> 300, ts |-> << Tok("data", <<7, 8, 9>>, "?300", 0) >>] >>

TagSection(entries, p, opt) ==
    LET es == SortSeq(entries, LAMBDA a, b: a.tag < b.tag)
    IN  << LenTok("tagged-count", UVarint(Len(es)), p, Len(es), 0, 2, opt) >> \o
        Concat([i \in 1..Len(es) |->
                  << Tok("fix", UVarint(es[i].tag), p, 0),
                     LenTok("tagged-size", UVarint(Size(es[i].ts)), p \o "#" \o ToString(es[i].tag), Size(es[i].ts), 0, 1, opt) >> \o es[i].ts])

(* A RECORDS value is a sequence of tokens supplied from outside (record encoding is property C05; the harness builds
   well-formed batches with its independent record codec); << >> is the empty record set.  Tokens with span > 0 and an
   encoding hold the size of the span tokens that follow (batch length, record length, message size): they are
   recomputed here so that a mutation elsewhere leaves them correct.  Checksum tokens ("crc32c", "crc32") keep their
   span: the harness fills them in from the layout map (TLC does not compute CRC-32). *)
RECURSIVE ResolveBlob(_, _, _, _)
ResolveBlob(toks, i, p, opt) ==
    IF i > Len(toks) THEN << >>
    ELSE LET rest == ResolveBlob(toks, i + 1, p, opt)
             t    == toks[i]
             q    == p \o "." \o t.p
         IN  IF t.enc = "" THEN << [k |-> t.k, b |-> t.b, p |-> q, x |-> t.x, lb |-> 0, me |-> 0, span |-> t.span] >> \o rest
             ELSE LET n == IF t.span > 0 THEN Size(SubSeq(rest, 1, t.span)) ELSE t.x
                      b == IF t.span = 0 THEN t.b ELSE IF t.enc = "int32" THEN Int32(n) ELSE Varint(n)
                  IN  << LenTok(t.k, b, q, n, t.lb, t.me, opt) >> \o rest

RECURSIVE EncStruct(_, _, _, _, _, _), EncField(_, _, _, _, _, _), EncElem(_, _, _, _, _, _, _)

EncElem(f, v, x, flex, p, nl, opt) ==
    CASE f.t = "bool"    -> Fix(Bool(x), p)
      [] f.t = "int8"    -> Fix(Int8(x), p)
      [] f.t = "int16"   -> Fix(Int16(x), p)
      [] f.t = "uint16"  -> Fix(<< x \div 256, x % 256 >>, p)
      [] f.t = "int32"   -> Fix(Int32(x), p)
      [] f.t = "int64"   -> Fix(Int64(x), p)
      [] f.t = "float64" -> Fix(x, p)
      [] f.t = "uuid"    -> Fix(x, p)
      [] f.t = "string"  -> << StrLen(Len(x), flex, p, nl, opt), Tok("data", x, p, 0) >>
      [] f.t = "bytes"   -> << BytesLen(Len(x), flex, p, nl, opt), Tok("data", x, p, 0) >>
      [] f.t = "records" -> LET inner == ResolveBlob(x, 1, p, opt) IN << RecsLen(Size(inner), flex, p, nl, opt) >> \o inner
      [] OTHER           -> EncStruct(f.fields, v, x, flex, p, opt)

NullEnc(f, v, flex, p, opt) ==
    IF f.arr THEN << ArrLen(-1, flex, p, TRUE, MinElem(f, v, flex), opt) >>
    ELSE CASE f.t = "string"  -> << StrLen(-1, flex, p, TRUE, opt) >>
           [] f.t = "bytes"   -> << BytesLen(-1, flex, p, TRUE, opt) >>
           [] f.t = "records" -> << RecsLen(-1, flex, p, TRUE, opt) >>
           [] OTHER           -> << Tok("SPEC-ERROR-null-for-non-nullable-type", << >>, p, 0) >>

EncField(f, v, val, flex, path, opt) ==
    LET p == IF path = "" THEN f.name ELSE path \o "." \o f.name IN
    IF f.name \notin DOMAIN val
    THEN IF Nullable(f, v) THEN NullEnc(f, v, flex, p, opt) ELSE << Tok("SPEC-ERROR-missing-field", << >>, p, 0) >>
    ELSE IF f.arr
         THEN LET a == val[f.name] IN
              << ArrLen(Len(a), flex, p, Nullable(f, v), MinElem(f, v, flex), opt) >> \o
              Concat([i \in 1..Len(a) |-> EncElem(f, v, a[i], flex, p \o "[" \o ToString(i - 1) \o "]", FALSE, opt)])
         ELSE EncElem(f, v, val[f.name], flex, p, Nullable(f, v), opt)

EncStruct(fields, v, val, flex, path, opt) ==
    LET act    == SelectSeq(fields, LAMBDA f: Active(f, v))
        plain  == SelectSeq(act, LAMBDA f: ~Tagged(f, v))
        tagged == SelectSeq(act, LAMBDA f: Tagged(f, v) /\ f.name \in DOMAIN val)
        known  == [i \in 1..Len(tagged) |-> [tag |-> tagged[i].tag, ts |-> EncField(tagged[i], v, val, flex, path, opt)]]
    IN  Concat([i \in 1..Len(plain) |-> EncField(plain[i], v, val, flex, path, opt)]) \o
        (IF flex THEN TagSection(known \o (IF opt.inject THEN UnknownTags(path = "") ELSE << >>), IF path = "" THEN "$tags" ELSE path \o ".$tags", opt)
                 ELSE << >>)

EncodeBody(m, v, val, opt) == EncStruct(m.fields, v, val, Flexible(m, v), "", opt)

(* request header v1 (non-flexible) / v2 (flexible); the client id is a NULLABLE_STRING with an INT16 length in both *)
ReqHeader(m, v, corr, clientNull, client, opt) ==
    Fix(Int16(m.apiKey), "$apiKey") \o Fix(Int16(v), "$apiVersion") \o Fix(Int32(corr), "$correlationId") \o
    (IF clientNull THEN << LenTok("string-len", Int16(-1), "$clientId", -1, -1, 1, opt) >>
                   ELSE << LenTok("string-len", Int16(Len(client)), "$clientId", Len(client), -1, 1, opt), Tok("data", client, "$clientId", 0) >>) \o
    (IF Flexible(m, v) THEN TagSection(IF opt.inject THEN UnknownTags(FALSE) ELSE << >>, "$header.$tags", opt) ELSE << >>)

(* response header v0 / v1 (flexible, except ApiVersions which always uses v0) *)
ResHeader(m, v, corr, opt) ==
    Fix(Int32(corr), "$correlationId") \o
    (IF Flexible(m, v) /\ m.apiKey # 18 THEN TagSection(IF opt.inject THEN UnknownTags(FALSE) ELSE << >>, "$header.$tags", opt) ELSE << >>)

FrameT(ts, opt) == << LenTok("frame-size", Int32(Size(ts)), "$frame", Size(ts), 0, 1, opt) >> \o ts

RequestFrame(m, v, corr, clientNull, client, val, opt)  == FrameT(ReqHeader(m, v, corr, clientNull, client, opt) \o EncodeBody(m, v, val, opt), opt)
ResponseFrame(m, v, corr, val, opt) == FrameT(ResHeader(m, v, corr, opt) \o EncodeBody(m, v, val, opt), opt)

(* layout map of a token sequence: offset (0-based), length, kind, path, logical value of every token *)
RECURSIVE LayoutFrom(_, _, _)
LayoutFrom(ts, i, off) == IF i > Len(ts) THEN << >>
                          ELSE << [off |-> off, len |-> Len(ts[i].b), k |-> ts[i].k, p |-> ts[i].p, x |-> ts[i].x, lb |-> ts[i].lb, me |-> ts[i].me, span |-> ts[i].span] >> \o LayoutFrom(ts, i + 1, off + Len(ts[i].b))
Layout(ts) == LayoutFrom(ts, 1, 0)

(* ---------------- (iii) boundary-value generator ---------------- *)
\* rows 0..48 of the orthogonal array OA(49, 8, 7, 2): any two of the 8 columns take every pair of symbols
\* exactly once over the 49 rows, i.e. pairwise combination of the field pools of a struct
Idx(r, c) == LET a == r \div 7  b == r % 7  k == c % 8 IN IF k = 7 THEN b ELSE (a + k * b) % 7

P8   == << 0, 1, -1, -128, 127, 18 >>
P16  == << 0, 1, -1, -32768, 32767, 258 >>
P32  == << 0, 1, -1, -2147483647 - 1, 2147483647, 16909060 >>
PU16 == << 0, 1, 65535, 32768, 258 >>
P64  == << <<0, 0, 0, 0, 0, 0, 0, 0>>, <<0, 0, 0, 0, 0, 0, 0, 1>>, <<255, 255, 255, 255, 255, 255, 255, 255>>,
           <<128, 0, 0, 0, 0, 0, 0, 0>>, <<127, 255, 255, 255, 255, 255, 255, 255>>, <<1, 2, 3, 4, 5, 6, 7, 8>> >>
PF64 == << <<0, 0, 0, 0, 0, 0, 0, 0>>, <<63, 240, 0, 0, 0, 0, 0, 0>>, <<191, 240, 0, 0, 0, 0, 0, 0>>,
           <<127, 239, 255, 255, 255, 255, 255, 255>>, <<64, 9, 33, 251, 84, 68, 45, 24>>, <<128, 0, 0, 0, 0, 0, 0, 0>> >>
PUU  == << Rep(0, 16), <<1, 2, 3, 4, 5, 6, 7, 8, 9, 10, 11, 12, 13, 14, 15, 16>>, Rep(255, 16) >>
\* strings: "a", a 2-byte UTF-8 character, lengths 126/127/128 (compact length prefix crosses one byte at 127), ""
PStr(i) == CASE i = 0 -> << 97 >> [] i = 1 -> << 195, 169 >> [] i = 2 -> Rep(98, 127) [] i = 3 -> Rep(99, 128)
             [] i = 4 -> Rep(100, 126) [] i = 5 -> << 107, 45, 226, 130, 172 >> [] OTHER -> << >>
PByt(i) == CASE i = 0 -> << 0 >> [] i = 1 -> << 255, 0, 128 >> [] i = 2 -> Rep(1, 127) [] i = 3 -> Rep(254, 128)
             [] i = 4 -> Rep(127, 126) [] i = 5 -> << >> [] OTHER -> << 10, 13 >>

None    == [null |-> TRUE, val |-> << >>]
Some(x) == [null |-> FALSE, val |-> x]

RECURSIVE GenStruct(_, _, _, _, _), GenField(_, _, _, _, _), GenElem(_, _, _, _, _, _)

\* one element of type f (scalar or struct); nl: the null choice is available; mode "rt" (round trip) or "dec" (decode only)
GenElem(f, v, r, c, mode, nl) ==
    LET i == Idx(r, c) IN
    CASE f.t = "bool"    -> Some(i % 2 = 1)
      [] f.t = "int8"    -> Some(P8[(i % 6) + 1])
      [] f.t = "int16"   -> Some(P16[(i % 6) + 1])
      [] f.t = "uint16"  -> Some(PU16[(i % 5) + 1])
      [] f.t = "int32"   -> Some(P32[(i % 6) + 1])
      [] f.t = "int64"   -> Some(P64[(i % 6) + 1])
      [] f.t = "float64" -> Some(PF64[(i % 6) + 1])
      [] f.t = "uuid"    -> Some(PUU[(i % 3) + 1])
      \* a Go string cannot tell null from "": where the field is nullable the round-trip vectors use null and
      \* non-empty strings, "" is decode-only; where it is not nullable "" is a round-trip value
      [] f.t = "string"  -> IF nl THEN (IF i = 6 THEN None ELSE IF i = 5 /\ mode = "dec" THEN Some(<< >>) ELSE Some(PStr(i)))
                                  ELSE Some(PStr(IF i = 5 THEN 6 ELSE i))
      [] f.t = "bytes"   -> IF nl /\ i = 6 THEN None ELSE Some(PByt(i))
      [] f.t = "records" -> IF nl /\ mode = "dec" /\ i % 2 = 1 THEN None ELSE Some(<< >>)
      [] OTHER           -> Some(GenStruct(f.fields, v, (r + 8 * c + 1) % 49, c + 3, mode))

GenField(f, v, r, c, mode) ==
    LET nl == Nullable(f, v) IN
    IF f.arr
    THEN LET i == Idx(r, c)  k == i % (IF nl THEN 4 ELSE 3)  n == IF k = 0 THEN 1 ELSE IF k = 1 THEN 2 ELSE 0 IN
         IF k = 3 THEN None
         ELSE Some([j \in 1..n |-> GenElem(f, v, (3 * r + 11 * j + c) % 49, c + j, mode, FALSE).val])
    ELSE GenElem(f, v, r, c, mode, nl)

\* tagged fields: never sent in round-trip vectors (kafka-go declares none); in decode-only vectors sent for some rows
GenStruct(fields, v, r, salt, mode) ==
    LET act   == SelectSeq(fields, LAMBDA f: Active(f, v) /\ (~Tagged(f, v) \/ (mode = "dec" /\ Idx(r, salt + 5) % 2 = 0)))
        picks == [i \in 1..Len(act) |-> GenField(act[i], v, r, salt + i - 1, mode)]
        keep  == {i \in 1..Len(act) : ~picks[i].null}
    IN  [n \in {act[i].name : i \in keep} |-> picks[CHOOSE i \in keep : act[i].name = n].val]

\* the "rich" value used as the well-formed base frame of WireFuzz: every array has two elements (a decoder's state after a bad element meets a next element), every string /
\* bytes field is present with one or two bytes, so that every length field of the message occurs in the frame
RECURSIVE RichStruct(_, _, _), RichElem(_, _, _)
RichElem(f, v, recs) ==
    CASE f.t = "bool" -> TRUE [] f.t = "int8" -> 1 [] f.t = "int16" -> 0 [] f.t = "uint16" -> 1 [] f.t = "int32" -> 3
      [] f.t = "int64" -> <<0, 0, 0, 0, 0, 0, 0, 5>> [] f.t = "float64" -> <<63, 240, 0, 0, 0, 0, 0, 0>>
      [] f.t = "uuid" -> Rep(1, 16) [] f.t = "string" -> << 116, 112 >> [] f.t = "bytes" -> << 1, 2, 3 >>
      [] f.t = "records" -> recs
      [] OTHER -> RichStruct(f.fields, v, recs)
RichStruct(fields, v, recs) ==
    LET act == SelectSeq(fields, LAMBDA f: Active(f, v)) IN
    [n \in {act[i].name : i \in 1..Len(act)} |->
        LET f == act[CHOOSE i \in 1..Len(act) : act[i].name = n] IN
        IF f.arr THEN << RichElem(f, v, recs), RichElem(f, v, recs) >> ELSE RichElem(f, v, recs)]
=============================================================================
