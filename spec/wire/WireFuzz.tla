------------------------------ MODULE WireFuzz ------------------------------
(***************************************************************************)
(* C20: hostile length fields.  The model of a SAFE decoder (SafeDecode):  *)
(* the decoder carries `remain`, the number of bytes of the frame not yet  *)
(* read; every length or count L read from the wire must satisfy           *)
(*     lb <= L   (lb = -1 where null is legal, else 0)   and               *)
(*     L > 0  =>  L * minElemSize <= remain                                *)
(* otherwise the outcome is Error; the only outcomes are Error and Decoded,*)
(* and the memory allocated while decoding is bounded by a linear function *)
(* of the number of bytes received (AllocBound).                           *)
(*                                                                         *)
(* The enumeration: for one well-formed frame of every response type and   *)
(* version (Wire!RichStruct: every array one element, every string/bytes   *)
(* present, unknown tagged fields in every tag section of flexible         *)
(* versions), every length/count token of the layout map (fieldKind) and   *)
(* every valueClass is instantiated: the frame is re-encoded by Wire.tla   *)
(* with exactly that token's bytes replaced (enclosing sizes and the frame *)
(* size follow the actual bytes, so nothing else is malformed).            *)
(* The judgement (Judge): panic, fatal (process death), hang (time-out) or *)
(* allocation above AllocBound is a violation; Error or Decoded within the *)
(* bound is accepted.  The model's own answer for the mutated frame (the   *)
(* reference decoder WireDecode!DecodeResponse: Error / Decoded) is        *)
(* reported next to it: "exact" must decode; a real decoder that accepts a *)
(* frame the model rejects is lenient, not unsafe.                         *)
(***************************************************************************)
EXTENDS WireDecode

Kinds16   == {"string-len"}
Kinds32   == {"bytes-len", "array-count", "record-set-size", "frame-size", "batch-length", "message-size", "record-count",
              "message-key-length", "message-value-length"}
KindsUvB  == {"compact-string-len", "compact-bytes-len", "compact-array-count", "compact-record-set-size"}   \* stored = length + 1
KindsUv   == {"tagged-count", "tagged-size"}                                                                  \* stored = value
KindsVar  == {"record-length", "key-length", "value-length", "header-count", "header-key-length", "header-value-length"}  \* zig-zag varint
LenKinds  == Kinds16 \cup Kinds32 \cup KindsUvB \cup KindsUv \cup KindsVar

Classes == << "min", "-2", "-1", "0", "exact-1", "exact", "exact+1", "exact+7", "exact+40", "remain+1", "2^20", "max",
              "uvarint-2^31", "uvarint-2^32", "uvarint-2^63", "uvarint-2^64-1", "varint-11-bytes", "varint-unterminated" >>

\* explicit encodings of the values TLC's 32-bit integers cannot hold
UV_2p31m1 == <<255, 255, 255, 255, 7>>
UV_2p31   == <<128, 128, 128, 128, 8>>
UV_2p32   == <<128, 128, 128, 128, 16>>
UV_2p63   == <<128, 128, 128, 128, 128, 128, 128, 128, 128, 1>>
UV_2p64m1 == <<255, 255, 255, 255, 255, 255, 255, 255, 255, 1>>
UV_11     == <<128, 128, 128, 128, 128, 128, 128, 128, 128, 128, 1>>
UV_open   == <<128, 128, 128, 128, 128, 128, 128, 128, 128, 128, 128, 128>>
ZZ_max32  == <<254, 255, 255, 255, 15>>            \* zig-zag varint of 2^31-1
ZZ_min32  == <<255, 255, 255, 255, 15>>            \* zig-zag varint of -2^31
MinOf(k)  == IF k \in Kinds16 THEN -32768 ELSE -2147483647 - 1
MaxOf(k)  == IF k \in Kinds16 THEN 32767 ELSE 2147483647

NA == [ok |-> FALSE, b |-> << >>, big |-> FALSE, L |-> 0]
Num(k, L) ==   \* the bytes of logical value L in the encoding of kind k, when representable with TLC integers
    IF k \in Kinds16 THEN (IF L < -32768 \/ L > 32767 THEN NA ELSE [ok |-> TRUE, b |-> Int16(L), big |-> FALSE, L |-> L])
    ELSE IF k \in Kinds32 THEN [ok |-> TRUE, b |-> Int32(L), big |-> FALSE, L |-> L]
    ELSE IF k \in KindsUvB THEN (IF L < -1 \/ L > 2147483645 THEN NA ELSE [ok |-> TRUE, b |-> UVarint(L + 1), big |-> FALSE, L |-> L])
    ELSE IF k \in KindsUv THEN (IF L < 0 THEN NA ELSE [ok |-> TRUE, b |-> UVarint(L), big |-> FALSE, L |-> L])
    ELSE (IF L < -1073741823 \/ L > 1073741823 THEN NA ELSE [ok |-> TRUE, b |-> Varint(L), big |-> FALSE, L |-> L])
Big(b) == [ok |-> TRUE, b |-> b, big |-> TRUE, L |-> 0]

\* bytes to put for (kind k, class c) at a position whose well-formed value is x with r bytes of the frame after it
ClassBytes(k, c, x, r) ==
    CASE c = "min"      -> IF k \in Kinds16 \cup Kinds32 THEN Num(k, MinOf(k)) ELSE IF k \in KindsVar THEN Big(ZZ_min32) ELSE NA
      [] c = "-2"       -> Num(k, -2)
      [] c = "-1"       -> Num(k, -1)
      [] c = "0"        -> Num(k, 0)
      [] c = "exact-1"  -> Num(k, x - 1)
      [] c = "exact"    -> Num(k, x)
      [] c = "exact+1"  -> Num(k, x + 1)
      [] c = "exact+7"  -> Num(k, x + 7)        \* past the enclosing element, still inside the enclosing set / frame
      [] c = "exact+40" -> Num(k, x + 40)
      [] c = "remain+1" -> Num(k, r + 1)
      [] c = "2^20"     -> Num(k, 1048576)
      [] c = "max"      -> IF k \in Kinds16 \cup Kinds32 THEN Num(k, MaxOf(k))
                           ELSE IF k \in KindsUvB THEN Big(UV_2p31) ELSE IF k \in KindsUv THEN Big(UV_2p31m1) ELSE Big(ZZ_max32)
      [] c = "uvarint-2^31"        -> IF k \in KindsUv THEN Big(UV_2p31) ELSE NA
      [] c = "uvarint-2^32"        -> IF k \in KindsUvB \cup KindsUv \cup KindsVar THEN Big(UV_2p32) ELSE NA
      [] c = "uvarint-2^63"        -> IF k \in KindsUvB \cup KindsUv \cup KindsVar THEN Big(UV_2p63) ELSE NA
      [] c = "uvarint-2^64-1"      -> IF k \in KindsUvB \cup KindsUv \cup KindsVar THEN Big(UV_2p64m1) ELSE NA
      [] c = "varint-11-bytes"     -> IF k \in KindsUvB \cup KindsUv \cup KindsVar THEN Big(UV_11) ELSE NA
      [] c = "varint-unterminated" -> IF k \in KindsUvB \cup KindsUv \cup KindsVar THEN Big(UV_open) ELSE NA

(* ---------------- the SafeDecode rule ---------------- *)
SafeLen(L, lb, me, remain) == lb <= L /\ (L <= 0 \/ L <= remain \div (IF me < 1 THEN 1 ELSE me))
\* what a safe decoder answers for the frame in which one length holds L instead of x: every "big" class exceeds any frame
SafeOutcome(cb, x, lb, me, remain) ==
    IF cb.big THEN "Error"
    ELSE IF ~SafeLen(cb.L, lb, me, remain) THEN "Error"
    ELSE IF cb.L = x THEN "Decoded" ELSE "Either"
AllocBound(received) == 64 * received + 524288
\* the model's answer for a mutated frame: the reference decoder WireDecode!DecodeResponse run on it (Error / Decoded);
\* record sets are opaque to it (record encoding is property C05), so for a length INSIDE a record set the per-field
\* rule is applied to the mutated field alone (Error / Decoded / Either: the rest of the batch decides)
InRecords(k) == k \in KindsVar \cup {"batch-length", "message-size", "record-count", "message-key-length", "message-value-length"}
ModelOutcome(m, v, e, cb, r, fr) ==
    IF InRecords(e.k) THEN SafeOutcome(cb, e.x, e.lb, e.me, r)
    ELSE IF DecodeResponse(m, v, fr).ok THEN "Decoded" ELSE "Error"

(* ---------------- enumeration ---------------- *)
BaseValue(m, v, recs) == RichStruct(m.fields, v, recs)
BaseOpt(m, v, mut)    == [inject |-> Flexible(m, v), mut |-> mut]
BaseFrame(m, v, recs, mut) == ResponseFrame(m, v, 7, BaseValue(m, v, recs), BaseOpt(m, v, mut))

\* where the checksums of record batches / messages are and what they cover (the harness fills them in)
Crcs(ts) ==
    LET lay == Layout(ts)
        ix  == SelectSeq([j \in 1..Len(lay) |-> j], LAMBDA j: lay[j].k \in {"crc32c", "crc32"})
    IN  [n \in 1..Len(ix) |-> LET j == ix[n]  l == j + lay[j].span IN
            [kind |-> lay[j].k, at |-> lay[j].off, from |-> lay[j].off + 4, to |-> lay[l].off + lay[l].len]]

CasesAt(m, v, recs, rn, e, total) ==
    LET r   == total - (e.off + e.len)
        cbs == [c \in 1..Len(Classes) |-> ClassBytes(e.k, Classes[c], e.x, r)]
        ok  == SelectSeq([c \in 1..Len(Classes) |-> c], LAMBDA c: cbs[c].ok)
    IN  [j \in 1..Len(ok) |->
           LET c == ok[j]
               ts == BaseFrame(m, v, recs, [k |-> e.k, p |-> e.p, b |-> cbs[c].b])
               fr == Bytes(ts)
           IN  [id |-> m.name \o "/v" \o ToString(v) \o (IF rn = "" THEN "" ELSE "+" \o rn) \o "/" \o e.p \o "/" \o e.k \o "/" \o Classes[c],
                api |-> m.api, apiKey |-> m.apiKey, v |-> v, recs |-> rn, kind |-> e.k, class |-> Classes[c], path |-> e.p,
                exact |-> e.x, remain |-> r, lb |-> e.lb, me |-> e.me, put |-> cbs[c].b,
                expect |-> ModelOutcome(m, v, e, cbs[c], r, fr), frame |-> fr, received |-> Len(fr), crcs |-> Crcs(ts)]]

CasesOf(m, v, recs, rn) ==
    LET lay   == Layout(BaseFrame(m, v, recs, NoMut))
        total == lay[Len(lay)].off + lay[Len(lay)].len
        pos   == SelectSeq(lay, LAMBDA e: e.k \in LenKinds)
    IN  Concat([j \in 1..Len(pos) |-> CasesAt(m, v, recs, rn, pos[j], total)])

(* ---------------- judgement of one outcome line of the real decoder ---------------- *)
\* res.outcome: "decoded" | "error" | "panic" | "fatal" (the process died) | "hang" (no outcome within the time limit);
\* res.alloc: bytes allocated while decoding (capped at 2^31-1)
Judge(case, res) ==
    IF res.outcome \in {"panic", "fatal", "hang"} THEN res.outcome
    ELSE IF res.outcome \notin {"decoded", "error"} THEN "fatal"
    ELSE IF res.alloc > AllocBound(case.received) THEN "alloc"
    ELSE "ok"
=============================================================================
