INIT Init
NEXT Next
POSTCONDITION AllAccepted
CHECK_DEADLOCK FALSE
