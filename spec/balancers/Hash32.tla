------------------------------- MODULE Hash32 -------------------------------
(***************************************************************************)
(* 32-bit hash functions used by the reference partitioners, written from  *)
(* the algorithm definitions (FNV-1a: Fowler/Noll/Vo; CRC-32: IEEE 802.3,  *)
(* reflected polynomial 0xEDB88320; MurmurHash2: A. Appleby, in the        *)
(* byte-order independent form used by Kafka's Java client with seed       *)
(* 0x9747b28c).  Nothing here is taken from kafka-go's balancer.go.        *)
(*                                                                         *)
(* TLC integers are 32-bit signed, so a 32-bit word is the pair            *)
(* <<hi, lo>> of its 16-bit halves (each 0..65535).  Keys are sequences of *)
(* bytes 0..255.  The ASSUMEs at the end pin the definitions to published  *)
(* test vectors; TLC evaluates them at start-up of every run.              *)
(***************************************************************************)
EXTENDS Integers, Sequences, SequencesExt, Bitwise, TLC

B16 == 65536

W32(hi, lo) == <<hi, lo>>
IsW32(w) == /\ w[1] \in 0..65535 /\ w[2] \in 0..65535

Xor32(a, b) == <<a[1] ^^ b[1], a[2] ^^ b[2]>>
And32(a, b) == <<a[1] & b[1], a[2] & b[2]>>

\* a + b mod 2^32
Add32(a, b) ==
  LET lo == a[2] + b[2]
  IN  <<(a[1] + b[1] + (lo \div B16)) % B16, lo % B16>>

\* logical shift right by k, 0 <= k <= 31
Shr32(a, k) ==
  IF k = 0 THEN a
  ELSE IF k >= 16 THEN <<0, a[1] \div (2 ^ (k - 16))>>
  ELSE <<a[1] \div (2 ^ k), (a[1] % (2 ^ k)) * (2 ^ (16 - k)) + (a[2] \div (2 ^ k))>>

\* shift left by k mod 2^32, 0 <= k <= 31
Shl32(a, k) ==
  IF k = 0 THEN a
  ELSE IF k >= 16 THEN <<(a[2] % (2 ^ (32 - k))) * (2 ^ (k - 16)), 0>>
  ELSE <<(a[1] % (2 ^ (16 - k))) * (2 ^ k) + (a[2] \div (2 ^ (16 - k))), (a[2] % (2 ^ (16 - k))) * (2 ^ k)>>

\* a * c mod 2^32 for a small factor 0 <= c <= 255 (all intermediate values < 2^31)
MulSmall(a, c) ==
  LET lo == a[2] * c
  IN  <<(a[1] * c + (lo \div B16)) % B16, lo % B16>>

\* a * c mod 2^32 for 0 <= c <= 65535, by the two bytes of c
Mul16(a, c) == Add32(MulSmall(a, c % 256), Shl32(MulSmall(a, c \div 256), 8))

\* a * b mod 2^32:  a*b = a*b.lo + (a*b.hi) * 2^16
Mul32(a, b) == Add32(Mul16(a, b[2]), <<Mul16(a, b[1])[2], 0>>)

Byte32(b) == <<0, b>>

\* the 32-bit word as a signed two's complement integer (fits a TLC integer)
ToInt32(w) == IF w[1] >= 32768 THEN (w[1] - B16) * B16 + w[2] ELSE w[1] * B16 + w[2]
\* a signed integer in -2^31 .. 2^31-1 as a word
FromInt32(i) == IF i >= 0 THEN <<i \div B16, i % B16>> ELSE <<(i \div B16) + B16, i % B16>>

-----------------------------------------------------------------------------
(* FNV-1a, 32 bit:  h := offset basis; for each octet: h := (h XOR octet) * prime *)
FnvOffset == W32(33052, 40389)   \* 0x811C9DC5
FnvPrime  == W32(256, 403)       \* 0x01000193

FnvStep(h, octet) == Mul32(Xor32(h, Byte32(octet)), FnvPrime)
Fnv1a(key) == FoldLeft(FnvStep, FnvOffset, key)

-----------------------------------------------------------------------------
(* CRC-32 (IEEE 802.3): reflected, polynomial 0xEDB88320, initial value and *)
(* final XOR 0xFFFFFFFF.  The byte table is derived from the bitwise        *)
(* definition (8 conditional shift/XOR steps per byte).                     *)
CrcPoly == W32(60856, 33568)     \* 0xEDB88320
AllOnes == W32(65535, 65535)

RECURSIVE CrcBits(_, _)
CrcBits(c, k) ==
  IF k = 0 THEN c
  ELSE CrcBits(IF c[2] % 2 = 1 THEN Xor32(Shr32(c, 1), CrcPoly) ELSE Shr32(c, 1), k - 1)

CrcTable == TLCEval([b \in 0..255 |-> CrcBits(Byte32(b), 8)])

CrcStep(c, octet) == Xor32(CrcTable[(c[2] ^^ octet) % 256], Shr32(c, 8))
Crc32IEEE(key) == Xor32(FoldLeft(CrcStep, AllOnes, key), AllOnes)

\* the same without the table, used to cross-check the table-driven form
CrcSlowStep(c, octet) == CrcBits(Xor32(c, Byte32(octet)), 8)
Crc32Bitwise(key) == Xor32(FoldLeft(CrcSlowStep, AllOnes, key), AllOnes)

-----------------------------------------------------------------------------
(* MurmurHash2, 32 bit, as used by the Kafka Java client (Utils.murmur2):   *)
(* seed 0x9747b28c, m = 0x5bd1e995, r = 24, 4-byte blocks read little-endian*)
(* from unsigned bytes, all shifts logical (Java >>>), arithmetic mod 2^32. *)
MurmurSeed == W32(38727, 45708)  \* 0x9747b28c
MurmurM    == W32(23505, 59797)  \* 0x5bd1e995

\* little-endian word of the 4 bytes key[i..i+3]
LE32(key, i) == <<key[i + 3] * 256 + key[i + 2], key[i + 1] * 256 + key[i]>>

MixK(k0) ==
  LET k1 == Mul32(k0, MurmurM)
      k2 == Xor32(k1, Shr32(k1, 24))
  IN  Mul32(k2, MurmurM)

\* h after the whole 4-byte blocks: h := (h * m) XOR mix(block), block by block
MurmurBlocks(key, h0) ==
  FoldLeft(LAMBDA h, j : Xor32(Mul32(h, MurmurM), MixK(LE32(key, 4 * j - 3))),
           h0, [j \in 1..(Len(key) \div 4) |-> j])

MurmurTail(key, h) ==
  LET len == Len(key)
      t   == len - (len % 4)        \* number of bytes consumed by whole blocks
      e   == len % 4
      h3  == IF e >= 3 THEN Xor32(h, <<key[t + 3], 0>>) ELSE h            \* byte << 16
      h2  == IF e >= 2 THEN Xor32(h3, <<0, key[t + 2] * 256>>) ELSE h3    \* byte << 8
  IN  IF e >= 1 THEN Mul32(Xor32(h2, Byte32(key[t + 1])), MurmurM) ELSE h2

Avalanche(h0) ==
  LET h1 == Xor32(h0, Shr32(h0, 13))
      h2 == Mul32(h1, MurmurM)
  IN  Xor32(h2, Shr32(h2, 15))

\* Len(key) < 2^16 assumed (keys in the checks are at most a few hundred bytes)
Murmur2(key) ==
  Avalanche(MurmurTail(key, MurmurBlocks(key, Xor32(MurmurSeed, <<0, Len(key)>>))))

-----------------------------------------------------------------------------
(* Anchors.  Ascii(s) cannot be computed in TLA+ (strings are atomic), so   *)
(* the vectors are written as byte sequences; the string is in the comment. *)
K_a       == <<97>>                                      \* "a"
K_b       == <<98>>                                      \* "b"
K_abc     == <<97, 98, 99>>                              \* "abc"
K_foobar  == <<102, 111, 111, 98, 97, 114>>              \* "foobar"
K_21      == <<50, 49>>                                  \* "21"
K_digits  == <<49, 50, 51, 52, 53, 54, 55, 56, 57>>      \* "123456789"
K_chongo  == <<99, 104, 111, 110, 103, 111, 32, 119, 97, 115, 32, 104, 101, 114, 101, 33, 10>>  \* "chongo was here!\n"
K_fox     == <<84, 104, 101, 32, 113, 117, 105, 99, 107, 32, 98, 114, 111, 119, 110, 32, 102, 111, 120, 32,
               106, 117, 109, 112, 115, 32, 111, 118, 101, 114, 32, 116, 104, 101, 32, 108, 97, 122, 121, 32,
               100, 111, 103>>                           \* "The quick brown fox jumps over the lazy dog"
K_long    == <<97, 45, 108, 105, 116, 116, 108, 101, 45, 98, 105, 116, 45, 108, 111, 110, 103, 45, 115, 116,
               114, 105, 110, 103>>                      \* "a-little-bit-long-string"
K_longer  == <<97, 45, 108, 105, 116, 116, 108, 101, 45, 98, 105, 116, 45, 108, 111, 110, 103, 101, 114, 45,
               115, 116, 114, 105, 110, 103>>            \* "a-little-bit-longer-string"
K_lkjh    == <<108, 107, 106, 104, 50, 51, 52, 108, 104, 57, 102, 105, 117, 104, 57, 48, 121, 50, 51, 111,
               105, 117, 104, 115, 97, 102, 117, 106, 104, 97, 100, 111, 102, 50, 50, 57, 112, 104, 114, 57,
               104, 49, 57, 104, 56, 57, 104, 56>>       \* "lkjh234lh9fiuh90y23oiuhsafujhadof229phr9h19h89h8"

\* arithmetic self-checks (corner values of the limb arithmetic)
ASSUME Arith ==
  /\ Mul32(AllOnes, AllOnes) = W32(0, 1)
  /\ Mul32(W32(32768, 0), W32(0, 3)) = W32(32768, 0)
  /\ Mul32(W32(4660, 22136), W32(39612, 57072)) = W32(9261, 8320)   \* 0x12345678 * 0x9ABCDEF0 = 0x..242D2080
  /\ Add32(AllOnes, W32(0, 1)) = W32(0, 0)
  /\ Shr32(W32(32768, 1), 1) = W32(16384, 0) /\ Shr32(W32(32768, 1), 31) = W32(0, 1)
  /\ Shr32(W32(43981, 4660), 16) = W32(0, 43981) /\ Shr32(W32(43981, 4660), 24) = W32(0, 171)
  /\ Shr32(W32(43981, 4660), 13) = W32(5, 24168)                    \* 0xABCD1234 >> 13 = 0x55E68
  /\ Shl32(W32(43981, 4660), 8) = W32(52498, 13312) /\ Shl32(W32(1, 32769), 31) = W32(32768, 0)
  /\ ToInt32(W32(32768, 0)) = -2147483647 - 1 /\ ToInt32(AllOnes) = -1 /\ ToInt32(W32(32767, 65535)) = 2147483647
  /\ \A w \in {W32(32768, 0), AllOnes, W32(0, 0), W32(32767, 65535), W32(50688, 7)} : FromInt32(ToInt32(w)) = w

\* FNV-1a 32 (vectors of the reference distribution, test_fnv.c)
ASSUME FnvVectors ==
  /\ Fnv1a(<<>>) = W32(33052, 40389)        \* 0x811C9DC5
  /\ Fnv1a(K_a) = W32(58380, 10540)         \* 0xE40C292C
  /\ Fnv1a(K_b) = W32(59148, 11749)         \* 0xE70C2DE5
  /\ Fnv1a(K_foobar) = W32(49052, 63848)    \* 0xBF9CF968
  /\ Fnv1a(K_chongo) = W32(54425, 12501)    \* 0xD49930D5

\* CRC-32 (check value of the catalogue of parametrised CRC algorithms and common vectors)
ASSUME CrcVectors ==
  /\ Crc32IEEE(<<>>) = W32(0, 0)
  /\ Crc32IEEE(K_digits) = W32(52212, 14630)  \* 0xCBF43926
  /\ Crc32IEEE(K_a) = W32(59575, 48707)       \* 0xE8B7BE43
  /\ Crc32IEEE(K_abc) = W32(13604, 16834)     \* 0x352441C2
  /\ Crc32IEEE(K_fox) = W32(16719, 41785)     \* 0x414FA339
  /\ LET ks == << <<>>, K_digits, K_fox, <<0>>, <<255, 255, 255, 255>>, <<128, 0, 255>>, K_lkjh >>
     IN  \A i \in 1..Len(ks) : Crc32Bitwise(ks[i]) = Crc32IEEE(ks[i])

\* Kafka's UtilsTest.testMurmur2 vectors (signed Java ints)
ASSUME MurmurVectors ==
  /\ ToInt32(Murmur2(K_21)) = -973932308
  /\ ToInt32(Murmur2(K_foobar)) = -790332482
  /\ ToInt32(Murmur2(K_long)) = -985981536
  /\ ToInt32(Murmur2(K_longer)) = -1486304829
  /\ ToInt32(Murmur2(K_lkjh)) = -58897971
  /\ ToInt32(Murmur2(K_abc)) = 479470107
=============================================================================
