----------------------------- MODULE HistCheck -----------------------------
(***************************************************************************)
(* Judge for RoundRobin and LeastBytes call histories recorded from ONE    *)
(* real balancer value used by 1..8 goroutines (vh balancers -mode         *)
(* histories).  File HISTORIES: one JSON object per line                   *)
(*   [id, b ("rr" | "lb"), chunk, calls: sequence of                       *)
(*      [t, inv, ret, n, size, out]]                                       *)
(* TLC searches, history after history, for a linearisation: an order of   *)
(* the calls that respects real time (a call that returned before another  *)
(* was invoked comes first) in which the sequential model of Balancers.tla *)
(* allows every result.  A state is (h, done, s): history number, set of   *)
(* calls linearised so far, LeastBytes account.  When all calls of history *)
(* h are linearised the search moves on to h + 1; the search gets past the *)
(* last history iff every history is explainable, which the postcondition  *)
(* reads off the depth of the search (all paths through a history have the *)
(* same length).                                                           *)
(***************************************************************************)
EXTENDS Balancers, Json, IOUtils

Hs == ndJsonDeserialize(IOEnv.HISTORIES)

VARIABLES h, done, s
vars == <<h, done, s>>

Init == h = 1 /\ done = {} /\ s = LBInit

Linearise(H, c) ==
  /\ IF Hs[h].b = "rr"
       THEN RRCanLinearise(H, Hs[h].chunk, done, c) /\ s' = s
       ELSE LBCanLinearise(H, s, done, c) /\ s' = LBAfter(s, H[c].n, H[c].out, H[c].size)
  /\ done' = done \cup {c}
  /\ h' = h

Next ==
  /\ h <= Len(Hs)
  /\ LET H == Hs[h].calls IN
       \/ done = Calls(H) /\ h' = h + 1 /\ done' = {} /\ s' = LBInit
       \/ \E c \in Calls(H) \ done : Linearise(H, c)

Spec == Init /\ [][Next]_vars

\* judged when the search enters a history
Entering == h <= Len(Hs) /\ done = {}

WellFormed ==
  Entering =>
    LET H == Hs[h].calls IN
    /\ Hs[h].b \in {"rr", "lb"}
    /\ \A c \in Calls(H) : H[c].inv < H[c].ret /\ H[c].n \in 1..MaxPartitions /\ H[c].size >= 0

\* every result is one of the partitions offered
ResultsOffered ==
  Entering => LET H == Hs[h].calls IN \A c \in Calls(H) : H[c].out \in Offered(H[c].n)

\* RoundRobin with a constant partition list: the results are, as a multiset, the results
\* for the counter values 0..N-1
RRMultiset ==
  (Entering /\ Hs[h].b = "rr") =>
     LET H == Hs[h].calls IN (\A c \in Calls(H) : H[c].n = H[1].n) => RRMultisetOk(H, Hs[h].chunk)

\* Starts[k] = depth at which history k is entered (the initial state has depth 1);
\* Starts[Len(Hs) + 1] = depth of the state after the last history
Starts == FoldLeft(LAMBDA acc, x : Append(acc, acc[Len(acc)] + Len(x.calls) + 1), <<1>>, Hs)

AllExplained ==
  LET d  == TLCGet("stats").diameter
      st == Starts
  IN  \/ d = st[Len(Hs) + 1]
      \/ LET stuck == CHOOSE k \in 1..Len(Hs) : st[k] <= d /\ d < st[k + 1]
         IN  ~PrintT(<<"UNEXPLAINED", stuck, Hs[stuck].id>>)
=============================================================================
