SPECIFICATION Spec
CONSTANTS
  Kind = "rr"
  Threads = {1}
  MaxCalls = 20
  Chunks = {0, 1, 2, 3}
  Ns = {1, 2, 3, 4}
  Sizes = {0}
  NChange = FALSE
INVARIANTS Offered_Inv RR_Runs RR_Even Judge_Accepts
CHECK_DEADLOCK FALSE
