----------------------------- MODULE HashCheck -----------------------------
(***************************************************************************)
(* Judge for the key-hashing balancers.  The file named by the environment *)
(* variable VECTORS has one JSON object per line, written by the Go driver *)
(* (vh balancers -mode vectors) from calls of the REAL kafka.Hash,         *)
(* ReferenceHash, CRC32Balancer and Murmur2Balancer:                       *)
(*   [b, consistent, isnil, key (bytes), ns (partition counts), out        *)
(*    (result of Balance(msg, 0..n-1) for every n in ns)]                  *)
(* State i judges line i: every result must be in the set Balancers.tla    *)
(* allows (one value, or any offered partition where the reference         *)
(* partitioner is random).  Every disagreement is printed                  *)
(*   <<"MISMATCH", line, index in ns, n, got, expected or -1 for "any">>   *)
(* and counted; AllMatch fails in the last state if there was one.         *)
(***************************************************************************)
EXTENDS Balancers, Json, IOUtils

Lines == ndJsonDeserialize(IOEnv.VECTORS)

VARIABLES i, nbad

Expected(S) == IF Cardinality(S) = 1 THEN CHOOSE x \in S : TRUE ELSE -1

BadIn(l, h) ==
  {j \in 1..Len(l.ns) : l.out[j] \notin AllowedOf(l.b, l.consistent, l.isnil, Len(l.key), h, l.ns[j])}

Report(l, idx, h, bad) ==
  \A j \in bad :
     PrintT(<<"MISMATCH", idx, j, l.ns[j], l.out[j],
              Expected(AllowedOf(l.b, l.consistent, l.isnil, Len(l.key), h, l.ns[j]))>>)

WellFormed(l) ==
  /\ l.b \in {"hash", "refhash", "crc32", "murmur2"}
  /\ Len(l.out) = Len(l.ns)
  /\ l.isnil => Len(l.key) = 0
  /\ \A j \in 1..Len(l.ns) : l.ns[j] \in 1..MaxPartitions
  /\ \A j \in 1..Len(l.key) : l.key[j] \in 0..255

BadCount(idx) ==
  LET l   == Lines[idx]
      h   == TLCEval(HashFor(l.b, l.key))
      bad == BadIn(l, h)
  IN  IF bad = {} THEN 0
      ELSE IF Report(l, idx, h, bad) THEN Cardinality(bad) ELSE Cardinality(bad)

Init == i = 1 /\ nbad = 0
Next ==
  /\ i <= Len(Lines)
  /\ i' = i + 1
  /\ nbad' = nbad + BadCount(i)
Spec == Init /\ [][Next]_<<i, nbad>>

InputOk == i <= Len(Lines) => WellFormed(Lines[i])
AllMatch == i = Len(Lines) + 1 => nbad = 0
=============================================================================
