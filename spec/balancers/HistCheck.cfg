SPECIFICATION Spec
INVARIANTS WellFormed ResultsOffered RRMultiset
POSTCONDITION AllExplained
CHECK_DEADLOCK FALSE
