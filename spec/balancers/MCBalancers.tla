---------------------------- MODULE MCBalancers ----------------------------
(***************************************************************************)
(* Model checking of the state machines of Balancers.tla under concurrent  *)
(* use: Threads call Balance on one balancer value; a call is invoked,     *)
(* takes effect atomically (the balancer's mutex) and returns; invocations *)
(* and returns are stamped by a global clock exactly like the Go driver    *)
(* does.  Checked: the invariants that express C13's sentences about       *)
(* RoundRobin and LeastBytes on the order of effects, and that every       *)
(* history the model can produce is accepted by the linearisation          *)
(* predicates which judge the histories of the real balancers (so the      *)
(* judge has no false alarms with respect to the model).                   *)
(* Kind = "rr" | "lb" selects the machine (two configurations).            *)
(***************************************************************************)
EXTENDS Balancers

CONSTANTS Kind,        \* "rr" or "lb"
          Threads,     \* set of thread ids
          MaxCalls,    \* total number of calls
          Chunks,      \* RoundRobin: set of ChunkSize values
          Ns,          \* set of partition counts
          Sizes,       \* LeastBytes: set of message sizes
          NChange      \* LeastBytes: TRUE when the partition count may differ from call to call

VARIABLES cfg,      \* [chunk, n]: configuration chosen initially (n used when ~NChange)
          clock,    \* global stamp counter
          pc,       \* thread -> "idle" | "called" | "done"
          cur,      \* thread -> the call in progress
          counter,  \* RoundRobin state
          lb,       \* LeastBytes state
          eff,      \* calls in the order they took effect: [n, size, out]
          H         \* completed calls in order of return

vars == <<cfg, clock, pc, cur, counter, lb, eff, H>>

NoCall == [inv |-> 0, n |-> 0, size |-> 0, out |-> 0]

Init ==
  /\ cfg \in [chunk : Chunks, n : Ns]
  /\ clock = 0 /\ counter = 0 /\ lb = LBInit /\ eff = <<>> /\ H = <<>>
  /\ pc = [t \in Threads |-> "idle"]
  /\ cur = [t \in Threads |-> NoCall]

Started == Len(eff) + Cardinality({t \in Threads : pc[t] = "called"})

Invoke(t) ==
  /\ pc[t] = "idle" /\ Started < MaxCalls
  /\ \E n \in (IF NChange THEN Ns ELSE {cfg.n}), sz \in (IF Kind = "lb" THEN Sizes ELSE {0}) :
        cur' = [cur EXCEPT ![t] = [inv |-> clock + 1, n |-> n, size |-> sz, out |-> 0]]
  /\ clock' = clock + 1
  /\ pc' = [pc EXCEPT ![t] = "called"]
  /\ UNCHANGED <<cfg, counter, lb, eff, H>>

Effect(t) ==
  /\ pc[t] = "called"
  /\ LET c == cur[t] IN
     \E p \in (IF Kind = "rr" THEN {RRResult(counter, cfg.chunk, c.n)} ELSE LBAllowed(lb, c.n)) :
        /\ cur' = [cur EXCEPT ![t].out = p]
        /\ eff' = Append(eff, [n |-> c.n, size |-> c.size, out |-> p])
        /\ IF Kind = "rr" THEN counter' = counter + 1 /\ lb' = lb
                          ELSE lb' = LBAfter(lb, c.n, p, c.size) /\ counter' = counter
  /\ pc' = [pc EXCEPT ![t] = "done"]
  /\ UNCHANGED <<cfg, clock, H>>

Return(t) ==
  /\ pc[t] = "done"
  /\ H' = Append(H, [t |-> t, inv |-> cur[t].inv, ret |-> clock + 1, n |-> cur[t].n,
                     size |-> cur[t].size, out |-> cur[t].out])
  /\ clock' = clock + 1
  /\ pc' = [pc EXCEPT ![t] = "idle"]
  /\ UNCHANGED <<cfg, cur, counter, lb, eff>>

Next == \E t \in Threads : Invoke(t) \/ Effect(t) \/ Return(t)
Spec == Init /\ [][Next]_vars

-----------------------------------------------------------------------------
Quiescent == \A t \in Threads : pc[t] = "idle"
C == RRChunk(cfg.chunk)

\* every result is one of the partitions offered
Offered_Inv == \A k \in 1..Len(eff) : eff[k].out \in Offered(eff[k].n)

(* RoundRobin, in the words of C13: each run of ChunkSize consecutive      *)
(* messages goes to one partition; the runs cycle through all partitions   *)
(* in order, starting with the first.                                      *)
RR_Runs ==
  Kind = "rr" =>
    \A k \in 1..Len(eff) :
       /\ k = 1 => eff[k].out = 0
       /\ (k > 1 /\ (k - 1) % C # 0) => eff[k].out = eff[k - 1].out
       /\ (k > 1 /\ (k - 1) % C = 0) => eff[k].out = (eff[k - 1].out + 1) % cfg.n

\* hence every window of ChunkSize * n consecutive messages gives each partition ChunkSize messages
RR_Even ==
  Kind = "rr" =>
    \A k \in 1..Len(eff) :
       k + C * cfg.n - 1 <= Len(eff) =>
          \A p \in Offered(cfg.n) :
             Cardinality({j \in k..(k + C * cfg.n - 1) : eff[j].out = p}) = C

(* LeastBytes, in the words of C13, with an account kept independently of  *)
(* the machine's own state: bytes routed to p since the partition list     *)
(* last changed, before the k-th effect.                                   *)
SameEpoch(k, j) == \A i \in j..k : eff[i].n = eff[k].n
RECURSIVE SumSizes(_, _)
SumSizes(S, acc) == IF S = {} THEN acc ELSE LET j == CHOOSE j \in S : TRUE IN SumSizes(S \ {j}, acc + eff[j].size)
Routed(k, p) == SumSizes({j \in 1..(k - 1) : SameEpoch(k, j) /\ eff[j].out = p}, 0)

LB_PicksFewest ==
  Kind = "lb" =>
    \A k \in 1..Len(eff) : \A q \in Offered(eff[k].n) : Routed(k, eff[k].out) <= Routed(k, q)

LB_Account ==
  (Kind = "lb" /\ Len(eff) > 0) =>
     LET k == Len(eff) IN
     \A p \in Offered(lb.n) : lb.bytes[p] = Routed(k, p) + (IF eff[k].out = p THEN eff[k].size ELSE 0)

\* a consequence: partitions never differ by more than the largest message
MaxSize == CHOOSE m \in Sizes : \A x \in Sizes : x <= m
LB_Spread ==
  Kind = "lb" => \A p, q \in DOMAIN lb.bytes : lb.bytes[p] - lb.bytes[q] <= MaxSize

\* the history judge accepts every complete history of the model
Judge_Accepts ==
  Quiescent =>
    IF Kind = "rr" THEN RRLinearisable(H, cfg.chunk) /\ (~NChange => RRMultisetOk(H, cfg.chunk))
    ELSE LBLinearisable(H)

\* the formulas return offered partitions for every hash value corner (checked once, as an ASSUME)
HashCorners == {W32(0, 0), W32(0, 1), W32(32767, 65535), W32(32768, 0), W32(32768, 1), AllOnes,
                W32(33052, 40389), W32(65535, 65534)}
ASSUME FormulasStayInRange ==
  \A h \in HashCorners : \A n \in {1, 2, 3, 5, 7, 12, 16, 31, 32, 1000, 32768} :
     /\ SaramaHashOf(h, n) \in Offered(n)
     /\ SaramaReferenceHashOf(h, n) \in Offered(n)
     /\ RdkafkaConsistentOf(h, n) \in Offered(n)
     /\ JavaDefaultOf(h, n) \in Offered(n)

\* the corner -2^31: remainder first, then negate (Sarama), versus clearing the sign bit (reference)
ASSUME MinInt32Corner ==
  /\ SaramaHashOf(W32(32768, 0), 3) = 2            \* -2147483648 rem 3 = -2
  /\ SaramaReferenceHashOf(W32(32768, 0), 3) = 0
  /\ SaramaHashOf(AllOnes, 7) = 1                  \* -1 rem 7 = -1
  /\ SaramaReferenceHashOf(AllOnes, 7) = 1         \* 2147483647 mod 7 = 1
  /\ SaramaHashOf(W32(65535, 65534), 7) = 2 /\ SaramaReferenceHashOf(W32(65535, 65534), 7) = 0
  /\ RdkafkaConsistentOf(AllOnes, 7) = 3           \* 4294967295 mod 7 = 3
  /\ RdkafkaConsistentOf(W32(32768, 0), 3) = 2     \* 2147483648 mod 3 = 2

(* Keys whose hash values are the corners of the 32-bit range (found by an  *)
(* exhaustive search over 5-byte keys; the definitions of Hash32.tla        *)
(* confirm them here).  The engine sends exactly these keys to the real     *)
(* balancers as directed vectors: int32 -2^31 (negation overflow), -1, 0,   *)
(* 2^31-1, -2^31+1.                                                         *)
ASSUME CornerKeys ==
  /\ Fnv1a(<<64, 0, 218, 76, 59>>) = W32(0, 0)
  /\ Fnv1a(<<126, 0, 89, 10, 89>>) = W32(32767, 65535)
  /\ Fnv1a(<<226, 0, 235, 108, 48>>) = W32(32768, 0)
  /\ Fnv1a(<<158, 0, 141, 9, 146>>) = W32(32768, 1)
  /\ Fnv1a(<<184, 0, 131, 36, 71>>) = AllOnes
  /\ Crc32IEEE(<<114, 0, 245, 208, 1>>) = W32(0, 0)
  /\ Crc32IEEE(<<253, 0, 17, 196, 181>>) = W32(32767, 65535)
  /\ Crc32IEEE(<<172, 0, 133, 142, 59>>) = W32(32768, 0)
  /\ Crc32IEEE(<<200, 0, 38, 32, 170>>) = W32(32768, 1)
  /\ Crc32IEEE(<<35, 0, 97, 154, 143>>) = AllOnes
  /\ Murmur2(<<43, 0, 36, 7, 246>>) = W32(0, 0)
  /\ Murmur2(<<137, 0, 125, 124, 254>>) = W32(32767, 65535)
  /\ Murmur2(<<254, 4, 6, 97, 209>>) = W32(32768, 0)
  /\ Murmur2(<<159, 0, 220, 121, 81>>) = W32(32768, 1)
  /\ Murmur2(<<142, 0, 205, 11, 164>>) = AllOnes
=============================================================================
