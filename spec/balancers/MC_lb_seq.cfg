SPECIFICATION Spec
CONSTANTS
  Kind = "lb"
  Threads = {1}
  MaxCalls = 5
  Chunks = {0}
  Ns = {1, 2, 3}
  Sizes = {0, 1, 5}
  NChange = FALSE
INVARIANTS Offered_Inv LB_PicksFewest LB_Account LB_Spread Judge_Accepts
CHECK_DEADLOCK FALSE
