----------------------------- MODULE Balancers -----------------------------
(***************************************************************************)
(* Reference semantics of kafka-go's built-in partition balancers (C13).   *)
(*                                                                         *)
(* Part 1: the partitioners of the reference clients as functions of       *)
(* (key, partition count), written from those clients' definitions:        *)
(*   Sarama  NewHashPartitioner:           p := int32(fnv1a(key)) % n ;    *)
(*                                         if p < 0 then p := -p           *)
(*   Sarama  NewReferenceHashPartitioner:  (int32(fnv1a(key)) & 0x7fffffff) % n *)
(*   librdkafka "consistent":              crc32(key) % n  (unsigned)      *)
(*   librdkafka "consistent_random":       no key or empty key => random   *)
(*   Java DefaultPartitioner / librdkafka "murmur2":                       *)
(*                                         (murmur2(key) & 0x7fffffff) % n *)
(*   "murmur2_random" / Java with null key: null key => some partition     *)
(* `%` of Go, Java and C truncates toward zero.                            *)
(* A Writer always offers the contiguous list 0..n-1, so an index into the *)
(* list and the partition id coincide.                                     *)
(*                                                                         *)
(* Part 2: RoundRobin and LeastBytes as state machines, and the predicates *)
(* used to explain recorded (possibly concurrent) call histories.          *)
(***************************************************************************)
EXTENDS Hash32, FiniteSets

Offered(n) == 0..(n - 1)

\* truncated remainder a rem n for n > 0 and any 32-bit signed a (no negation of a: -2^31 is legal)
TruncRem(a, n) ==
  IF a >= 0 THEN a % n
  ELSE LET m == a % n IN IF m = 0 THEN 0 ELSE m - n     \* the TLA+ modulus is floored

\* unsigned 32-bit word modulo n, for 0 < n <= 32768 (all intermediate values < 2^31)
UMod32(w, n) == ((((w[1] % n) * (B16 % n)) % n) + (w[2] % n)) % n

\* int32 & 0x7fffffff as a non-negative integer
ClearSign(w) == (w[1] % 32768) * B16 + w[2]

MaxPartitions == 32768

\* the partitioners on the 32-bit hash value h
SaramaHashOf(h, n) ==
  LET p == TruncRem(ToInt32(h), n) IN IF p < 0 THEN -p ELSE p
SaramaReferenceHashOf(h, n) == ClearSign(h) % n
RdkafkaConsistentOf(h, n) == UMod32(h, n)
JavaDefaultOf(h, n) == ClearSign(h) % n

SaramaHash(key, n) == SaramaHashOf(Fnv1a(key), n)
SaramaReferenceHash(key, n) == SaramaReferenceHashOf(Fnv1a(key), n)
RdkafkaConsistent(key, n) == RdkafkaConsistentOf(Crc32IEEE(key), n)
JavaDefault(key, n) == JavaDefaultOf(Murmur2(key), n)

\* the hash function each balancer is specified with
HashFor(bal, key) ==
  CASE bal \in {"hash", "refhash"} -> Fnv1a(key)
    [] bal = "crc32"   -> Crc32IEEE(key)
    [] bal = "murmur2" -> Murmur2(key)

(* The set of results the reference semantics allows, given h = HashFor(bal, key). *)
(* A nil key is given as isNil = TRUE with key = <<>>.  "Random" / "any partition" *)
(* rules are the postcondition result \in Offered(n).                              *)
(*   hash, refhash (Sarama): nil key => random partition; an empty key is hashed.  *)
(*   crc32 (librdkafka): consistent_random: unset or empty key => random;          *)
(*                       consistent: always crc32(key) % n, crc32 of no bytes = 0. *)
(*   murmur2 (Java / librdkafka): murmur2_random and Java: null key => some        *)
(*                       partition; murmur2: null key hashed as the empty key;     *)
(*                       an empty non-null key is always hashed.                   *)
AllowedOf(bal, consistent, isNil, keyLen, h, n) ==
  CASE bal = "hash"    -> IF isNil THEN Offered(n) ELSE {SaramaHashOf(h, n)}
    [] bal = "refhash" -> IF isNil THEN Offered(n) ELSE {SaramaReferenceHashOf(h, n)}
    [] bal = "crc32"   -> IF keyLen = 0 /\ ~consistent THEN Offered(n) ELSE {RdkafkaConsistentOf(h, n)}
    [] bal = "murmur2" -> IF isNil /\ ~consistent THEN Offered(n) ELSE {JavaDefaultOf(h, n)}

Allowed(bal, consistent, isNil, key, n) ==
  AllowedOf(bal, consistent, isNil, Len(key), HashFor(bal, key), n)

\* properties of the formulas themselves, TLC-checked in MCBalancers
FormulaSanity(key, n) ==
  /\ SaramaHash(key, n) \in Offered(n)
  /\ SaramaReferenceHash(key, n) \in Offered(n)
  /\ RdkafkaConsistent(key, n) \in Offered(n)
  /\ JavaDefault(key, n) \in Offered(n)

-----------------------------------------------------------------------------
(* RoundRobin: a counter of the messages seen; ChunkSize < 1 means 1.      *)
(* The k-th message (k = 0, 1, ...) goes to partition (k div chunk) mod n: *)
(* every run of chunk consecutive messages to one partition, the runs      *)
(* cycling through 0, 1, .., n-1, 0, ...                                   *)
RRChunk(c) == IF c < 1 THEN 1 ELSE c
RRResult(counter, chunk, n) == (counter \div RRChunk(chunk)) % n

(* LeastBytes: bytes routed per partition since the partition list last    *)
(* changed (a change of the list means the topic was repartitioned; the    *)
(* balancer starts a new account, see the Balancer interface comment).     *)
(* Balance picks any partition with the fewest bytes and adds              *)
(* len(key) + len(value) to it.                                            *)
LBInit == [n |-> 0, bytes |-> <<>>]
LBView(s, n) == IF s.n = n THEN s.bytes ELSE [p \in Offered(n) |-> 0]
LBAllowed(s, n) ==
  LET b == LBView(s, n) IN {p \in Offered(n) : \A q \in Offered(n) : b[p] <= b[q]}
LBAfter(s, n, p, size) == [n |-> n, bytes |-> [LBView(s, n) EXCEPT ![p] = @ + size]]

-----------------------------------------------------------------------------
(* Histories.  A history is a sequence of completed calls                   *)
(*   [t |-> thread, inv |-> seq. number at invocation, ret |-> seq. number *)
(*    at return, n |-> partitions offered (0..n-1), size |-> len(key) +    *)
(*    len(value), out |-> result]                                          *)
(* A call c may be linearised next after the set `done` iff every call     *)
(* that returned before c was invoked is already in `done` (real-time      *)
(* order) and the sequential model allows c's result in the state reached  *)
(* by `done`.                                                              *)
Calls(H) == 1..Len(H)
RealTimeReady(H, done, c) ==
  /\ c \notin done
  /\ \A d \in Calls(H) \ done : d # c => ~(H[d].ret < H[c].inv)

\* RoundRobin: the state after `done` is the counter Cardinality(done)
RRCanLinearise(H, chunk, done, c) ==
  /\ RealTimeReady(H, done, c)
  /\ H[c].out = RRResult(Cardinality(done), chunk, H[c].n)

\* LeastBytes: the model state is carried along (it depends on the order when n changes)
LBCanLinearise(H, s, done, c) ==
  /\ RealTimeReady(H, done, c)
  /\ H[c].out \in LBAllowed(s, H[c].n)

\* pure (exponential) formulations, used on small model-generated histories only
RECURSIVE RRLinFrom(_, _, _)
RRLinFrom(H, chunk, done) ==
  \/ done = Calls(H)
  \/ \E c \in Calls(H) \ done : RRCanLinearise(H, chunk, done, c) /\ RRLinFrom(H, chunk, done \cup {c})
RRLinearisable(H, chunk) == RRLinFrom(H, chunk, {})

RECURSIVE LBLinFrom(_, _, _)
LBLinFrom(H, s, done) ==
  \/ done = Calls(H)
  \/ \E c \in Calls(H) \ done :
        /\ LBCanLinearise(H, s, done, c)
        /\ LBLinFrom(H, LBAfter(s, H[c].n, H[c].out, H[c].size), done \cup {c})
LBLinearisable(H) == LBLinFrom(H, LBInit, {})

\* what C13 says about a complete RoundRobin history with constant n: the results are,
\* as a multiset, exactly the results for counter values 0..N-1
RRMultisetOk(H, chunk) ==
  LET N == Len(H)
      n == H[1].n
  IN  N = 0 \/ \A p \in Offered(n) \cup {H[c].out : c \in Calls(H)} :
                  Cardinality({c \in Calls(H) : H[c].out = p})
                    = Cardinality({k \in 0..(N - 1) : RRResult(k, chunk, n) = p})
=============================================================================
