SPECIFICATION Spec
CONSTANTS
  Kind = "lb"
  Threads = {1, 2}
  MaxCalls = 3
  Chunks = {0}
  Ns = {2, 3}
  Sizes = {5}
  NChange = TRUE
INVARIANTS Offered_Inv LB_PicksFewest LB_Account Judge_Accepts
CHECK_DEADLOCK FALSE
