SPECIFICATION Spec
CONSTANTS
  Kind = "lb"
  Threads = {1, 2}
  MaxCalls = 4
  Chunks = {0}
  Ns = {2, 3}
  Sizes = {0, 5}
  NChange = TRUE
INVARIANTS Offered_Inv LB_PicksFewest LB_Account Judge_Accepts
CHECK_DEADLOCK FALSE
