SPECIFICATION Spec
INVARIANTS InputOk AllMatch
CHECK_DEADLOCK FALSE
