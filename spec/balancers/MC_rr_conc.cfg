SPECIFICATION Spec
CONSTANTS
  Kind = "rr"
  Threads = {1, 2, 3}
  MaxCalls = 4
  Chunks = {1, 2}
  Ns = {2, 3}
  Sizes = {0}
  NChange = FALSE
INVARIANTS Offered_Inv RR_Runs RR_Even Judge_Accepts
CHECK_DEADLOCK FALSE
