SPECIFICATION Spec
CONSTANTS
  Kind = "lb"
  Threads = {1, 2, 3}
  MaxCalls = 3
  Chunks = {0}
  Ns = {3}
  Sizes = {0, 5}
  NChange = FALSE
INVARIANTS Offered_Inv LB_PicksFewest LB_Account LB_Spread Judge_Accepts
CHECK_DEADLOCK FALSE
