SPECIFICATION MSpec
INVARIANTS C18_FailureClosesAndFails C18_NothingBeforeAuth C18_SuccessIffRightCreds C18_RawVsFramed
POSTCONDITION TraceAccepted
CHECK_DEADLOCK FALSE
