SPECIFICATION Spec
CONSTANTS
  Conns = {1, 2}
  Bug = "none"
  MaxUse = 1
  OneMechanism = TRUE
  OvFaults = {"none", "close"}
INVARIANTS TypeOK C18_NothingBeforeAuth C18_FailureClosesAndFails C18_SuccessIffRightCreds C18_RawVsFramed
CHECK_DEADLOCK FALSE
