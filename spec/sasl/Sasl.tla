------------------------------- MODULE Sasl -------------------------------
(***************************************************************************)
(* C18: with a SASL mechanism configured nothing but ApiVersions,          *)
(* SaslHandshake and SaslAuthenticate (or raw SASL tokens) is written to a *)
(* connection before the broker accepted the authentication exchange; a    *)
(* rejected mechanism, a failed step or a connection closed by the broker  *)
(* makes the dial fail with the connection closed; PLAIN and SCRAM         *)
(* exchanges complete exactly when the credentials are right.              *)
(*                                                                         *)
(* Per-connection automaton.  Client (kafka-go: Dialer.connect /           *)
(* authenticateSASL, transport.go connGroup.connect / authenticateSASL):   *)
(*   New -> VersionsAsked -> HandshakeSent(hv) -> AuthSent(1) -> ...       *)
(*       -> Authenticated | Failed(closed)                                 *)
(* Every client action consumes the reply to its previous request and      *)
(* writes the next request (the client is sequential).  Environment        *)
(* (broker): advertises the SaslHandshake version range in its ApiVersions *)
(* response (hsadv: entry absent, 0..0, 0..1 or 1..1; an absent entry      *)
(* means version 0 to the client, it never means "no authentication"),     *)
(* accepts or rejects the mechanism, runs the mechanism (PLAIN: one round; *)
(* SCRAM: two rounds) and, at the configured step, may instead answer an   *)
(* error code (fcode: 33 / 34 / 58 or -1, UNKNOWN_SERVER_ERROR, the only   *)
(* negative code of the protocol; the client treats ANY non-zero code as   *)
(* a failure), send a malformed message, send a wrong nonce / server       *)
(* signature, or close the connection.                                     *)
(*                                                                         *)
(* Several connections: the connections of one Dialer / Transport are      *)
(* authenticated with ONE sasl.Mechanism value, possibly at the same time  *)
(* (OneMechanism).  A correct mechanism keeps no per-exchange state in     *)
(* that value, so the connections interleave freely and each of them       *)
(* satisfies the invariants on its own; Bug = "sharedConvo" (the value     *)
(* holds the one conversation everybody steps) is rejected by them.        *)
(*                                                                         *)
(* Observable variables (the only ones the C18 invariants read, so that    *)
(* the same invariants are evaluated on journals recorded from real dials):*)
(*   cfg, sent, hv, authAt, failAt, closed, dialResult, fin                *)
(***************************************************************************)
EXTENDS Integers, Sequences, FiniteSets, TLC

CONSTANTS Conns,     \* connections (independent of each other)
          Bug,       \* "none", or a defect injected into the client half (vacuity guards)
          MaxUse,    \* bound on ordinary requests after the dial (model checking only)
          OneMechanism, \* TRUE: the connections are dialled at once through ONE Dialer / Transport, i.e. they are
                        \* configured with one sasl.Mechanism value (same mechanism, same credentials, same cluster);
                        \* a correct client shares nothing else between them.  FALSE: unrelated connections.
          OvFaults      \* OneMechanism: what the broker may do to each of the connections ("none", "close", ...)

Mechs      == {"PLAIN", "SCRAM-SHA-256", "SCRAM-SHA-512"}
CredKinds  == {"right", "wrongPassword", "unknownUser"}
FaultKinds == {"none", "unsupported", "error", "malformed", "badproof", "close"}
PreAuthApis == {"ApiVersions", "SaslHandshake", "SaslAuthenticate", "RawSaslToken"}
UseApis    == {"Metadata", "ListOffsets"}
Bugs       == {"none", "skipAuthV0", "useBeforeAuth", "ignoreAuthErr", "noClose", "framedV0", "sendAfterFail",
               "skipAuthAbsent", "negCodeOK", "sharedConvo"}
\* what the ApiVersions response says about SaslHandshake (key 17): no entry, 0..0, 0..1, 1..1
HsAdvs     == {"absent", "v0", "v0v1", "v1"}
\* the handshake version a correct client negotiates: the highest one both sides know; no entry means version 0
AdvMax(a)  == IF a \in {"absent", "v0"} THEN 0 ELSE 1
\* error codes a broker answers a failed step with (0: the step is not answered with an injected code)
ErrCodes   == {0, 33, 34, 58, -1}

Rounds(m) == IF m = "PLAIN" THEN 1 ELSE 2

\* meaningful (mechanism, fault kind, step) combinations; step 0 = handshake, i = authenticate round i.
\* PLAIN has no server message, so "malformed"/"badproof" at an authenticate round exist for SCRAM only.
FaultOK(m, k, s) ==
  CASE k = "none"        -> s = 0
    [] k = "unsupported" -> s = 0
    [] k = "error"       -> s <= Rounds(m)
    [] k = "close"       -> s <= Rounds(m)
    [] k = "malformed"   -> s = 0 \/ (m # "PLAIN" /\ s <= 2)
    [] k = "badproof"    -> m # "PLAIN" /\ s \in 1 .. 2
    [] OTHER             -> FALSE

\* the code of an injected "error": 33 (UnsupportedSASLMechanism), 34 (IllegalSASLState) or -1 (UnknownServerError) at the
\* handshake; 58 (SASLAuthenticationFailed), 34 or -1 at an authenticate round.  After a v0 handshake no frame carries a
\* code (the broker just closes), so a single representative is kept there.
CodeOK(a, k, s, code) ==
  IF k # "error" THEN code = 0
  ELSE IF s = 0 THEN code \in {33, 34, -1}
  ELSE IF AdvMax(a) = 0 THEN code = 58
  ELSE code \in {58, 34, -1}

Configs ==
  { r \in [mech : Mechs, hsadv : HsAdvs, creds : CredKinds, fkind : FaultKinds, fstep : 0 .. 2, fcode : ErrCodes, attr : BOOLEAN] :
      FaultOK(r.mech, r.fkind, r.fstep) /\ CodeOK(r.hsadv, r.fkind, r.fstep, r.fcode) }

\* Connections of one Dialer / Transport (OneMechanism): the mechanism, the credentials and the cluster's advertisement are
\* common to all of them; what the broker does to one connection (OvFaults: nothing, closing it at some step, ...) is not.
\* The scope is kept small here (the full space is covered connection by connection with OneMechanism = FALSE): the
\* advertisements 0..0 and 1..1 (an absent entry negotiates like 0..0, 0..1 like 1..1), PLAIN and one of the two SCRAM
\* mechanisms (nothing in this module tells them apart).
SharedMechs == {"PLAIN", "SCRAM-SHA-256"}
SharedConfigs(m, cr, a) ==
  { r \in Configs : r.mech = m /\ r.creds = cr /\ r.hsadv = a /\ r.attr /\ r.fkind \in OvFaults }

\* The state of the authentication conversation kept in the Mechanism VALUE by a defective mechanism (Bug = "sharedConvo":
\* Start installs a fresh conversation in the value and hands out a pointer to it, so every connection that is being
\* authenticated steps the conversation of whoever started last).  owner: the connection whose Start ran last (0: none),
\* step: messages of the exchange that conversation has produced.  A correct mechanism returns a new conversation per
\* Start: nothing is shared and conv never changes.
NoConv == [owner |-> 0, step |-> 0]

VARIABLES
  cfg,         \* cfg[c]: scenario of the connection (mechanism, advertised version, credentials, fault, attr)
  sent,        \* sent[c]: journal of everything the client wrote: <<[api, form]>>, form in {"req","framed","raw","write"}
  hv,          \* hv[c]: version of the SaslHandshake request the client sent (-1: none yet)
  authAt,      \* authAt[c]: Len(sent[c]) when the broker accepted the exchange, 0: not accepted
  failAt,      \* failAt[c]: Len(sent[c]) when the exchange failed (rejected / step failed / tampered / closed), -1: no failure
  closed,      \* closed[c]: the client closed the connection
  dialResult,  \* "pending" | "ok" | "error"
  fin,         \* fin[c]: nothing more happens on this connection
  \* unobservable protocol state
  cst,         \* client control state
  round,       \* authenticate round the client is in
  c2s,         \* request the broker has not handled yet ("none" | "ApiVersions" | "SaslHandshake" | "auth" | "other")
  s2c,         \* reply the client has not consumed yet
  srvClosed,   \* the broker closed its end
  uses,        \* ordinary requests sent
  conv         \* conversation state inside the shared Mechanism value (only a defective mechanism has any: see NoConv)

obs  == <<cfg, sent, hv, authAt, failAt, closed, dialResult, fin>>
hid  == <<cst, round, c2s, s2c, srvClosed, uses, conv>>
vars == <<cfg, sent, hv, authAt, failAt, closed, dialResult, fin, cst, round, c2s, s2c, srvClosed, uses, conv>>

Entry(api, form) == [api |-> api, form |-> form]
Journal(c, e) == sent' = [sent EXCEPT ![c] = Append(@, e)]

Init ==
  /\ IF OneMechanism
       THEN \E m \in SharedMechs, cr \in CredKinds, a \in {"v0", "v1"} : cfg \in [Conns -> SharedConfigs(m, cr, a)]
       ELSE cfg \in [Conns -> Configs]
  /\ conv = NoConv
  /\ sent = [c \in Conns |-> <<>>]
  /\ hv = [c \in Conns |-> -1]
  /\ authAt = [c \in Conns |-> 0]
  /\ failAt = [c \in Conns |-> -1]
  /\ closed = [c \in Conns |-> FALSE]
  /\ dialResult = [c \in Conns |-> "pending"]
  /\ fin = [c \in Conns |-> FALSE]
  /\ cst = [c \in Conns |-> "New"]
  /\ round = [c \in Conns |-> 0]
  /\ c2s = [c \in Conns |-> "none"]
  /\ s2c = [c \in Conns |-> "none"]
  /\ srvClosed = [c \in Conns |-> FALSE]
  /\ uses = [c \in Conns |-> 0]

(***************************************************************************)
(* Broker                                                                  *)
(***************************************************************************)
FaultAt(c, s) == IF cfg[c].fkind \notin {"none", "unsupported"} /\ cfg[c].fstep = s THEN cfg[c].fkind ELSE "none"

\* the mechanism itself refuses round i with these credentials
CredsFailAt(c, i) ==
  \/ cfg[c].mech = "PLAIN" /\ i = 1 /\ cfg[c].creds # "right"
  \/ cfg[c].mech # "PLAIN" /\ i = 1 /\ cfg[c].creds = "unknownUser"
  \/ cfg[c].mech # "PLAIN" /\ i = 2 /\ cfg[c].creds = "wrongPassword"

\* the error code carried by the answer to the handshake / to authenticate round i (0: the answer is not an error)
HsCode(c) ==
  IF FaultAt(c, 0) = "error" THEN cfg[c].fcode ELSE IF cfg[c].fkind = "unsupported" THEN 33 ELSE 0
AuthCode(c, i) ==
  IF FaultAt(c, i) = "error" THEN cfg[c].fcode ELSE IF CredsFailAt(c, i) THEN 58 ELSE 0
\* the code of the error reply the client is looking at
ReplyCode(c) ==
  CASE s2c[c] = "hsErr"   -> HsCode(c)
    [] s2c[c] = "authErr" -> AuthCode(c, round[c])
    [] OTHER              -> 0

Fail(c)      == failAt' = [failAt EXCEPT ![c] = IF @ < 0 THEN Len(sent[c]) ELSE @]
Reply(c, m)  == s2c' = [s2c EXCEPT ![c] = m] /\ c2s' = [c2s EXCEPT ![c] = "none"]
SrvClose(c)  == srvClosed' = [srvClosed EXCEPT ![c] = TRUE]

SrvVersions(c) ==
  /\ ~srvClosed[c] /\ c2s[c] = "ApiVersions"
  /\ Reply(c, "versions")
  /\ UNCHANGED <<cfg, sent, hv, authAt, failAt, closed, dialResult, fin, cst, round, srvClosed, uses, conv>>

\* outcome of the handshake: "eof" (closed without an answer), "hsErr" (error code, then closed), "garbled", "hsOK"
HandshakeOutcome(c) ==
  CASE FaultAt(c, 0) = "close"         -> "eof"
    [] FaultAt(c, 0) = "error"         -> "hsErr"
    [] FaultAt(c, 0) = "malformed"     -> "garbled"
    [] cfg[c].fkind = "unsupported"    -> "hsErr"
    [] OTHER                           -> "hsOK"

SrvHandshake(c) ==
  /\ ~srvClosed[c] /\ c2s[c] = "SaslHandshake"
  /\ LET o == HandshakeOutcome(c) IN
       /\ Reply(c, o)
       /\ IF o = "hsOK" THEN UNCHANGED failAt ELSE Fail(c)
       /\ IF o \in {"eof", "hsErr"} THEN SrvClose(c) ELSE UNCHANGED srvClosed
  /\ UNCHANGED <<cfg, sent, hv, authAt, closed, dialResult, fin, cst, round, uses, conv>>

\* outcome of authenticate round i.  A failed step is answered with an error code when the bytes are framed
\* (handshake v1) and by closing the connection when they are raw (handshake v0: no frame could carry a code).
AuthOutcome(c, i) ==
  CASE FaultAt(c, i) = "close"                          -> "eof"
    [] FaultAt(c, i) = "error" \/ CredsFailAt(c, i)     -> IF hv[c] = 0 THEN "eof" ELSE "authErr"
    [] FaultAt(c, i) \in {"malformed", "badproof"} /\ cfg[c].mech # "PLAIN" -> "tampered"
    [] i < Rounds(cfg[c].mech)                          -> "authCont"
    [] OTHER                                            -> "authOK"

SrvAuth(c) ==
  /\ ~srvClosed[c] /\ c2s[c] = "auth"
  /\ LET o == AuthOutcome(c, round[c]) IN
       /\ Reply(c, o)
       /\ IF o \in {"authCont", "authOK"} THEN UNCHANGED failAt ELSE Fail(c)
       /\ IF o \in {"eof", "authErr"} THEN SrvClose(c) ELSE UNCHANGED srvClosed
       /\ authAt' = [authAt EXCEPT ![c] = IF o = "authOK" THEN Len(sent[c]) ELSE @]
  /\ UNCHANGED <<cfg, sent, hv, closed, dialResult, fin, cst, round, uses, conv>>

\* an unauthenticated client sent something else: the broker closes the connection
SrvPreauthClose(c) ==
  /\ ~srvClosed[c] /\ c2s[c] = "other" /\ authAt[c] = 0
  /\ Reply(c, "eof") /\ Fail(c) /\ SrvClose(c)
  /\ UNCHANGED <<cfg, sent, hv, authAt, closed, dialResult, fin, cst, round, uses, conv>>

\* requests of an authenticated client are served (their replies do not matter here)
SrvServe(c) ==
  /\ ~srvClosed[c] /\ c2s[c] = "other" /\ authAt[c] > 0
  /\ c2s' = [c2s EXCEPT ![c] = "none"]
  /\ UNCHANGED <<cfg, sent, hv, authAt, failAt, closed, dialResult, fin, cst, round, s2c, srvClosed, uses, conv>>

(***************************************************************************)
(* Client                                                                  *)
(***************************************************************************)
Send(c, api, form, what) == Journal(c, Entry(api, form)) /\ c2s' = [c2s EXCEPT ![c] = what] /\ s2c' = [s2c EXCEPT ![c] = "none"]

Start(c) ==
  /\ cst[c] = "New" /\ ~closed[c]
  /\ Send(c, "ApiVersions", "req", "ApiVersions")
  /\ cst' = [cst EXCEPT ![c] = "VersionsAsked"]
  /\ UNCHANGED <<cfg, hv, authAt, failAt, closed, dialResult, fin, round, srvClosed, uses, conv>>

\* the negotiated handshake version is the highest one both sides know; the handshake is sent whatever the
\* ApiVersions response says about it (an absent entry negotiates version 0)
OnVersions(c) ==
  /\ cst[c] = "VersionsAsked" /\ s2c[c] = "versions"
  /\ hv' = [hv EXCEPT ![c] = AdvMax(cfg[c].hsadv)]
  /\ Send(c, "SaslHandshake", "req", "SaslHandshake")
  /\ cst' = [cst EXCEPT ![c] = "HandshakeSent"]
  /\ UNCHANGED <<cfg, authAt, failAt, closed, dialResult, fin, round, srvClosed, uses, conv>>

AuthForm(c) == IF hv[c] = 0 /\ Bug # "framedV0" THEN "raw" ELSE "framed"
SendAuth(c) ==
  IF AuthForm(c) = "raw" THEN Send(c, "RawSaslToken", "raw", "auth") ELSE Send(c, "SaslAuthenticate", "framed", "auth")

\* Mechanism.Start / StateMachine.Next.  A correct mechanism gives every connection a conversation of its own (it is
\* the connection's round counter here).  The defective one (sharedConvo; SCRAM only, PLAIN keeps no state) installs the
\* new conversation in the shared value at Start, and Next steps whatever conversation is there: it goes well only
\* for the connection that started last and only if nobody else stepped it in between.
KeepsConv(c)  == Bug = "sharedConvo" /\ cfg[c].mech # "PLAIN"
ConvMine(c)   == KeepsConv(c) => (conv.owner = c /\ conv.step = round[c])
StartConv(c)  == conv' = IF KeepsConv(c) THEN [owner |-> c, step |-> 1] ELSE conv
StepConv(c)   == conv' = IF KeepsConv(c) THEN [conv EXCEPT !.step = @ + 1] ELSE conv

OnHandshakeOK(c) ==
  /\ cst[c] = "HandshakeSent" /\ s2c[c] = "hsOK"
  /\ round' = [round EXCEPT ![c] = 1]
  /\ SendAuth(c)
  /\ StartConv(c)
  /\ cst' = [cst EXCEPT ![c] = "AuthSent"]
  /\ UNCHANGED <<cfg, hv, authAt, failAt, closed, dialResult, fin, srvClosed, uses>>

OnAuthCont(c) ==
  /\ cst[c] = "AuthSent" /\ s2c[c] = "authCont" /\ ConvMine(c)
  /\ round' = [round EXCEPT ![c] = @ + 1]
  /\ SendAuth(c)
  /\ StepConv(c)
  /\ UNCHANGED <<cfg, hv, authAt, failAt, closed, dialResult, fin, cst, srvClosed, uses>>

\* what the client accepts as the successful end of the exchange
Accepted(c) ==
  /\ cst[c] = "AuthSent" /\ ConvMine(c)
  /\ \/ s2c[c] = "authOK"
     \/ Bug = "ignoreAuthErr" /\ s2c[c] = "authErr" /\ round[c] = Rounds(cfg[c].mech)
     \* "error code > 0" instead of "error code # 0": UNKNOWN_SERVER_ERROR (-1) passes for success
     \/ Bug = "negCodeOK" /\ s2c[c] = "authErr" /\ ReplyCode(c) < 0 /\ round[c] = Rounds(cfg[c].mech)

FailReplies == {"hsErr", "garbled", "authErr", "tampered", "eof"}
SeesFailure(c) ==
  /\ cst[c] \in {"VersionsAsked", "HandshakeSent", "AuthSent"}
  /\ s2c[c] \in FailReplies
  /\ ~Accepted(c)

\* the exchange failed: the connection is closed (before the dial returns)
FailClose(c) ==
  /\ SeesFailure(c) /\ Bug \notin {"noClose", "sendAfterFail"}
  /\ closed' = [closed EXCEPT ![c] = TRUE]
  /\ cst' = [cst EXCEPT ![c] = "Failed"]
  /\ UNCHANGED <<cfg, sent, hv, authAt, failAt, dialResult, fin, round, c2s, s2c, srvClosed, uses, conv>>

DialReturnErr(c) ==
  /\ cst[c] = "Failed" /\ dialResult[c] = "pending" /\ cfg[c].attr
  /\ dialResult' = [dialResult EXCEPT ![c] = "error"]
  /\ UNCHANGED <<cfg, sent, hv, authAt, failAt, closed, fin, cst, round, c2s, s2c, srvClosed, uses, conv>>

DialReturnOK(c) ==
  /\ Accepted(c) /\ cfg[c].attr
  /\ dialResult' = [dialResult EXCEPT ![c] = "ok"]
  /\ cst' = [cst EXCEPT ![c] = "Authenticated"]
  /\ UNCHANGED <<cfg, sent, hv, authAt, failAt, closed, fin, round, c2s, s2c, srvClosed, uses, conv>>

\* the library hands the connection to an internal user (LookupPartition, the Transport's metadata loop, a pooled
\* request) which sends its request at once: the hand-over is visible only through that request (if the API call
\* that caused the dial reports its result later, that report changes nothing: a stuttering step)
InternalUse(c, api) ==
  /\ Accepted(c)
  /\ dialResult' = [dialResult EXCEPT ![c] = "ok"]
  /\ cst' = [cst EXCEPT ![c] = "Authenticated"]
  /\ Send(c, api, "req", "other")
  /\ uses' = [uses EXCEPT ![c] = @ + 1]
  /\ UNCHANGED <<cfg, hv, authAt, failAt, closed, fin, round, srvClosed, conv>>

Use(c, api) ==
  /\ cst[c] = "Authenticated" /\ ~closed[c] /\ uses[c] < MaxUse
  /\ Send(c, api, "req", "other")
  /\ uses' = [uses EXCEPT ![c] = @ + 1]
  /\ UNCHANGED <<cfg, hv, authAt, failAt, closed, dialResult, fin, cst, round, srvClosed, conv>>

FinalClose(c) ==
  /\ cst[c] = "Authenticated" /\ ~closed[c]
  /\ closed' = [closed EXCEPT ![c] = TRUE]
  /\ UNCHANGED <<cfg, sent, hv, authAt, failAt, dialResult, fin, cst, round, c2s, s2c, srvClosed, uses, conv>>

End(c) ==
  /\ ~fin[c]
  /\ \/ cst[c] = "Failed" /\ (dialResult[c] = "error" \/ ~cfg[c].attr)
     \/ cst[c] = "Authenticated" /\ closed[c]
  /\ fin' = [fin EXCEPT ![c] = TRUE]
  /\ UNCHANGED <<cfg, sent, hv, authAt, failAt, closed, dialResult, cst, round, c2s, s2c, srvClosed, uses, conv>>

(***************************************************************************)
(* Defective clients (Bug # "none"): they exist so that the engine can     *)
(* show that each C18 invariant rejects the defect class it is meant for.  *)
(***************************************************************************)
\* the dial returns the connection without authenticating when the handshake version is 0
BugSkipAuthV0(c) ==
  /\ \/ Bug = "skipAuthV0" /\ AdvMax(cfg[c].hsadv) = 0
     \* "authenticate only if the broker lists the SaslHandshake API"
     \/ Bug = "skipAuthAbsent" /\ cfg[c].hsadv = "absent"
  /\ cst[c] = "VersionsAsked" /\ s2c[c] = "versions"
  /\ dialResult' = [dialResult EXCEPT ![c] = "ok"]
  /\ cst' = [cst EXCEPT ![c] = "Authenticated"]
  /\ s2c' = [s2c EXCEPT ![c] = "none"]
  /\ UNCHANGED <<cfg, sent, hv, authAt, failAt, closed, fin, round, c2s, srvClosed, uses, conv>>

\* an ordinary request is written before the handshake
BugUseBeforeAuth(c) ==
  /\ Bug = "useBeforeAuth" /\ cst[c] = "VersionsAsked" /\ s2c[c] = "versions" /\ uses[c] = 0
  /\ Journal(c, Entry("Metadata", "req"))
  /\ c2s' = [c2s EXCEPT ![c] = "other"]
  /\ uses' = [uses EXCEPT ![c] = 1]
  /\ UNCHANGED <<cfg, hv, authAt, failAt, closed, dialResult, fin, cst, round, s2c, srvClosed, conv>>

\* the failure is noticed but the connection is left open
BugNoClose(c) ==
  /\ Bug = "noClose" /\ SeesFailure(c)
  /\ cst' = [cst EXCEPT ![c] = "Failed"]
  /\ UNCHANGED <<cfg, sent, hv, authAt, failAt, closed, dialResult, fin, round, c2s, s2c, srvClosed, uses, conv>>

\* something is written after the failure, then the connection is closed
BugSendAfterFail(c) ==
  /\ Bug = "sendAfterFail" /\ SeesFailure(c)
  /\ Journal(c, Entry("Metadata", "write"))
  /\ closed' = [closed EXCEPT ![c] = TRUE]
  /\ cst' = [cst EXCEPT ![c] = "Failed"]
  /\ UNCHANGED <<cfg, hv, authAt, failAt, dialResult, fin, round, c2s, s2c, srvClosed, uses, conv>>

\* a handshake answered with a negative error code passes for accepted: the authentication bytes follow
BugNegCodeHandshake(c) ==
  /\ Bug = "negCodeOK" /\ cst[c] = "HandshakeSent" /\ s2c[c] = "hsErr" /\ ReplyCode(c) < 0
  /\ round' = [round EXCEPT ![c] = 1]
  /\ SendAuth(c)
  /\ cst' = [cst EXCEPT ![c] = "AuthSent"]
  /\ UNCHANGED <<cfg, hv, authAt, failAt, closed, dialResult, fin, srvClosed, uses, conv>>

\* sharedConvo: the broker's answer is fed to a conversation that is not (or no longer) this connection's.
\* Either that conversation refuses the message (wrong nonce, wrong kind of message, already completed): the mechanism
\* reports an error and the client closes a connection the broker had no complaint about ...
BugSharedFail(c) ==
  /\ KeepsConv(c) /\ cst[c] = "AuthSent" /\ s2c[c] \in {"authCont", "authOK"} /\ ~ConvMine(c)
  /\ closed' = [closed EXCEPT ![c] = TRUE]
  /\ cst' = [cst EXCEPT ![c] = "Failed"]
  /\ UNCHANGED <<cfg, sent, hv, authAt, failAt, dialResult, fin, round, c2s, s2c, srvClosed, uses, conv>>

\* ... or another connection pushes the conversation to its end while this connection's Next is still computing on it
\* (no synchronisation: both step the same value), and Next reports "completed" before the broker has accepted anything.
BugSharedDone(c) ==
  /\ KeepsConv(c) /\ cst[c] = "AuthSent" /\ s2c[c] = "authCont" /\ conv.owner # c
  /\ dialResult' = [dialResult EXCEPT ![c] = "ok"]
  /\ cst' = [cst EXCEPT ![c] = "Authenticated"]
  /\ UNCHANGED <<cfg, sent, hv, authAt, failAt, closed, fin, round, c2s, s2c, srvClosed, uses, conv>>

BugNext(c) == BugSkipAuthV0(c) \/ BugUseBeforeAuth(c) \/ BugNoClose(c) \/ BugSendAfterFail(c) \/ BugNegCodeHandshake(c)
              \/ BugSharedFail(c) \/ BugSharedDone(c)

ClientNext(c) ==
  \/ Start(c) \/ OnVersions(c) \/ OnHandshakeOK(c) \/ OnAuthCont(c)
  \/ FailClose(c) \/ DialReturnErr(c) \/ DialReturnOK(c)
  \/ \E api \in UseApis : InternalUse(c, api) \/ Use(c, api)
  \/ FinalClose(c) \/ End(c)

ServerNext(c) == SrvVersions(c) \/ SrvHandshake(c) \/ SrvAuth(c) \/ SrvPreauthClose(c) \/ SrvServe(c)

Next == \E c \in Conns : ClientNext(c) \/ ServerNext(c) \/ BugNext(c)

Spec == Init /\ [][Next]_vars /\ \A c \in Conns : WF_vars(ClientNext(c) \/ ServerNext(c))

(***************************************************************************)
(* Properties                                                              *)
(***************************************************************************)
TypeOK ==
  /\ cfg \in [Conns -> Configs]
  /\ \A c \in Conns :
       /\ \A i \in DOMAIN sent[c] : sent[c][i].api \in PreAuthApis \cup UseApis /\ sent[c][i].form \in {"req", "framed", "raw", "write"}
       /\ hv[c] \in -1 .. 1 /\ authAt[c] \in Nat /\ failAt[c] \in Int /\ failAt[c] >= -1
       /\ closed[c] \in BOOLEAN /\ fin[c] \in BOOLEAN /\ srvClosed[c] \in BOOLEAN
       /\ dialResult[c] \in {"pending", "ok", "error"}
       /\ cst[c] \in {"New", "VersionsAsked", "HandshakeSent", "AuthSent", "Authenticated", "Failed"}
       /\ round[c] \in 0 .. 2 /\ uses[c] \in 0 .. MaxUse + 1
       /\ c2s[c] \in {"none", "ApiVersions", "SaslHandshake", "auth", "other"}
       /\ s2c[c] \in {"none", "versions", "hsOK", "authCont", "authOK"} \cup FailReplies
  /\ conv \in [owner : Conns \cup {0}, step : 0 .. 3]
  /\ (Bug # "sharedConvo") => conv = NoConv

\* index of the last journal entry written before the broker accepted the exchange (everything, if it never did)
AuthCompletedIndex(c) == IF authAt[c] = 0 THEN Len(sent[c]) ELSE authAt[c]

C18_NothingBeforeAuth ==
  \A c \in Conns : \A i \in DOMAIN sent[c] : i <= AuthCompletedIndex(c) => sent[c][i].api \in PreAuthApis

AuthFailed(c) == failAt[c] >= 0
NoSendAfterFailure(c) == Len(sent[c]) = failAt[c]

\* a failed exchange: nothing is written afterwards, the dial never succeeds, and once the connection is quiescent
\* it is closed and the dial (where its result is observable: attr) returned an error
C18_FailureClosesAndFails ==
  \A c \in Conns : AuthFailed(c) =>
     /\ NoSendAfterFailure(c)
     /\ dialResult[c] # "ok"
     /\ dialResult[c] = "error" => closed[c]
     /\ fin[c] => closed[c] /\ (cfg[c].attr => dialResult[c] = "error")

NoInjectedFault(c) == cfg[c].fkind \in {"none", "unsupported"}
MechanismSupported(c) == cfg[c].fkind # "unsupported"
Good(c) == cfg[c].creds = "right" /\ MechanismSupported(c)

\* without injected faults the dial succeeds exactly when the credentials are right and the mechanism is enabled
C18_SuccessIffRightCreds ==
  \A c \in Conns : NoInjectedFault(c) =>
     /\ dialResult[c] = "ok" => Good(c)
     /\ dialResult[c] = "error" => ~Good(c)
     /\ (fin[c] /\ cfg[c].attr) => (dialResult[c] = "ok" <=> Good(c))

\* authentication bytes travel raw after a v0 handshake and framed after a v1 handshake (and never without a handshake)
C18_RawVsFramed ==
  \A c \in Conns : \A i \in DOMAIN sent[c] :
     sent[c][i].form \in {"raw", "framed"} =>
        /\ hv[c] \in {0, 1}
        /\ hv[c] = 0 => sent[c][i].form = "raw"
        /\ hv[c] = 1 => sent[c][i].form = "framed"

\* liveness of the automaton itself: every connection comes to rest
C18_DialTerminates == \A c \in Conns : <>fin[c]
=============================================================================
