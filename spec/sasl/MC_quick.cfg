SPECIFICATION Spec
CONSTANTS
  Conns = {1}
  Bug = "none"
  MaxUse = 2
INVARIANTS TypeOK C18_NothingBeforeAuth C18_FailureClosesAndFails C18_SuccessIffRightCreds C18_RawVsFramed
PROPERTIES C18_DialTerminates
CHECK_DEADLOCK FALSE
