----------------------------- MODULE SaslTrace -----------------------------
(***************************************************************************)
(* Journals recorded from REAL dials (kafka.Dialer.DialContext,            *)
(* kafka.Dialer.DialLeader, kafka.Transport round trips) against the fake  *)
(* cluster, one trace per connection, concatenated: a "cfg" line starts a  *)
(* new trace and names the scenario (tid).  Every other line is one action *)
(* of Sasl.tla:                                                            *)
(*   open                  the connection was dialled (no action)          *)
(*   write n               the client wrote n bytes (tap on the client end;*)
(*                         an action only after a failure: see below)      *)
(*   req api v form        the broker received a request / raw token       *)
(*   srv what round code   the broker's verdict, recorded before the bytes *)
(*                         carrying it were written (code: the error code  *)
(*                         of a rejected handshake / failed step)          *)
(*   result res            the API call that opened this connection        *)
(*                         returned (only for connections with attr)       *)
(*   closed                the client closed its end (fakenet OnClose)     *)
(*   end closed            census after the scenario                       *)
(*   hold / release        the broker held an answer back / released it    *)
(*                         (overlapping authentications through one Dialer *)
(*                         or Transport; informational, no action)         *)
(*                                                                         *)
(* Two specifications over the same variables:                             *)
(*   TSpec  conformance: each line must be the corresponding action of     *)
(*          Sasl.tla (guards included).  A line that is not enabled is a   *)
(*          divergence (TraceAccepted prints DIVERGED_AT_LINE).            *)
(*   MSpec  monitor: the observable variables are updated from the lines   *)
(*          without any guard and the C18 invariants of Sasl.tla are       *)
(*          evaluated in every state, so a violation on real code is       *)
(*          reported by TLC with the scenario id (tid) in the error trace. *)
(***************************************************************************)
EXTENDS Integers, Sequences, FiniteSets, TLC, Json, IOUtils

Trace == ndJsonDeserialize(IOEnv.TRACE)

Conns  == {1}
Bug    == "none"
MaxUse == 1000000
OneMechanism == FALSE     \* one trace per connection: connections authenticated at once are judged each on its own
OvFaults == {"none"}      \* (unused: OneMechanism is FALSE)

VARIABLES cfg, sent, hv, authAt, failAt, closed, dialResult, fin, cst, round, c2s, s2c, srvClosed, uses, conv, l, tid

M == INSTANCE Sasl

tvars == <<cfg, sent, hv, authAt, failAt, closed, dialResult, fin, cst, round, c2s, s2c, srvClosed, uses, conv, l, tid>>

NoCfg == [mech |-> "PLAIN", hsadv |-> "v0", creds |-> "right", fkind |-> "none", fstep |-> 0, fcode |-> 0, attr |-> FALSE]

TInit ==
  /\ cfg = [c \in Conns |-> NoCfg]
  /\ sent = [c \in Conns |-> <<>>] /\ hv = [c \in Conns |-> -1] /\ authAt = [c \in Conns |-> 0]
  /\ failAt = [c \in Conns |-> -1] /\ closed = [c \in Conns |-> FALSE] /\ dialResult = [c \in Conns |-> "pending"]
  /\ fin = [c \in Conns |-> FALSE] /\ cst = [c \in Conns |-> "New"] /\ round = [c \in Conns |-> 0]
  /\ c2s = [c \in Conns |-> "none"] /\ s2c = [c \in Conns |-> "none"] /\ srvClosed = [c \in Conns |-> FALSE]
  /\ uses = [c \in Conns |-> 0] /\ conv = M!NoConv
  /\ l = 1 /\ tid = ""

CfgOf(e) == [mech |-> e.mech, hsadv |-> e.hsadv, creds |-> e.creds, fkind |-> e.fkind, fstep |-> e.fstep, fcode |-> e.fcode, attr |-> e.attr]

Reset(e) ==
  /\ cfg' = [c \in Conns |-> CfgOf(e)]
  /\ sent' = [c \in Conns |-> <<>>] /\ hv' = [c \in Conns |-> -1] /\ authAt' = [c \in Conns |-> 0]
  /\ failAt' = [c \in Conns |-> -1] /\ closed' = [c \in Conns |-> FALSE] /\ dialResult' = [c \in Conns |-> "pending"]
  /\ fin' = [c \in Conns |-> FALSE] /\ cst' = [c \in Conns |-> "New"] /\ round' = [c \in Conns |-> 0]
  /\ c2s' = [c \in Conns |-> "none"] /\ s2c' = [c \in Conns |-> "none"] /\ srvClosed' = [c \in Conns |-> FALSE]
  /\ uses' = [c \in Conns |-> 0] /\ conv' = M!NoConv
  /\ tid' = e.id

Skip == UNCHANGED <<cfg, sent, hv, authAt, failAt, closed, dialResult, fin, cst, round, c2s, s2c, srvClosed, uses, conv, tid>>

PreAuth(api) == api \in M!PreAuthApis

(***************************************************************************)
(* Conformance                                                             *)
(***************************************************************************)
\* the broker's verdict -> the reply the model's broker must produce
ReplyOf(what) ==
  CASE what = "versions"  -> "versions"
    [] what = "hsok"      -> "hsOK"
    [] what = "hsrej"     -> "hsErr"
    [] what = "hsgarbled" -> "garbled"
    [] what = "authcont"  -> "authCont"
    [] what = "authok"    -> "authOK"
    [] what = "authfail"  -> IF hv[1] = 0 THEN "eof" ELSE "authErr"
    [] what = "tamper"    -> "tampered"
    [] what = "srvclose"  -> "eof"
    [] what = "preauthclose" -> "eof"
    [] OTHER              -> "?"

SrvStep(e) ==
  /\ \/ e.what = "versions" /\ e.hsadv = cfg[1].hsadv /\ M!SrvVersions(1)
     \/ /\ e.what \in {"hsok", "hsrej", "hsgarbled"}
        /\ M!SrvHandshake(1)
        /\ (e.what = "hsrej") => (e.code = M!HsCode(1))
     \/ /\ e.what \in {"authcont", "authok", "authfail", "tamper"}
        /\ e.round = round[1]
        /\ M!SrvAuth(1)
        \* a framed failure carries the model's code (after a v0 handshake no code travels)
        /\ (e.what = "authfail" /\ hv[1] = 1) => (e.code = M!AuthCode(1, round[1]))
     \/ e.what = "srvclose" /\ ((e.round = 0 /\ M!SrvHandshake(1)) \/ (e.round > 0 /\ e.round = round[1] /\ M!SrvAuth(1)))
     \/ e.what = "preauthclose" /\ M!SrvPreauthClose(1)
  /\ s2c'[1] = ReplyOf(e.what)

\* requests of the authentication exchange: the client consumed the previous reply and wrote the next request
ReqStep(e) ==
  CASE e.api = "ApiVersions" -> M!Start(1)
    [] e.api = "SaslHandshake" -> M!OnVersions(1) /\ hv'[1] = e.v
    [] e.api \in {"SaslAuthenticate", "RawSaslToken"} ->
         /\ M!OnHandshakeOK(1) \/ M!OnAuthCont(1)
         /\ sent'[1][Len(sent'[1])] = M!Entry(e.api, e.form)

Step(e) ==
  CASE e.ev = "cfg"  -> Reset(e)
    [] e.ev = "open" -> Skip
    [] e.ev = "write" -> failAt[1] < 0 /\ Skip         \* a write after the failure is not an action of the automaton
    [] e.ev = "req" ->
         /\ IF PreAuth(e.api) /\ ~(e.api = "ApiVersions" /\ cst[1] # "New")
              THEN ReqStep(e)
              ELSE M!InternalUse(1, e.api) \/ M!Use(1, e.api)     \* ordinary request
         /\ UNCHANGED tid
    [] e.ev = "srv" -> SrvStep(e) /\ UNCHANGED tid
    [] e.ev = "result" ->
         /\ IF e.res = "ok"
              THEN \/ M!DialReturnOK(1)
                   \* the connection was already handed to an internal user (Transport metadata loop): only the report
                   \/ cfg[1].attr /\ cst[1] = "Authenticated" /\ dialResult[1] = "ok"
                      /\ UNCHANGED <<cfg, sent, hv, authAt, failAt, closed, dialResult, fin, cst, round, c2s, s2c, srvClosed, uses, conv>>
              ELSE M!DialReturnErr(1)
         /\ UNCHANGED tid
    [] e.ev = "closed" -> (M!FailClose(1) \/ M!FinalClose(1)) /\ UNCHANGED tid
    [] e.ev = "end" -> M!End(1) /\ e.closed = closed[1] /\ UNCHANGED tid
    [] OTHER -> Skip

TNext == l <= Len(Trace) /\ l' = l + 1 /\ Step(Trace[l])
TSpec == TInit /\ [][TNext]_tvars

(***************************************************************************)
(* Monitor: observable variables only, no guards                           *)
(***************************************************************************)
HidUnchanged == UNCHANGED <<cst, round, c2s, s2c, srvClosed, uses, conv>>
FailNow == failAt' = [failAt EXCEPT ![1] = IF @ < 0 THEN Len(sent[1]) ELSE @]
Log(api, form) == sent' = [sent EXCEPT ![1] = Append(@, M!Entry(api, form))]

Upd(e) ==
  CASE e.ev = "cfg" -> Reset(e)
    [] e.ev = "req" ->
         /\ Log(e.api, e.form)
         /\ hv' = [hv EXCEPT ![1] = IF e.api = "SaslHandshake" THEN e.v ELSE @]
         \* an ordinary request on a connection whose hand-over is not observable shows that it was handed over
         /\ dialResult' = [dialResult EXCEPT ![1] = IF ~PreAuth(e.api) /\ ~cfg[1].attr /\ @ = "pending" THEN "ok" ELSE @]
         /\ UNCHANGED <<cfg, authAt, failAt, closed, fin, tid>> /\ HidUnchanged
    [] e.ev = "write" ->
         \* bytes written after the failure (the broker no longer reads them: the tap is the only witness)
         /\ IF failAt[1] >= 0 THEN Log("WriteAfterFailure", "write") ELSE UNCHANGED sent
         /\ UNCHANGED <<cfg, hv, authAt, failAt, closed, dialResult, fin, tid>> /\ HidUnchanged
    [] e.ev = "srv" ->
         /\ authAt' = [authAt EXCEPT ![1] = IF e.what = "authok" /\ @ = 0 THEN Len(sent[1]) ELSE @]
         /\ IF e.what \in {"hsrej", "hsgarbled", "authfail", "tamper", "srvclose", "preauthclose"} THEN FailNow ELSE UNCHANGED failAt
         /\ UNCHANGED <<cfg, sent, hv, closed, dialResult, fin, tid>> /\ HidUnchanged
    [] e.ev = "result" ->
         /\ dialResult' = [dialResult EXCEPT ![1] = e.res]
         /\ UNCHANGED <<cfg, sent, hv, authAt, failAt, closed, fin, tid>> /\ HidUnchanged
    [] e.ev = "closed" ->
         /\ closed' = [closed EXCEPT ![1] = TRUE]
         /\ UNCHANGED <<cfg, sent, hv, authAt, failAt, dialResult, fin, tid>> /\ HidUnchanged
    [] e.ev = "end" ->
         \* the census of open connections is the ground truth for "closed"
         /\ closed' = [closed EXCEPT ![1] = e.closed]
         /\ fin' = [fin EXCEPT ![1] = TRUE]
         /\ UNCHANGED <<cfg, sent, hv, authAt, failAt, dialResult, tid>> /\ HidUnchanged
    [] OTHER -> Skip

MNext == l <= Len(Trace) /\ l' = l + 1 /\ Upd(Trace[l])
MSpec == TInit /\ [][MNext]_tvars

C18_NothingBeforeAuth     == M!C18_NothingBeforeAuth
C18_FailureClosesAndFails == M!C18_FailureClosesAndFails
C18_SuccessIffRightCreds  == M!C18_SuccessIffRightCreds
C18_RawVsFramed           == M!C18_RawVsFramed

TraceAccepted ==
  \/ TLCGet("stats").diameter = Len(Trace) + 1
  \/ ~PrintT(<<"DIVERGED_AT_LINE", TLCGet("stats").diameter, Trace[TLCGet("stats").diameter]>>)
=============================================================================
