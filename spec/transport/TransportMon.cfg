SPECIFICATION Spec
INVARIANTS C12_Routing C12_Version C12_FollowLeader C12_FollowLeaderRealTime C12_RefreshWithinTTL C12_CacheFilter
  C06t_OwnResponse C06t_NoReuseAfterFailure C06t_ReleaseOnlyAfterComplete
  C17t_CutIsError C17t_NextCallSucceeds C17t_NoPanicNoHang C09t_CancelPrompt C09t_ContextError C09t_ClosedPoolConnsClose
POSTCONDITION TraceAccepted
CHECK_DEADLOCK FALSE
