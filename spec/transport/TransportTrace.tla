--------------------------- MODULE TransportTrace ---------------------------
(***************************************************************************)
(* Conformance of journals recorded from the real kafka.Transport / Client *)
(* (harness/transdrv) with Transport.tla.  Logged events are mapped to     *)
(* model actions; what cannot be observed from outside the library         *)
(* (grabbing the pool state, update() applying a metadata answer, the end  *)
(* of an exchange and the release of its connection, the wake-up of the    *)
(* discover loop, a context deadline expiring) are silent steps that TLC   *)
(* places wherever a behaviour of the model needs them.                    *)
(*                                                                         *)
(*   opbegin            Begin                                              *)
(*   dial ok            RouteConnect (a request leg) / DiscConnect         *)
(*   dial refused       RouteConnectRefused / DiscConnectRefused / next    *)
(*                      bootstrap address                                  *)
(*   cwrite (request)   RouteGrab / DiscGrab on an idle connection,        *)
(*                      ConnectDone handing a new connection to its caller *)
(*   req                Serve: the broker the connection leads to got the  *)
(*                      leg, at the negotiated version                     *)
(*   reply              Cut / ConnectFail when the frame is cut; the       *)
(*                      content of metadata answers = the model's cluster  *)
(*   opend              AwaitReturn / ServeFromCache / ReturnCancelled /   *)
(*                      RefreshDone, with the same outcome                 *)
(*   cancel, move, closeidle, cclose   Cancel, environment, CloseIdle,     *)
(*                      IdleExpire                                         *)
(***************************************************************************)
EXTENDS Integers, Sequences, FiniteSets, TLC, Json, IOUtils

Trace == ndJsonDeserialize(IOEnv.TRACE)

MaxO == 48
Brokers == 1 .. 5
Topics == {"t1", "t2", "t3"} \cup { "new-" \o ToString(o) : o \in 1 .. MaxO }
NParts == 2
Reqs == 1 .. MaxO
MaxConns == 40
Boot == {}
Cluster0 == [alive |-> {}, leader |-> << >>, coord |-> 0, txn |-> 0, ctrlr |-> 0, topics |-> {}]
VTab == << >>
CRange == << >>
Menu == << >>
MoveKinds == {"leader", "add", "addr", "remove", "topic", "coord", "txn", "ctrlr"}
MaxMoves == 1000000
MaxCancels == 1000000
MaxCuts == 1000000
MaxRefresh == 1000000
MaxExpire == 1000000
MaxCloseIdle == 1000000
Hist == TRUE
AnyConnId == TRUE
AtomicRelease == FALSE
Bug == "none"

VARIABLES cl, moves, snaps, pool, disc, conns, rq, sent, served, budget, cf, l, dialTo, replied, wrote, plan, over, eps
M == INSTANCE Transport
mvars == <<cl, moves, snaps, pool, disc, conns, rq, sent, served, budget, cf>>
tvars == <<cl, moves, snaps, pool, disc, conns, rq, sent, served, budget, cf, l, dialTo, replied, wrote, plan, over, eps>>

Range(s) == { s[i] : i \in DOMAIN s }
TPs == { <<t, p>> : t \in Topics, p \in 0 .. NParts - 1 }

TInit == M!Init /\ l = 1 /\ dialTo = << >> /\ replied = {} /\ wrote = {} /\ plan = << >> /\ over = TRUE /\ eps = << >>

VT(v) == [ b \in { v[i].b : i \in DOMAIN v } |->
            LET apis == v[CHOOSE i \in DOMAIN v : v[i].b = b].apis IN
            [ a \in { apis[k].api : k \in DOMAIN apis } |->
                LET x == apis[CHOOSE k \in DOMAIN apis : apis[k].api = a] IN <<x.min, x.max>> ] ]
CR(v) == [ a \in { v[k].api : k \in DOMAIN v } |-> LET x == v[CHOOSE k \in DOMAIN v : v[k].api = a] IN <<x.min, x.max>> ]
LeadersOf(ts, t, p) ==
  LET T == { i \in DOMAIN ts : ts[i].name = t } IN
  IF T = {} THEN 0 ELSE LET ls == ts[CHOOSE i \in T : TRUE].leaders IN IF p + 1 \in DOMAIN ls THEN ls[p + 1] ELSE 0

Reset(e) ==
  \* (a broker whose address refuses connections when the scenario starts joins the cluster when it comes up)
  /\ cl' = [alive |-> Range(e.alive) \ Range(e.down), coord |-> e.coord, txn |-> e.txn, ctrlr |-> e.ctrlr, ver |-> 1, addr |-> [b \in Brokers |-> 1],
            topics |-> { e.topics[i].name : i \in DOMAIN e.topics },
            leader |-> [tp \in TPs |-> LeadersOf(e.topics, tp[1], tp[2])]]
  /\ cf' = [boot |-> Range(e.boot), vtab |-> VT(e.vtab), crange |-> CR(e.crange),
            mt |-> [on |-> e.metaFiltered, names |-> Range(e.metaTopics)]]
  /\ moves' = << >> /\ snaps' = << >>
  /\ pool' = M!NoPool
  /\ disc' = M!NoDisc
  /\ conns' = [c \in 1 .. MaxConns |-> M!NoConn]
  /\ rq' = [r \in Reqs |-> M!NoReq]
  /\ sent' = << >> /\ served' = << >> /\ budget' = M!NoBudget
  /\ dialTo' = << >> /\ replied' = {} /\ wrote' = {} /\ plan' = e.ops /\ over' = FALSE /\ eps' = << >>

\* the address (host:port) behind generation g of broker b's address: what the journal's move events said
EpOf(b, g) == IF <<b, g>> \in DOMAIN eps THEN eps[<<b, g>>] ELSE "b" \o ToString(b) \o ":9092"

Keep == UNCHANGED <<dialTo, replied, wrote, plan, over, eps>>
Skip == UNCHANGED mvars /\ Keep
Fr == UNCHANGED cf

ApiOf(kind) ==
  CASE kind = "produce" -> "Produce" [] kind = "fetch" -> "Fetch" [] kind = "listoffsets" -> "ListOffsets"
    [] kind = "metadata" -> "Metadata" [] kind = "offsetcommit" -> "OffsetCommit" [] kind = "offsetfetch" -> "OffsetFetch"
    [] kind = "joingroup" -> "JoinGroup" [] kind = "heartbeat" -> "Heartbeat" [] kind = "findcoordinator" -> "FindCoordinator"
    [] kind = "createtopics" -> "CreateTopics" [] kind = "deletetopics" -> "DeleteTopics"
    [] kind = "initproducerid" -> "InitProducerId" [] kind = "addpartitionstotxn" -> "AddPartitionsToTxn"
    [] kind = "endtxn" -> "EndTxn" [] OTHER -> kind

\* the request descriptor of an application call
D(e) ==
  LET api == ApiOf(e.kind) IN
  CASE e.kind \in {"produce", "fetch"} -> [cls |-> "leader", api |-> api, tps |-> << <<e.t, e.p>> >>]
    [] e.kind = "listoffsets" -> [cls |-> "split", api |-> api, tps |-> [i \in DOMAIN e.parts |-> <<e.parts[i].t, e.parts[i].p>>]]
    [] e.kind = "metadata" -> [cls |-> "cache", api |-> api, names |-> e.names, all |-> e.all]
    [] e.kind \in {"offsetcommit", "offsetfetch", "joingroup", "heartbeat"} -> [cls |-> "coord", api |-> api]
    [] e.kind \in {"initproducerid", "addpartitionstotxn", "endtxn"} -> [cls |-> "txn", api |-> api]
    [] e.kind = "createtopics" -> [cls |-> "ctrlr", api |-> api, topic |-> "new-" \o ToString(e.o)]
    [] e.kind = "deletetopics" -> [cls |-> "ctrlr", api |-> api, topic |-> "new-" \o ToString(e.k)]
    [] OTHER -> [cls |-> "any", api |-> api]

PlanOf(o) == LET S == { i \in DOMAIN plan : plan[i].o = o } IN
             IF S = {} THEN [deadlineMs |-> 0] ELSE plan[CHOOSE i \in S : TRUE]

Legs == 1 .. 6
\* requests of the connection set-up (version negotiation, SASL): part of the model's Connect step
Setup == {"ApiVersions", "SaslHandshake", "SaslAuthenticate"}
\* calls in progress (quantifying over these instead of Reqs keeps the evaluation of a step cheap)
Active == { r \in Reqs : rq[r].pc \notin {"new", "done"} }
CurLeg(c) == M!LegsR(conns[c].cur[1])[conns[c].cur[2]]

\* The decision to connect is a silent step that precedes the dial made by the connecting goroutine. Journals number
\* the connections in dial order: the model's connection takes the number of the first coming dial (from the
\* current line on) to a broker of its group that no earlier decision has taken.
Window == l .. (IF Len(Trace) < l + 80 THEN Len(Trace) ELSE l + 80)
\* (several decisions for the same group may be pending: their dials can come in either order)
DialsFor(g) ==
  LET K == { k \in Window : /\ Trace[k].ev = "dial" /\ Trace[k].ok /\ conns[Trace[k].conn].st = "none"
                            /\ IF g = 0 THEN Trace[k].broker \in cf.boot
                                        ELSE Trace[k].broker = g /\ Trace[k].ep = EpOf(g, pool.gaddr[g]) }
      first == IF K = {} THEN 0 ELSE CHOOSE k \in K : \A j \in K : k <= j IN
  \* the first one, and any other that follows it before the first one's connection is used
  { k \in K : k <= first + 12 }
Refused(g) ==
  \E k \in Window : Trace[k].ev = "dial" /\ ~Trace[k].ok /\ (IF g = 0 THEN Trace[k].broker \in cf.boot ELSE Trace[k].broker = g)

\* the dial of a connection the model decided to open: connection ids are given in dial order on both sides
DialEv(e) ==
  IF e.ok
    THEN /\ e.conn \in DOMAIN conns /\ conns[e.conn].st = "connecting" /\ e.conn \notin DOMAIN dialTo
         /\ IF conns[e.conn].grp = 0 THEN e.broker \in cf.boot
               ELSE conns[e.conn].grp = e.broker /\ e.ep = EpOf(e.broker, conns[e.conn].ep)
         /\ dialTo' = (e.conn :> e.broker) @@ dialTo
         /\ UNCHANGED mvars /\ UNCHANGED <<replied, wrote, plan, over, eps>>
    ELSE Skip      \* refused: the leg fails (silent RouteConnectRefused), or the next bootstrap address is tried

\* the next request frame the journal shows on connection c (from the current line on): the hand-over of a
\* connection to a leg is a silent step that precedes the write of the frame by the connection's goroutine
NextApi(c) ==
  LET K == { k \in Window :
               Trace[k].ev = "cwrite" /\ Trace[k].conn = c /\ Trace[k].api \notin Setup } IN
  IF K = {} THEN "" ELSE Trace[CHOOSE k \in K : \A j \in K : k <= j].api

\* a request frame is written by the goroutine of the connection: the connection carries that leg
CWriteEv(e) ==
  LET c == e.conn IN
  IF e.api \in Setup THEN Skip
  ELSE /\ conns[c].st = "busy" /\ M!LegsR(conns[c].cur[1])[conns[c].cur[2]].api = e.api
       /\ conns[c].reqq # << >>
       /\ wrote' = wrote \cup {c}
       /\ UNCHANGED mvars /\ UNCHANGED <<dialTo, replied, plan, over, eps>>

\* a broker received a request: it is the broker the model's connection leads to, the leg is the one the
\* connection carries, the version is the negotiated one
ReqEv(e) ==
  LET c == e.conn IN
  IF e.api \in Setup THEN Skip
  ELSE /\ conns[c].reqq # << >>
       /\ Head(conns[c].reqq) = <<(IF e.api = "Metadata" THEN 0 ELSE e.o), e.leg>>
       /\ conns[c].peer = e.broker
       /\ M!Neg(c, e.api) = e.v
       \* (a version the fake cluster cannot answer: it drops the connection without executing the request)
       /\ IF e.unserved THEN M!Cut(c) ELSE M!Serve(c)
       /\ Fr /\ Keep

\* what the broker answered to a metadata request is the model's view of the cluster
SameView(e, v) ==
  /\ Range(e.alive) = v.alive /\ e.ctrlr = v.ctrlr
  /\ \A i \in DOMAIN e.addrs : e.addrs[i].ep = EpOf(e.addrs[i].b, v.addr[e.addrs[i].b])
  /\ { e.topics[i].name : i \in DOMAIN e.topics } = v.topics
  /\ \A i \in DOMAIN e.topics : \A p \in DOMAIN e.topics[i].leaders : e.topics[i].leaders[p] = v.leader[<<e.topics[i].name, p - 1>>]

ReplyEv(e) ==
  LET c == e.conn  failed == e.closed \/ e.cut >= 0 IN
  IF e.api \in Setup
    THEN IF failed THEN M!ConnectFail(c) /\ Fr /\ Keep
         ELSE replied' = replied \cup {c} /\ UNCHANGED mvars /\ UNCHANGED <<dialTo, wrote, plan, over, eps>>
    ELSE IF failed THEN (IF conns[c].cut THEN Skip ELSE M!Cut(c) /\ Fr /\ Keep)
    ELSE /\ e.api = "Metadata" => (conns[c].wire # << >> /\ SameView(e, conns[c].wire[Len(conns[c].wire)].meta))
         /\ replied' = replied \cup {c}
         /\ UNCHANGED mvars /\ UNCHANGED <<dialTo, wrote, plan, over, eps>>

MoveEv(e) ==
  IF e.kind = "readdress" /\ e.addrChanged
    THEN /\ M!Readdress(e.b) /\ Fr
         /\ eps' = (<<e.b, cl.addr[e.b] + 1>> :> e.ep) @@ eps
         /\ UNCHANGED <<dialTo, replied, wrote, plan, over>>
  ELSE
  /\ CASE e.kind = "leader" -> IF cl.leader[<<e.t, e.p>>] = e.to THEN UNCHANGED mvars ELSE M!LeaderMove(<<e.t, e.p>>, e.to) /\ Fr
       [] e.kind \in {"brokeradd", "up"} -> M!BrokerAdd(e.b) /\ Fr
       [] e.kind = "brokerremove" -> M!BrokerRemove(e.b, e.h) /\ Fr
       [] e.kind = "topiccreate" -> M!TopicCreateWith(e.t, [p \in 0 .. NParts - 1 |-> e.leaders[p + 1]]) /\ Fr
       [] e.kind \in {"coord", "txn", "ctrlr"} ->
            IF (e.kind = "coord" /\ cl.coord = e.to) \/ (e.kind = "txn" /\ cl.txn = e.to) \/ (e.kind = "ctrlr" /\ cl.ctrlr = e.to)
              THEN UNCHANGED mvars ELSE M!CoordinatorMove(e.kind, e.to) /\ Fr
       [] OTHER -> UNCHANGED mvars
  /\ Keep

Match(r, res, e) ==
  CASE res.kind = "ctxerr" -> e.result = "ctxerr"
    [] res.kind = "error" -> e.result \in {"ioError", "kafkaError"} \/ (e.result = "ctxerr" /\ rq[r].cancelled = "deadline")
    [] res.kind = "response" -> e.result = "response"
    [] OTHER -> FALSE

\* the metadata answer the application got is the one the model serves from the snapshot the call grabbed
SameMeta(e, res, d) ==
  LET got == [ i \in DOMAIN e.topics |-> [name |-> e.topics[i].name, err |-> e.topics[i].err,
                                           leaders |-> [p \in 0 .. Len(e.topics[i].leaders) - 1 |-> e.topics[i].leaders[p + 1]]] ] IN
  /\ e.result = "response"
  /\ IF d.all THEN Range(got) = res.topics /\ Len(got) = Cardinality(res.topics)
              ELSE /\ Len(got) = Len(res.topics)
                   /\ \A i \in DOMAIN got : got[i].name = res.topics[i].name /\ got[i].err = res.topics[i].err
                                             /\ (got[i].err = 0 => got[i].leaders = res.topics[i].leaders)

EndEv(e) ==
  LET r == e.o IN
  /\ \/ (M!AwaitReturn(r) /\ Match(r, rq'[r].result, e))
     \/ (M!ReturnCancelled(r) /\ Match(r, rq'[r].result, e))
     \/ (/\ M!ServeFromCache(r) /\ SameMeta(e, rq'[r].result, rq[r].d)
         /\ Range(e.brokers) = M!SnapOf(rq[r].snap).alive /\ e.ctrlr = M!SnapOf(rq[r].snap).ctrlr)
     \/ (M!RefreshDone(r) /\ rq'[r].pc = "done" /\ e.result = "response")
     \/ (M!GrabState(r) /\ rq'[r].pc = "done" /\ e.result \in {"ioError", "kafkaError"})
  /\ Fr /\ Keep

CCloseEv(e) ==
  LET c == e.conn IN
  IF c \notin DOMAIN conns THEN Skip
  ELSE IF conns[c].st = "idle" THEN M!IdleExpire(c) /\ Fr /\ Keep
  ELSE IF conns[c].st = "connecting" THEN M!ConnectFail(c) /\ Fr /\ Keep
  \* a metadata refresh that was not answered within one TTL: the discover loop gives up on the exchange
  ELSE IF conns[c].st = "busy" /\ conns[c].cur[1] = 0 /\ ~conns[c].cut THEN M!Cut(c) /\ Fr /\ Keep
  ELSE conns[c].st = "dead" /\ Skip

Step(e) ==
  IF e.ev = "cfg" THEN Reset(e)
  ELSE IF over THEN Skip
  ELSE CASE e.ev = "opbegin" -> M!BeginWith(e.o, D(e)) /\ Fr /\ Keep
         [] e.ev = "cancel" -> M!Cancel(e.o, "cancel") /\ Fr /\ Keep
         [] e.ev = "dial" -> DialEv(e)
         [] e.ev = "cwrite" -> CWriteEv(e)
         [] e.ev = "req" -> ReqEv(e)
         [] e.ev = "reply" -> ReplyEv(e)
         \* (a broker that re-registers under another id keeps its host name: the journal's dial events cannot be
         \* attributed to the new id; the rest of such a journal is left to the monitor)
         [] e.ev = "move" /\ e.kind = "renumber" -> UNCHANGED mvars /\ over' = TRUE /\ UNCHANGED <<dialTo, replied, wrote, plan, eps>>
         [] e.ev = "move" -> MoveEv(e)
         [] e.ev = "opend" -> EndEv(e)
         [] e.ev = "closeidle" -> M!CloseIdle /\ Fr /\ Keep
         [] e.ev = "cclose" -> CCloseEv(e)
         [] e.ev = "end" -> UNCHANGED mvars /\ over' = TRUE /\ UNCHANGED <<dialTo, replied, wrote, plan, eps>>
         [] OTHER -> Skip

\* Steps of the model that leave no mark in the journal.
\* Urgent ones are taken as soon as they are enabled, before anything else: they are internal to the library,
\* nothing observable can happen between their cause and them that they do not commute with (the client noticing
\* that a connection was lost, update() after the metadata answer was read, entering the refresh wait).
Urgent ==
  \/ \E c \in DOMAIN dialTo : \/ (c \in wrote /\ (conns[c].cut \/ conns[c].peerDown) /\ M!ExchangeFail(c))
                               \/ (conns[c].st = "connecting" /\ M!PeersOf(conns[c].grp) = {} /\ M!ConnectFail(c))
  \/ M!Update
  \/ \E r \in Active : M!AwaitRefresh(r)
  \* conn.run resolves the caller as soon as the answer is read: nothing observable depends on when (the caller's return
  \* is the journal's opend event, the release of the connection is a step of its own); not for the discover loop,
  \* whose update() may come late, nor for a call whose deadline may still win
  \/ \E c \in replied : /\ conns[c].st = "busy" /\ conns[c].cur[1] # 0
                        /\ rq[conns[c].cur[1]].cancelled # "deadline" /\ PlanOf(conns[c].cur[1]).deadlineMs = 0
                        /\ M!ExchangeOK(c)

Floating ==
  \/ \E r \in Active : \/ (M!GrabState(r) /\ rq'[r].pc = "run")
                        \/ M!Wake(r)
                        \/ (M!RefreshDone(r) /\ rq'[r].pc = "refresh")
                        \/ (rq[r].cancelled = "no" /\ PlanOf(r).deadlineMs > 0 /\ M!Cancel(r, "deadline"))
                        \/ \E i \in Legs : \/ M!RouteFail(r, i)
                                           \/ \E c \in DOMAIN dialTo : (M!RouteGrab(r, i, c) /\ NextApi(c) = rq[r].legs[i].api)
                                           \/ (/\ M!CanRoute(r, i) /\ M!Dest(r, i) >= 0
                                               /\ \E k \in DialsFor(M!Dest(r, i)) : M!RouteConnect(r, i, Trace[k].conn))
                                           \/ (/\ M!CanRoute(r, i) /\ M!Dest(r, i) >= 0 /\ Refused(M!Dest(r, i))
                                               /\ M!RouteConnectRefused(r, i))
  \/ \E c \in DOMAIN dialTo :
       \/ (c \in replied /\ M!ExchangeOK(c))
       \* releaseConn comes after the caller was resolved; it is taken when something needs it: a leg (or the discover
       \* loop) that is about to use this connection, or the journal closing it
       \/ (/\ conns[c].st = "releasing"
           /\ \/ Trace[l].ev = "cclose" /\ Trace[l].conn = c
              \/ conns[c].gclosed
              \/ NextApi(c) = "Metadata" /\ conns[c].grp = 0 /\ disc.pc = "sleep"
              \/ \E r \in Active, i \in Legs : M!CanRoute(r, i) /\ M!Dest(r, i) = conns[c].grp /\ NextApi(c) = rq[r].legs[i].api
           /\ M!Release(c))
       \/ (~(c \in wrote /\ (conns[c].cut \/ conns[c].peerDown)) /\ M!ExchangeFail(c))
       \/ (M!DiscGrab(c) /\ NextApi(c) = "Metadata")
       \* a metadata refresh the journal shows no answer for (the connection is closed first): it times out after one TTL
       \/ (/\ conns[c].st = "busy" /\ conns[c].cur[1] = 0 /\ c \in wrote /\ ~conns[c].cut
           /\ LET K == { k \in Window : Trace[k].ev \in {"reply", "cclose"} /\ Trace[k].conn = c } IN
                K # {} /\ Trace[CHOOSE k \in K : \A j \in K : k <= j].ev = "cclose"
           /\ M!Cut(c))
       \/ (/\ c \in replied /\ M!ConnectDone(c, dialTo[c])
           /\ conns'[c].st = "busy" => NextApi(c) = M!LegsR(conns'[c].cur[1])[conns'[c].cur[2]].api)
  \/ (\E k \in DialsFor(0) : M!DiscConnect(Trace[k].conn))
  \/ (Refused(0) /\ M!DiscConnectRefused)

SilentFrame ==
  /\ replied' = { c \in replied : conns'[c].st = "connecting" \/ (conns'[c].st = "busy" /\ conns'[c].wire # << >>) }
  /\ wrote' = { c \in wrote : conns'[c].st = "busy" }
  /\ Fr /\ UNCHANGED <<l, dialTo, plan, over, eps>>

TNext ==
  IF ~over /\ l <= Len(Trace) /\ Trace[l].ev # "cfg" /\ ENABLED Urgent
    THEN Urgent /\ SilentFrame
    ELSE \/ (l <= Len(Trace) /\ l' = l + 1 /\ Step(Trace[l]))
         \/ (l <= Len(Trace) /\ ~over /\ Floating /\ SilentFrame)
TSpec == TInit /\ [][TNext]_tvars

\* States that differ only in history (what finished calls did, which snapshots were applied long ago, what was sent,
\* which connections died how) have the same future: they are identified (VIEW), otherwise every choice TLC makes for
\* a silent step would be carried along to the end of the journal.
LiveSnaps == { rq[r].snap : r \in Active } \cup {Len(snaps)}
TView ==
  <<l, over, cl, cf, pool, disc, dialTo, replied, wrote, eps,
    [r \in Reqs |-> IF rq[r].pc \in {"new", "done"} THEN << rq[r].pc >> ELSE << rq[r] >>],
    [c \in DOMAIN dialTo |-> IF conns[c].st = "dead" THEN << "dead" >> ELSE << conns[c] >>],
    { c \in 1 .. MaxConns : conns[c].st = "connecting" },
    [n \in LiveSnaps \ {0} |-> snaps[n]]>>

\* the furthest line reached, and (for diagnosis) a summary of one model state that reached it
ASSUME TLCSet(1, 0) /\ TLCSet(2, << >>)
Summary == [idle |-> pool.idle, groups |-> pool.groups, disc |-> [pc |-> disc.pc, notify |-> disc.notify], nsnaps |-> Len(snaps),
            conns |-> [c \in DOMAIN dialTo |-> [st |-> conns[c].st, grp |-> conns[c].grp, peer |-> conns[c].peer, cur |-> conns[c].cur,
                                               reqq |-> conns[c].reqq, cut |-> conns[c].cut, nwire |-> Len(conns[c].wire)]],
            rq |-> [r \in { x \in Reqs : rq[x].pc \notin {"new", "done"} } |->
                      [pc |-> rq[r].pc, snap |-> rq[r].snap, cancelled |-> rq[r].cancelled,
                       legs |-> [i \in DOMAIN rq[r].legs |-> <<rq[r].legs[i].api, rq[r].legs[i].st, rq[r].legs[i].c>>]]],
            replied |-> replied]
HighWater == IF l > TLCGet(1) THEN TLCSet(1, l) /\ TLCSet(2, Summary) ELSE TRUE
TraceAccepted ==
  \/ TLCGet(1) = Len(Trace) + 1
  \/ ~PrintT(<<"DIVERGED_AT_LINE", TLCGet(1), Trace[TLCGet(1)]>>)
  \/ ~PrintT(<<"STATE_AT_DIVERGENCE", TLCGet(2)>>)
=============================================================================
