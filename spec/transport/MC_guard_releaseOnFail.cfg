SPECIFICATION Spec
CONSTANTS
 Brokers <- MC_Brokers
 Boot <- MC_Boot
 Topics <- MC_Topics
 NParts = 2
 Cluster0 <- MC_Cluster0
 VTab <- MC_VTabB
 CRange <- MC_CRange
 Reqs <- MC_Reqs2
 Menu <- MC_MenuQ2
 MaxConns = 4
 MaxMoves = 0
 MaxCancels = 1
 MaxCuts = 1
 MaxRefresh = 0
 MaxExpire = 1
 MaxCloseIdle = 0
 Hist = TRUE
 Bug = "releaseOnFail"
 AnyConnId = FALSE
 AtomicRelease = TRUE
 MoveKinds = {"leader", "add", "addr", "remove", "topic", "coord", "txn", "ctrlr"}
INVARIANTS TypeOK C12_Routing C12_Address C12_Version C12_FollowLeader C12_CacheFilter C06t_OwnResponse C06t_ReleaseOnlyAfterComplete C06t_NoReuseAfterFailure C09t_CancelPrompt C09t_ClosedPoolConnsClose
PROPERTIES C12_GrabIsLatest C06t_DeadStaysDead
CHECK_DEADLOCK FALSE
