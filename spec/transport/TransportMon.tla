---------------------------- MODULE TransportMon ----------------------------
(***************************************************************************)
(* Property monitor for journals of the real kafka.Transport / Client run  *)
(* against the multi-broker fake cluster (harness/transdrv).  Every event  *)
(* is judged when it is read; what is judged is observable from outside    *)
(* the library: which broker received which request at which version on    *)
(* which connection, what the brokers answered to the metadata requests of *)
(* the discover loop, what the application calls returned.                 *)
(*                                                                         *)
(* Which snapshot was "the latest applied" when a call was routed is not   *)
(* observable; it is bracketed: the discover loop sends its next metadata  *)
(* request only after update() applied the previous answer, so when call o *)
(* began with j metadata requests received so far, every answer to request *)
(* < j had been applied (lower bound), and a request received by a broker  *)
(* cannot have been routed with an answer sent later (upper bound).        *)
(***************************************************************************)
EXTENDS Integers, Sequences, FiniteSets, TLC, Json, IOUtils

Trace == ndJsonDeserialize(IOEnv.TRACE)

VARIABLES l, tid, kind, cfg, metas, nreq, poolStart, began, running, fc, moves, conn, ended, cutSeen, cancelled, doomed, asked, bad
mvars == <<l, tid, kind, cfg, metas, nreq, poolStart, began, running, fc, moves, conn, ended, cutSeen, cancelled, doomed, asked, bad>>

NoBad == [route |-> {}, version |-> {}, follow |-> {}, realtime |-> {}, refresh |-> {}, filter |-> {}, own |-> {},
          reuse |-> {}, pending |-> {}, cut |-> {}, nexterr |-> {}, hang |-> {}, late |-> {}, ctxerr |-> {}, leak |-> {}, split |-> {}]
NoCfg == [vtab |-> << >>, crange |-> << >>, ttlMs |-> 0, ops |-> << >>, boot |-> << >>]

Init == /\ l = 1 /\ tid = "" /\ kind = "" /\ cfg = NoCfg /\ metas = << >> /\ nreq = 0 /\ poolStart = 0
        /\ began = << >> /\ running = {} /\ fc = << >> /\ moves = << >> /\ conn = << >> /\ ended = << >>
        /\ cutSeen = {} /\ cancelled = << >> /\ doomed = {} /\ asked = << >> /\ bad = NoBad

Max(a, b) == IF a >= b THEN a ELSE b
Min(a, b) == IF a <= b THEN a ELSE b
Range(s) == { s[i] : i \in DOMAIN s }
LeaderApis == {"Produce", "Fetch", "ListOffsets"}
CtrlrApis == {"CreateTopics", "DeleteTopics"}
GroupApis == {"OffsetCommit", "OffsetFetch", "JoinGroup", "Heartbeat", "SyncGroup", "LeaveGroup", "DescribeGroups"}
TxnApis == {"InitProducerId", "AddPartitionsToTxn", "AddOffsetsToTxn", "EndTxn"}
CoordApis == GroupApis \cup TxnApis
SplitApis == {"ListOffsets", "DescribeGroups", "ListGroups"}
\* the partitions / group ids a request names
PartsOf(e) == IF e.parts # << >> THEN e.parts ELSE << [t |-> e.t, p |-> e.p] >>
KeysOf(e) == IF e.groups # << >> THEN Range(e.groups) ELSE {e.key}
TPName(q) == q.t \o "/" \o ToString(q.p)
\* what a sub-request of a split call asks about: partitions, groups, or (ListGroups) the broker itself
ItemsOf(e) == IF e.api = "ListOffsets" THEN [k \in DOMAIN PartsOf(e) |-> TPName(PartsOf(e)[k])]
              ELSE IF e.api = "DescribeGroups" THEN e.groups
              ELSE << ToString(e.broker) >>
SlackMs == cfg.ttlMs * 3 + 2000

PlanOf(o) == LET S == { i \in DOMAIN cfg.ops : cfg.ops[i].o = o } IN
             IF S = {} THEN [o |-> o, kind |-> "", fault |-> [cut |-> -1, hold |-> FALSE, leg |-> 0], cancelAfterMs |-> 0, deadlineMs |-> 0, expectCtx |-> FALSE,
                                 mustSucceed |-> FALSE, all |-> FALSE, names |-> << >>, parts |-> << >>, groups |-> << >>]
             ELSE cfg.ops[CHOOSE i \in S : TRUE]

\* the version ranges broker b advertised for an api: <<min, max>> or << >>
BRange(b, api) ==
  LET B == { i \in DOMAIN cfg.vtab : cfg.vtab[i].b = b } IN
  IF B = {} THEN << >> ELSE
  LET apis == cfg.vtab[CHOOSE i \in B : TRUE].apis
      A == { i \in DOMAIN apis : apis[i].api = api } IN
  IF A = {} THEN << >> ELSE LET a == apis[CHOOSE i \in A : TRUE] IN <<a.min, a.max>>
CRangeOf(api) ==
  LET A == { i \in DOMAIN cfg.crange : cfg.crange[i].api = api } IN
  IF A = {} THEN << >> ELSE LET a == cfg.crange[CHOOSE i \in A : TRUE] IN <<a.min, a.max>>

\* the snapshots call o may have been routed with, given it is observed at the current event
Cand(o) ==
  LET j == IF o \in DOMAIN began THEN began[o].nreq ELSE 0
      ok == { i \in DOMAIN metas : metas[i].ok /\ i > poolStart }
      low == { i \in ok : metas[i].n < j }
      lo == IF low = {} THEN 0 ELSE CHOOSE i \in low : \A k \in low : k <= i IN
  { i \in ok : i >= lo }

LeaderIn(m, t, p) ==
  LET T == { i \in DOMAIN m.topics : m.topics[i].name = t } IN
  IF T = {} THEN -1 ELSE
  LET ls == m.topics[CHOOSE i \in T : TRUE].leaders IN
  IF p + 1 \in DOMAIN ls THEN ls[p + 1] ELSE -1

\* filterMetadataResponse applied to what the brokers answered
TopicIn(m, name) ==
  LET T == { i \in DOMAIN m.topics : m.topics[i].name = name } IN
  IF T = {} THEN [name |-> name, err |-> 3, leaders |-> << >>]
  ELSE [name |-> name, err |-> 0, leaders |-> m.topics[CHOOSE i \in T : TRUE].leaders]
FilterOf(plan, m) ==
  IF plan.all THEN [ i \in DOMAIN m.topics |-> [name |-> m.topics[i].name, err |-> 0, leaders |-> m.topics[i].leaders] ]
  ELSE [ i \in DOMAIN plan.names |-> TopicIn(m, plan.names[i]) ]
SameTopics(a, b) ==
  /\ Len(a) = Len(b)
  /\ \A i \in DOMAIN a : a[i].name = b[i].name /\ a[i].err = b[i].err /\ a[i].leaders = b[i].leaders

\* the last change of the leader of (t, p) before call o began
LastMove(o, t, p) ==
  LET M == { i \in DOMAIN moves : moves[i].t = t /\ moves[i].p = p /\ (o \in DOMAIN began => moves[i].pos < began[o].pos) } IN
  IF M = {} THEN 0 ELSE CHOOSE i \in M : \A k \in M : k <= i

\* the address (host:port) a metadata answer advertises for broker b
AddrIn(m, b) ==
  LET A == { i \in DOMAIN m.addrs : m.addrs[i].b = b } IN
  IF A = {} THEN "" ELSE m.addrs[CHOOSE i \in A : TRUE].ep

Key(e) == [tid |-> tid, o |-> e.o, api |-> e.api, broker |-> e.broker, ep |-> e.ep, v |-> e.v, conn |-> e.conn, corr |-> e.corr]

-----------------------------------------------------------------------------
ReqBad(e) ==
  LET o == e.o
      cand == Cand(o)
      \* Routing is judged by endpoints, which is what the client dials: the endpoint that received the request must
      \* be the address that some snapshot the call may have been routed with (or a later one applied before the
      \* request was written) advertises for the broker id that the same snapshot designates for the request.
      \* A broker that has moved away (another leader, or the same id at a new address) is the wrong endpoint.
      routeBad ==
        IF o <= 0 THEN FALSE
        \* (every partition the request names: a sub-request of a split call must only carry partitions of this broker)
        ELSE IF e.api \in LeaderApis
          THEN \A i \in cand : \E k \in DOMAIN PartsOf(e) : AddrIn(metas[i], LeaderIn(metas[i], PartsOf(e)[k].t, PartsOf(e)[k].p)) # e.ep
        ELSE IF e.api \in CtrlrApis THEN \A i \in cand : AddrIn(metas[i], metas[i].ctrlr) # e.ep
        \* coordinator requests: the broker their own FindCoordinator answered, and that look-up asked for the right
        \* kind of coordinator (key type 0 = group, 1 = transaction; FindCoordinator v0 has no key type)
        ELSE IF e.api \in CoordApis
          THEN ~(\A key \in KeysOf(e) :
                   /\ key \in DOMAIN fc
                   /\ \E i \in cand : AddrIn(metas[i], fc[key].node) = e.ep
                   /\ fc[key].v >= 1 => fc[key].keytype = (IF e.api \in TxnApis THEN 1 ELSE 0))
        ELSE FALSE
      addrBad == FALSE
      br == BRange(e.broker, e.api)
      cr == CRangeOf(e.api)
      versionBad ==
        /\ o >= 0 /\ br # << >> /\ cr # << >>
        /\ Max(cr[1], br[1]) <= Min(cr[2], br[2])
        /\ ~(e.v = Min(cr[2], br[2]) /\ e.v >= br[1] /\ e.v <= br[2])
      m == IF e.api \in LeaderApis /\ o > 0 THEN LastMove(o, e.t, e.p) ELSE 0
      \* every snapshot the call may have used was asked for after the move
      followBad == m # 0 /\ cand # {} /\ (\A i \in cand : metas[i].n > moves[m].reqn) /\ e.broker # moves[m].to
      realtimeBad == m # 0 /\ o \in DOMAIN began /\ began[o].ts - moves[m].ts > SlackMs /\ e.broker # moves[m].to
  IN [bad EXCEPT !.route = IF routeBad \/ addrBad THEN @ \cup {Key(e)} ELSE @,
                 !.version = IF versionBad THEN @ \cup {Key(e)} ELSE @,
                 !.follow = IF followBad THEN @ \cup {Key(e)} ELSE @,
                 !.realtime = IF realtimeBad THEN @ \cup {Key(e)} ELSE @]

NoC == [broker |-> 0, pend |-> 0, failed |-> FALSE, ep |-> "", closed |-> FALSE]
C(c) == IF c \in DOMAIN conn THEN conn[c] ELSE NoC

EndBad(e) ==
  LET o == e.o
      plan == PlanOf(o)
      cand == Cand(o)
      filterBad ==
        /\ plan.kind = "metadata" /\ e.result = "response"
        /\ ~\E i \in cand : /\ SameTopics(e.topics, FilterOf(plan, metas[i]))
                            /\ e.brokers = metas[i].alive /\ e.ctrlr = metas[i].ctrlr
      ownBad == e.result = "response" /\ e.code = 0 /\ ~e.own
      cutBad == o \in cutSeen /\ e.result = "response" /\ e.code = 0
      nextBad == plan.mustSucceed /\ o \notin cutSeen /\ ~(e.result = "response" /\ e.own)
      \* a call the Transport splits: every partition / group / broker is asked about at most once, and exactly once
      \* (each of its leader, which the routing clause judges) when the call succeeded completely
      items == IF o \in DOMAIN asked THEN asked[o] ELSE << >>
      dup == \E i, j \in DOMAIN items : i # j /\ items[i] = items[j]
      complete ==
        IF plan.kind = "listoffsets" THEN Range(items) = { TPName(plan.parts[k]) : k \in DOMAIN plan.parts }
        ELSE IF plan.kind = "describegroups" THEN Range(items) = Range(plan.groups)
        ELSE \E i \in cand : Range(items) = { ToString(metas[i].alive[k]) : k \in DOMAIN metas[i].alive }
      splitBad == /\ plan.kind \in {"listoffsets", "describegroups", "listgroups"}
                  /\ dup \/ (e.result = "response" /\ e.code = 0 /\ ~complete)
      hangBad == e.result \in {"hang", "panic"}
      ctxEnded == o \in DOMAIN cancelled \/ plan.deadlineMs > 0
      lateBad == ctxEnded /\ e.sinceCancelMs > 5000
      \* the response was held back until after the call returned: only the context can have ended the call
      \* (a request split into several legs may instead return what the answered legs brought, the partitions of the
      \* others marked with an error: Client.ListOffsets over several partitions)
      partial == plan.kind = "listoffsets" /\ Len(plan.parts) > 1 /\ e.result = "response" /\ e.code # 0
      ctxBad == ctxEnded /\ (plan.fault.hold \/ plan.expectCtx) /\ e.result # "ctxerr" /\ ~partial
      k == [tid |-> tid, o |-> o, kind |-> e.kind, result |-> e.result, code |-> e.code]
  IN [bad EXCEPT !.filter = IF filterBad THEN @ \cup {k} ELSE @,
                 !.own = IF ownBad THEN @ \cup {k} ELSE @,
                 !.cut = IF cutBad THEN @ \cup {k} ELSE @,
                 !.nexterr = IF nextBad THEN @ \cup {k} ELSE @,
                 !.hang = IF hangBad THEN @ \cup {k} ELSE @,
                 !.split = IF splitBad THEN @ \cup {k} ELSE @,
                 !.late = IF lateBad THEN @ \cup {k} ELSE @,
                 !.ctxerr = IF ctxBad THEN @ \cup {k} ELSE @]

Same == UNCHANGED <<tid, kind, cfg, metas, nreq, poolStart, began, running, fc, moves, conn, ended, cutSeen, cancelled, doomed, asked, bad>>

Upd(e) ==
  CASE e.ev = "cfg" ->
         /\ tid' = e.id /\ kind' = e.kind
         /\ cfg' = [vtab |-> e.vtab, crange |-> e.crange, ttlMs |-> e.ttlMs, ops |-> e.ops, boot |-> e.boot]
         /\ metas' = << >> /\ nreq' = 0 /\ poolStart' = 0 /\ began' = << >> /\ running' = {} /\ fc' = << >>
         /\ moves' = << >> /\ conn' = << >> /\ ended' = << >> /\ cutSeen' = {} /\ cancelled' = << >>
         /\ doomed' = {} /\ asked' = << >> /\ bad' = NoBad
    [] e.ev = "opbegin" ->
         /\ began' = (e.o :> [pos |-> l, nreq |-> nreq, ts |-> e.ts]) @@ began
         /\ running' = running \cup {e.o}
         /\ UNCHANGED <<tid, kind, cfg, metas, nreq, poolStart, fc, moves, conn, ended, cutSeen, cancelled, bad, doomed, asked>>
    [] e.ev = "dial" ->
         /\ conn' = IF e.ok THEN (e.conn :> [NoC EXCEPT !.broker = e.broker, !.ep = e.ep]) @@ conn ELSE conn
         /\ UNCHANGED <<tid, kind, cfg, metas, nreq, poolStart, began, running, fc, moves, ended, cutSeen, cancelled, bad, doomed, asked>>
    [] e.ev = "cwrite" ->
         \* C06t: a request is written on a connection only when every earlier exchange on it completed
         /\ bad' = [bad EXCEPT !.reuse = IF C(e.conn).failed THEN @ \cup {[tid |-> tid, conn |-> e.conn, api |-> e.api, corr |-> e.corr]} ELSE @,
                               !.pending = IF C(e.conn).pend > 0 THEN @ \cup {[tid |-> tid, conn |-> e.conn, api |-> e.api, corr |-> e.corr]} ELSE @]
         /\ conn' = (e.conn :> [C(e.conn) EXCEPT !.pend = @ + 1]) @@ conn
         /\ UNCHANGED <<tid, kind, cfg, metas, nreq, poolStart, began, running, fc, moves, ended, cutSeen, cancelled, doomed, asked>>
    [] e.ev = "req" ->
         /\ nreq' = IF e.api = "Metadata" THEN e.n ELSE nreq
         /\ asked' = IF e.api \in SplitApis /\ e.o > 0
                        THEN (e.o :> ((IF e.o \in DOMAIN asked THEN asked[e.o] ELSE << >>) \o ItemsOf(e))) @@ asked
                        ELSE asked
         /\ bad' = ReqBad(e)
         /\ UNCHANGED <<tid, kind, cfg, metas, poolStart, began, running, fc, moves, conn, ended, cutSeen, cancelled, doomed>>
    [] e.ev = "reply" ->
         LET failed == e.closed \/ e.cut >= 0 IN
         /\ metas' = IF e.api = "Metadata"
                       THEN Append(metas, [n |-> e.n, ok |-> ~failed, alive |-> e.alive, ctrlr |-> e.ctrlr, topics |-> e.topics, addrs |-> e.addrs, pos |-> l])
                       ELSE metas
         /\ fc' = IF e.api = "FindCoordinator" /\ ~failed /\ e.o > 0 THEN (e.key :> [node |-> e.node, keytype |-> e.keytype, v |-> e.v]) @@ fc ELSE fc
         /\ conn' = (e.conn :> [C(e.conn) EXCEPT !.pend = IF failed THEN @ ELSE Max(0, @ - 1), !.failed = @ \/ failed]) @@ conn
         \* which call loses its response: the one the request belongs to, or (connection set-up) the only one running
         /\ cutSeen' = IF ~failed THEN cutSeen
                       ELSE IF e.o > 0 THEN cutSeen \cup {e.o}
                       ELSE IF e.api = "ApiVersions" /\ Cardinality(running) = 1 THEN cutSeen \cup running
                       ELSE cutSeen
         /\ UNCHANGED <<tid, kind, cfg, nreq, poolStart, began, running, moves, ended, cancelled, bad, doomed, asked>>
    [] e.ev = "peerclosed" ->
         \* the broker end went away while an exchange was in progress: that exchange failed
         /\ conn' = (e.conn :> [C(e.conn) EXCEPT !.failed = @ \/ (C(e.conn).pend > 0)]) @@ conn
         /\ UNCHANGED <<tid, kind, cfg, metas, nreq, poolStart, began, running, fc, moves, ended, cutSeen, cancelled, bad, doomed, asked>>
    [] e.ev = "move" ->
         /\ moves' = IF e.kind = "leader" THEN Append(moves, [t |-> e.t, p |-> e.p, to |-> e.to, reqn |-> e.reqn, ts |-> e.ts, pos |-> l])
                     ELSE IF e.kind = "brokerremove"
                       THEN moves \o [ i \in DOMAIN e.leaders |-> [t |-> e.leaders[i].t, p |-> e.leaders[i].p, to |-> e.h, reqn |-> e.reqn, ts |-> e.ts, pos |-> l] ]
                     ELSE moves
         \* a broker (not a bootstrap one: its connections are all of its own group) re-registers with another address:
         \* the connection group bound to the old address is closed by the refresh that reports it
         /\ doomed' = IF e.kind = "readdress" /\ e.addrChanged /\ e.b \notin Range(cfg.boot)
                         THEN doomed \cup { c \in DOMAIN conn : conn[c].broker = e.b /\ conn[c].ep # e.ep }
                         ELSE doomed
         /\ UNCHANGED <<tid, kind, cfg, metas, nreq, poolStart, began, running, fc, conn, ended, cutSeen, cancelled, bad, asked>>
    [] e.ev = "refreshed" ->
         /\ bad' = [bad EXCEPT !.refresh = IF ~e.ok THEN @ \cup {[tid |-> tid, sinceMoveMs |-> e.sinceMoveMs, boundMs |-> e.boundMs]} ELSE @]
         /\ UNCHANGED <<tid, kind, cfg, metas, nreq, poolStart, began, running, fc, moves, conn, ended, cutSeen, cancelled, doomed, asked>>
    [] e.ev = "closeidle" ->
         /\ poolStart' = Len(metas)
         \* the pool is dropped: every connection it opened is to be closed, at the latest when its exchange is over
         /\ doomed' = doomed \cup DOMAIN conn
         /\ UNCHANGED <<tid, kind, cfg, metas, nreq, began, running, fc, moves, conn, ended, cutSeen, cancelled, bad, asked>>
    [] e.ev = "cancel" ->
         /\ cancelled' = (e.o :> l) @@ cancelled
         /\ UNCHANGED <<tid, kind, cfg, metas, nreq, poolStart, began, running, fc, moves, conn, ended, cutSeen, bad, doomed, asked>>
    [] e.ev = "opend" ->
         /\ ended' = (e.o :> [result |-> e.result, code |-> e.code, own |-> e.own]) @@ ended
         /\ running' = running \ {e.o}
         /\ bad' = EndBad(e)
         /\ UNCHANGED <<tid, kind, cfg, metas, nreq, poolStart, began, fc, moves, conn, cutSeen, cancelled, doomed, asked>>
    [] e.ev = "cclose" ->
         /\ conn' = IF e.conn \in DOMAIN conn THEN (e.conn :> [conn[e.conn] EXCEPT !.closed = TRUE]) @@ conn ELSE conn
         /\ UNCHANGED <<tid, kind, cfg, metas, nreq, poolStart, began, running, fc, moves, ended, cutSeen, cancelled, doomed, asked, bad>>
    [] e.ev = "census" ->
         \* taken after every call returned, every held answer was released and things had time to settle
         /\ bad' = [bad EXCEPT !.leak = @ \cup { [tid |-> tid, conn |-> c, kind |-> "connection-left-open", broker |-> conn[c].broker, ep |-> conn[c].ep] :
                                                c \in { x \in doomed : ~conn[x].closed } }]
         /\ UNCHANGED <<tid, kind, cfg, metas, nreq, poolStart, began, running, fc, moves, conn, ended, cutSeen, cancelled, doomed, asked>>
    [] e.ev = "end" ->
         \* one line per journal with everything that was found in it (read by the engine when an invariant failed,
         \* so that every violation of every journal is reported, not only the first one TLC stops at)
         /\ PrintT("VERDICT " \o ToJson([tid |-> tid, bad |-> bad]))
         /\ Same
    [] OTHER -> Same

Next == l <= Len(Trace) /\ l' = l + 1 /\ Upd(Trace[l])
Spec == Init /\ [][Next]_mvars

-----------------------------------------------------------------------------
\* C12
C12_Routing == bad.route = {}
C12_Version == bad.version = {}
C12_FollowLeader == bad.follow = {}
C12_FollowLeaderRealTime == bad.realtime = {}
C12_RefreshWithinTTL == bad.refresh = {}
C12_CacheFilter == bad.filter = {}
\* calls nothing is wrong with (the cluster is reachable and its metadata has been loaded) return their own answer:
\* Metadata from the cache, routed calls from the right broker
C12_HealthyCallSucceeds == bad.nexterr = {}
C12_SplitComplete == bad.split = {}
\* C06 (Transport part)
C06t_OwnResponse == bad.own = {}
C06t_NoReuseAfterFailure == bad.reuse = {}
C06t_ReleaseOnlyAfterComplete == bad.pending = {}
\* C17 (Transport part)
C17t_CutIsError == bad.cut = {}
\* a call that nothing is wrong with (after a cut / an abandoned call / a failed exchange) returns its own response
C17t_NextCallSucceeds == bad.nexterr = {}
C17t_NoPanicNoHang == bad.hang = {}
\* C09 (Transport part)
C09t_CancelPrompt == bad.late = {} /\ bad.hang = {}
C09t_ContextError == bad.ctxerr = {}
\* a connection of a pool / connection group that was closed is closed once its in-flight exchange is over
C09t_ClosedPoolConnsClose == bad.leak = {}

TraceAccepted == TLCGet("stats").diameter = Len(Trace) + 1
=============================================================================
