------------------------------ MODULE Transport ------------------------------
(***************************************************************************)
(* kafka.Transport / connPool (transport.go): message-type driven routing  *)
(* on a cached metadata snapshot, version negotiation per connection, the  *)
(* pool of connections (one exchange at a time per connection), the        *)
(* discover loop, cancellation of round trips, and the cluster as the      *)
(* environment.                                                            *)
(*                                                                         *)
(* Request 0 is the discover loop (it uses the control connection group    *)
(* like any other "any broker" request).  A request is a sequence of legs: *)
(*   leader class    : one leg to the leader of its partition              *)
(*   split class     : one leg per partition (ListOffsets), merged         *)
(*   coord/txn class : FindCoordinator on the control group, then the      *)
(*                     request itself to the broker that was answered      *)
(*   ctrlr class     : one leg to the controller (then a forced refresh    *)
(*                     for CreateTopics)                                   *)
(*   any class       : one leg on the control group                        *)
(*   cache class     : Metadata, answered from the snapshot                *)
(* "Route" of DESIGN 6.5 is folded into RouteGrab / RouteConnect /         *)
(* RouteFail: the destination is a function (Dest) of the snapshot the     *)
(* request grabbed and, for coordinator legs, of the answer of the         *)
(* preceding FindCoordinator leg.  The negotiated version table of a       *)
(* connection is the function Neg(c, api) of the broker it is connected to.*)
(*                                                                         *)
(* Bug # "none" switches one seeded defect on; the MC_guard_* configs      *)
(* require TLC to reject each of them (vacuity guards).                    *)
(***************************************************************************)
EXTENDS Integers, Sequences, FiniteSets, TLC

CONSTANTS
  Brokers,      \* broker ids that may ever exist (naturals >= 1)
  Boot,         \* brokers behind the bootstrap address (control connection group)
  Topics,       \* topic names that may ever exist
  NParts,       \* partitions per topic: 0 .. NParts - 1
  Cluster0,     \* initial cluster [alive, leader, coord, txn, ctrlr, topics]
  VTab,         \* VTab[b][api] = <<min, max>> advertised by broker b; api absent: not advertised
  CRange,       \* CRange[api] = <<min, max>> implemented by the client
  Reqs,         \* request ids (naturals >= 1)
  Menu,         \* Menu[r]: set of request descriptors r may be
  MoveKinds,    \* which changes of the cluster the environment may make: subset of {"leader","add","addr","remove","topic","coord","txn","ctrlr"}
  MaxConns, MaxMoves, MaxCancels, MaxCuts, MaxRefresh, MaxExpire, MaxCloseIdle,
  AnyConnId,    \* FALSE: connections are numbered in the order they are opened (model checking); TRUE: any free number
                \* (journals number them in dial order, which may differ from the order of the decisions to connect)
  AtomicRelease,\* TRUE: resolving the caller and releasing the connection are one step (smaller state space); FALSE: two
                \* steps, as in conn.run (the caller may return, and route its next request, before releaseConn)
  Hist,         \* TRUE: keep every applied snapshot and dead connections (safety); FALSE: liveness configs
  Bug

VARIABLES
  cl,      \* the cluster: [alive, leader, coord, txn, ctrlr, topics, ver]
  moves,   \* history of leader changes: sequence of [tp, to, at]
  snaps,   \* snapshots applied by update, in order (index = serial number)
  pool,    \* [ready, err, base, groups, idle]  idle[g] = stack of idle connections of group g (0 = control)
  disc,    \* discover loop: [pc, first, notify, ok, meta]  pc in {"sleep", "conn", "sent", "got"}
  conns,   \* c -> [st, grp, peer, cur, reqq (requests written, not yet answered), wire (answers not yet read),
           \*       cut, failed, gclosed, peerDown]
  rq,      \* r -> [pc, d, snap, cancelled, result, legs]
  sent,    \* history: every leg that reached a broker
  served,  \* history: metadata answers served from the cache
  budget,  \* [moves, cancels, cuts, refresh, expire, closeidle] used so far
  cf       \* configuration of the scenario: [boot, vtab, crange, mt (Transport.MetadataTopics)], constant within a behaviour

vars == <<cl, moves, snaps, pool, disc, conns, rq, sent, served, budget, cf>>

Parts == 0 .. NParts - 1
TPs == { <<t, p>> : t \in Topics, p \in Parts }
Conns == 1 .. MaxConns
Groups == {0} \cup Brokers
AllReqs == {0} \cup Reqs
Max(a, b) == IF a >= b THEN a ELSE b
Min(a, b) == IF a <= b THEN a ELSE b
Last(s) == s[Len(s)]
Range(s) == { s[i] : i \in DOMAIN s }
\* the elements of a finite set of integers in increasing order
SetToSeqBy(X) == CHOOSE f \in [1 .. Cardinality(X) -> X] : \A x, y \in 1 .. Cardinality(X) : x < y => f[x] < f[y]
SetToSeq(X) == CHOOSE f \in [1 .. Cardinality(X) -> X] : \A x, y \in 1 .. Cardinality(X) : x # y => f[x] # f[y]

-----------------------------------------------------------------------------
(* version selection: protocol.ApiKey.SelectVersion and transport.go connect *)
Overlap(c, b) == Max(c[1], b[1]) <= Min(c[2], b[2])
Select(api, b) ==
  IF b \notin DOMAIN cf.vtab \/ api \notin DOMAIN cf.vtab[b] THEN 0       \* not advertised: the zero value of the map
  ELSE LET br == cf.vtab[b][api]  cr == cf.crange[api] IN
       IF Bug = "clientMax" THEN cr[2]
       ELSE IF cr[1] > br[2] THEN cr[1]                   \* broker too old: no common version
       ELSE IF cr[2] < br[2] THEN cr[2]
       ELSE br[2]
Neg(c, api) == Select(api, conns[c].peer)

(* the view of the cluster a metadata response carries *)
Asked(c) == IF cf.mt.on THEN c.topics \cap cf.mt.names ELSE c.topics
\* (addr[b]: the address -- host, port -- broker b advertises, as a generation number: it changes when the broker
\* re-registers under the same id with another address)
View(c) == [alive |-> c.alive, ctrlr |-> c.ctrlr, topics |-> Asked(c), ver |-> c.ver, addr |-> [b \in c.alive |-> c.addr[b]],
            leader |-> [tp \in { x \in TPs : x[1] \in Asked(c) } |-> c.leader[tp]]]
NoSnap == [alive |-> {}, ctrlr |-> 0, topics |-> {}, ver |-> 0, addr |-> << >>, leader |-> << >>]
SnapOf(n) == IF n \in DOMAIN snaps THEN snaps[n] ELSE NoSnap
Latest == Len(snaps)

(* filterMetadataResponse: one entry per requested name, in request order; without a filter: every cached topic *)
Entry(snap, t) == [name |-> t, err |-> 0, leaders |-> [p \in Parts |-> snap.leader[<<t, p>>]]]
AllOf(snap) == { Entry(snap, t) : t \in snap.topics }
Filter(names, snap) ==
  IF Bug = "filterAll" THEN [ i \in 1 .. Cardinality(snap.topics) |-> "*" ]    \* every cached topic
  ELSE [ i \in DOMAIN names |->
           IF names[i] \in snap.topics
             THEN [name |-> names[i], err |-> 0,
                   leaders |-> [p \in Parts |-> snap.leader[<<names[i], p>>]]]
             ELSE [name |-> names[i], err |-> 3, leaders |-> << >>] ]

-----------------------------------------------------------------------------
(* request descriptors and legs *)
Leg(api, cls, tp) == [api |-> api, cls |-> cls, tp |-> tp, st |-> "todo", c |-> 0, resp |-> << >>]
NoTP == <<"", 0>>
LegsOf(d) ==
  CASE d.cls = "leader" -> << Leg(d.api, "leader", d.tps[1]) >>
    [] d.cls = "split"  -> [ i \in DOMAIN d.tps |-> Leg(d.api, "leader", d.tps[i]) ]
    [] d.cls = "coord"  -> << Leg("FindCoordinator", "any", NoTP), Leg(d.api, "coord", NoTP) >>
    [] d.cls = "txn"    -> << Leg("FindCoordinator", "any", NoTP), Leg(d.api, "txn", NoTP) >>
    [] d.cls = "ctrlr"  -> << Leg(d.api, "ctrlr", NoTP) >>
    [] d.cls = "any"    -> << Leg(d.api, "any", NoTP) >>
    [] OTHER            -> << >>

MetaLeg == Leg("Metadata", "any", NoTP)
LegsR(r) == IF r = 0 THEN << MetaLeg >> ELSE rq[r].legs

(* the broker a leg must go to: 0 = control group, -1 = nowhere (the call fails) *)
Designated(snap, l, prev) ==
  CASE l.cls = "leader" ->
         IF l.tp \in DOMAIN snap.leader /\ snap.leader[l.tp] \in snap.alive THEN snap.leader[l.tp] ELSE -1
    [] l.cls = "ctrlr" -> IF snap.ctrlr \in snap.alive THEN snap.ctrlr ELSE -1
    [] l.cls \in {"coord", "txn"} -> IF prev.st = "ok" THEN prev.resp.node ELSE -1
    [] OTHER -> 0
\* what sendRequest computes (Designated, unless a defect is seeded)
Routed(snap, l, prev) ==
  CASE Bug = "firstBroker" /\ l.cls = "leader" /\ snap.alive # {} -> CHOOSE b \in snap.alive : \A x \in snap.alive : b <= x
    [] Bug = "groupToController" /\ l.cls \in {"coord", "txn"} -> snap.ctrlr
    [] OTHER -> Designated(snap, l, prev)
Dest(r, i) ==
  LET ls == rq[r].legs IN
  \* (seeded defect: every sub-request of a split call carries the whole request, which is routed by its first partition)
  IF Bug = "splitWholeToFirst" /\ rq[r].d.cls = "split" THEN Designated(SnapOf(rq[r].snap), ls[1], ls[1])
  ELSE Routed(SnapOf(rq[r].snap), ls[i], IF i > 1 THEN ls[i - 1] ELSE ls[i])

Handed(l) == l.st \in {"sent", "ok", "fail"}
\* sendRequest is called leg after leg by the calling goroutine (each call returns once the request is handed to a
\* connection). The legs of a split request are built topic by topic, the topics in the iteration order of a Go
\* map (any order), the partitions of a topic in the order given. A coordinator leg waits for the answer of its
\* FindCoordinator leg.
CanRoute(r, i) ==
  LET ls == rq[r].legs IN
  /\ i \in DOMAIN ls /\ ls[i].st = "todo"
  /\ \A j \in DOMAIN ls : ls[j].st # "wait"
  /\ IF rq[r].d.cls = "split"
       THEN /\ \A j \in 1 .. i - 1 : ls[j].tp[1] = ls[i].tp[1] => Handed(ls[j])
            /\ \A j \in DOMAIN ls : ls[j].tp[1] # ls[i].tp[1] =>
                  \/ \A k \in DOMAIN ls : ls[k].tp[1] = ls[j].tp[1] => Handed(ls[k])
                  \/ \A k \in DOMAIN ls : ls[k].tp[1] = ls[j].tp[1] => ~Handed(ls[k])
       ELSE \A j \in 1 .. i - 1 : Handed(ls[j])
  /\ ls[i].cls \in {"coord", "txn"} => ls[i - 1].st \in {"ok", "fail"}

-----------------------------------------------------------------------------
NoConn == [st |-> "none", grp |-> 0, peer |-> 0, cur |-> <<0, 0>>, reqq |-> << >>, wire |-> << >>,
           cut |-> FALSE, failed |-> FALSE, gclosed |-> FALSE, peerDown |-> FALSE, ep |-> 0]
NoReq == [pc |-> "new", d |-> [cls |-> "none"], snap |-> 0, cancelled |-> "no", result |-> [kind |-> "none"], legs |-> << >>,
          woke |-> FALSE]
NoDisc == [pc |-> "sleep", first |-> TRUE, notify |-> {}, ok |-> FALSE, meta |-> NoSnap]
Tick(n) == IF Hist THEN n + 1 ELSE n
\* gaddr[b]: the address the connection group of broker b is bound to (newBrokerConnGroup)
NoPool == [ready |-> FALSE, err |-> FALSE, base |-> 0, groups |-> {}, idle |-> [g \in Groups |-> << >>], gaddr |-> [b \in Brokers |-> 0]]
NoBudget == [moves |-> 0, cancels |-> 0, cuts |-> 0, refresh |-> 0, expire |-> 0, closeidle |-> 0]

Init ==
  /\ cl = [alive |-> Cluster0.alive, leader |-> Cluster0.leader, coord |-> Cluster0.coord, txn |-> Cluster0.txn,
           ctrlr |-> Cluster0.ctrlr, topics |-> Cluster0.topics, ver |-> 1, addr |-> [b \in Brokers |-> 1]]
  /\ moves = << >> /\ snaps = << >>
  /\ pool = NoPool
  /\ disc = NoDisc
  /\ conns = [c \in Conns |-> NoConn]
  /\ rq = [r \in Reqs |-> NoReq]
  /\ sent = << >> /\ served = << >>
  /\ budget = NoBudget
  /\ cf = [boot |-> Boot, vtab |-> VTab, crange |-> CRange, mt |-> [on |-> FALSE, names |-> {}]]

FreeConn == { c \in Conns : conns[c].st = "none" \/ (~Hist /\ conns[c].st = "dead") }
NewConn == CHOOSE c \in FreeConn : \A x \in FreeConn : c <= x
Fresh(c) == IF AnyConnId THEN c \in FreeConn ELSE FreeConn # {} /\ c = NewConn
Pop(s) == SubSeq(s, 1, Len(s) - 1)
Remove(s, c) == SelectSeq(s, LAMBDA x : x # c)
SetLeg(r, i, f) == [rq EXCEPT ![r].legs[i] = f]

-----------------------------------------------------------------------------
(* the calling goroutine: roundTrip *)
BeginWith(r, d) ==
  /\ rq[r].pc = "new"
  /\ rq' = [rq EXCEPT ![r] = [NoReq EXCEPT !.pc = "wait", !.d = d, !.legs = LegsOf(d)]]
  /\ UNCHANGED <<cl, moves, snaps, pool, disc, conns, sent, served, budget>>

Begin(r, d) == d \in Menu[r] /\ BeginWith(r, d)

\* <-p.ready; grabState(): the snapshot the whole round trip is routed with
GrabState(r) ==
  /\ rq[r].pc = "wait" /\ pool.ready
  \* no metadata yet (the first load failed): a Metadata request is answered with that error; any other request is
  \* routed with an empty layout (snapshot 0): nothing has a leader or a controller, but requests for "any broker"
  \* (FindCoordinator) still go out on the control group
  /\ IF Latest = pool.base
       THEN IF rq[r].d.cls = "cache"
              THEN rq' = [rq EXCEPT ![r].pc = "done", ![r].result = [kind |-> "error", why |-> "nometadata"]]
              ELSE rq' = [rq EXCEPT ![r].pc = "run", ![r].snap = 0]
       ELSE rq' = [rq EXCEPT ![r].pc = "run", ![r].snap = IF Bug = "staleCache" THEN pool.base + 1 ELSE Latest]
  /\ UNCHANGED <<cl, moves, snaps, pool, disc, conns, sent, served, budget>>

\* Metadata is answered from the snapshot by filterMetadataResponse
ServeFromCache(r) ==
  /\ rq[r].pc = "run" /\ rq[r].d.cls = "cache"
  /\ LET ans == IF rq[r].d.all THEN AllOf(SnapOf(rq[r].snap)) ELSE Filter(rq[r].d.names, SnapOf(rq[r].snap)) IN
       /\ rq' = [rq EXCEPT ![r].pc = "done", ![r].result = [kind |-> "response", topics |-> ans]]
       /\ served' = Append(served, [r |-> r, snap |-> rq[r].snap, names |-> rq[r].d.names, all |-> rq[r].d.all, topics |-> ans])
  /\ UNCHANGED <<cl, moves, snaps, pool, disc, conns, sent, budget>>

\* sendRequest: no broker for this leg (BrokerNotAvailable, no leader, failed FindCoordinator)
RouteFail(r, i) ==
  /\ rq[r].pc = "run" /\ CanRoute(r, i)
  /\ LET d == Dest(r, i) IN d = -1 \/ (d > 0 /\ d \notin pool.groups)
  /\ rq' = SetLeg(r, i, [rq[r].legs[i] EXCEPT !.st = "fail"])
  /\ UNCHANGED <<cl, moves, snaps, pool, disc, conns, sent, served, budget>>

\* grabConn: the most recently released idle connection of the group; c.reqs <- request
RouteGrab(r, i, c) ==
  /\ rq[r].pc = "run" /\ CanRoute(r, i)
  /\ LET d == Dest(r, i) IN
       /\ d = 0 \/ d \in pool.groups
       /\ pool.idle[d] # << >> /\ c = Last(pool.idle[d])
       /\ pool' = [pool EXCEPT !.idle[d] = Pop(@)]
  /\ conns' = [conns EXCEPT ![c].st = "busy", ![c].cur = <<r, i>>, ![c].reqq = Append(@, <<r, i>>)]
  /\ rq' = SetLeg(r, i, [rq[r].legs[i] EXCEPT !.st = "sent", !.c = c])
  /\ UNCHANGED <<cl, moves, snaps, disc, sent, served, budget>>

\* no idle connection: connect (dial, ApiVersions, SelectVersion) in a goroutine, the caller waits
RouteConnect(r, i, c) ==
  /\ rq[r].pc = "run" /\ CanRoute(r, i)
  /\ Fresh(c)
  /\ LET d == Dest(r, i) IN
       /\ d = 0 \/ d \in pool.groups
       /\ pool.idle[d] = << >>
       /\ conns' = [conns EXCEPT ![c] = [NoConn EXCEPT !.st = "connecting", !.grp = d, !.cur = <<r, i>>,
                                                         !.ep = IF d = 0 THEN 0 ELSE pool.gaddr[d]]]
  /\ rq' = SetLeg(r, i, [rq[r].legs[i] EXCEPT !.st = "wait", !.c = c])
  /\ UNCHANGED <<cl, moves, snaps, pool, disc, sent, served, budget>>

\* no idle connection and the dial is refused (the broker is gone): nothing is left behind
RouteConnectRefused(r, i) ==
  /\ rq[r].pc = "run" /\ CanRoute(r, i)
  /\ LET d == Dest(r, i) IN
       /\ d = 0 \/ d \in pool.groups
       /\ pool.idle[d] = << >>
       /\ IF d = 0 THEN cf.boot \cap cl.alive = {} ELSE d \notin cl.alive
  /\ rq' = SetLeg(r, i, [rq[r].legs[i] EXCEPT !.st = "fail"])
  /\ UNCHANGED <<cl, moves, snaps, pool, disc, conns, sent, served, budget>>

Waiting(r, i, c) == IF r = 0 THEN i = 1 /\ disc.pc = "conn" ELSE rq[r].pc = "run" /\ rq[r].legs[i].st = "wait" /\ rq[r].legs[i].c = c
PeersOf(g) == IF g = 0 THEN cf.boot \cap cl.alive ELSE {g} \cap cl.alive

\* the connection is established and its version table negotiated with broker b; it is handed to the
\* caller, or goes to the idle stack when the caller has gone (its context ended)
ConnectDone(c, b) ==
  /\ conns[c].st = "connecting" /\ b \in PeersOf(conns[c].grp)
  /\ LET r == conns[c].cur[1]  i == conns[c].cur[2] IN
     IF Waiting(r, i, c)
       THEN /\ conns' = [conns EXCEPT ![c].st = "busy", ![c].peer = b, ![c].reqq = Append(@, <<r, i>>)]
            /\ IF r = 0 THEN disc' = [disc EXCEPT !.pc = "sent"] /\ UNCHANGED rq
                        ELSE rq' = SetLeg(r, i, [rq[r].legs[i] EXCEPT !.st = "sent"]) /\ UNCHANGED disc
            /\ UNCHANGED pool
       ELSE /\ UNCHANGED <<rq, disc>>
            /\ IF conns[c].gclosed
                 THEN conns' = [conns EXCEPT ![c].st = "dead", ![c].peer = b, ![c].cur = <<0, 0>>] /\ UNCHANGED pool
                 ELSE /\ conns' = [conns EXCEPT ![c].st = "idle", ![c].peer = b, ![c].cur = <<0, 0>>]
                      /\ pool' = [pool EXCEPT !.idle[conns[c].grp] = Append(@, c)]
  /\ UNCHANGED <<cl, moves, snaps, sent, served, budget>>

\* dial refused / ApiVersions exchange lost / dial time-out
ConnectFail(c) ==
  /\ conns[c].st = "connecting"
  /\ PeersOf(conns[c].grp) = {} \/ budget.cuts < MaxCuts
  /\ budget' = IF PeersOf(conns[c].grp) = {} THEN budget ELSE [budget EXCEPT !.cuts = @ + 1]
  /\ conns' = [conns EXCEPT ![c].st = "dead", ![c].cur = <<0, 0>>, ![c].failed = TRUE]
  /\ LET r == conns[c].cur[1]  i == conns[c].cur[2] IN
     IF r = 0
       THEN /\ IF disc.pc = "conn" THEN disc' = [disc EXCEPT !.pc = "got"] ELSE UNCHANGED disc
            /\ UNCHANGED rq
       ELSE /\ rq' = IF rq[r].legs[i].st = "wait" /\ rq[r].legs[i].c = c
                       THEN SetLeg(r, i, [rq[r].legs[i] EXCEPT !.st = "fail"]) ELSE rq
            /\ UNCHANGED disc
  /\ UNCHANGED <<cl, moves, snaps, pool, sent, served>>

-----------------------------------------------------------------------------
(* conn.run: one exchange at a time *)
\* what broker b answers to leg l of request r (an application-level error is still a response)
Answer(r, i, l, b) ==
  CASE l.api = "FindCoordinator" ->
         \* (FindCoordinator v0 has no key type: a broker that old can only be asked for group coordinators)
         [for |-> <<r, i>>, from |-> b,
          node |-> IF i + 1 \in DOMAIN LegsR(r) /\ LegsR(r)[i + 1].cls = "txn" /\ Select("FindCoordinator", b) >= 1 THEN cl.txn ELSE cl.coord]
    [] l.api = "Metadata" -> [for |-> <<r, i>>, from |-> b, meta |-> View(cl)]
    [] l.cls = "leader" -> [for |-> <<r, i>>, from |-> b, ok |-> (l.tp[1] \in cl.topics /\ cl.leader[l.tp] = b)]
    [] l.cls = "coord" -> [for |-> <<r, i>>, from |-> b, ok |-> (cl.coord = b)]
    [] l.cls = "txn" -> [for |-> <<r, i>>, from |-> b, ok |-> (cl.txn = b)]
    [] l.cls = "ctrlr" -> [for |-> <<r, i>>, from |-> b,
                           ok |-> (cl.ctrlr = b /\ (l.api = "CreateTopics" => rq[r].d.topic \notin cl.topics)
                                               /\ (l.api = "DeleteTopics" => rq[r].d.topic \in cl.topics))]
    [] OTHER -> [for |-> <<r, i>>, from |-> b, ok |-> TRUE]

SortedAlive == SetToSeqBy(cl.alive)
NthAlive(p) == SortedAlive[(p % Len(SortedAlive)) + 1]

\* the request reaches the broker, which answers it from the current cluster state
Serve(c) ==
  /\ conns[c].st \in {"busy", "idle"} /\ conns[c].reqq # << >> /\ ~conns[c].peerDown /\ ~conns[c].cut
  /\ LET r == Head(conns[c].reqq)[1]  i == Head(conns[c].reqq)[2]  l == LegsR(r)[i]  b == conns[c].peer IN
       /\ conns' = [conns EXCEPT ![c].reqq = Tail(@), ![c].wire = Append(@, Answer(r, i, l, b))]
       /\ sent' = IF r = 0 THEN sent
                  ELSE Append(sent, [r |-> r, i |-> i, api |-> l.api, cls |-> l.cls, tp |-> l.tp, dest |-> b, grp |-> conns[c].grp,
                                     c |-> c, ver |-> Neg(c, l.api), snap |-> rq[r].snap, ep |-> conns[c].ep, latest |-> Latest, prev |-> IF i > 1 THEN rq[r].legs[i - 1] ELSE l])
       \* CreateTopics at the controller creates the topic (leaders round-robin over the brokers), DeleteTopics removes it
       /\ IF r # 0 /\ l.api = "CreateTopics" /\ cl.ctrlr = b /\ rq[r].d.topic \notin cl.topics
            THEN cl' = [cl EXCEPT !.topics = @ \cup {rq[r].d.topic}, !.ver = @ + 1,
                                  !.leader = [tp \in TPs |-> IF tp[1] = rq[r].d.topic THEN NthAlive(tp[2]) ELSE @[tp]]]
            ELSE IF r # 0 /\ l.api = "DeleteTopics" /\ cl.ctrlr = b /\ rq[r].d.topic \in cl.topics
            THEN cl' = [cl EXCEPT !.topics = @ \ {rq[r].d.topic}, !.ver = @ + 1]
            ELSE UNCHANGED cl
  /\ UNCHANGED <<moves, snaps, pool, disc, rq, served, budget>>

\* the connection is lost while an exchange is in progress (before or after the broker answered)
Cut(c) ==
  /\ conns[c].st = "busy" /\ ~conns[c].cut /\ budget.cuts < MaxCuts
  /\ conns' = [conns EXCEPT ![c].cut = TRUE]
  /\ budget' = [budget EXCEPT !.cuts = @ + 1]
  /\ UNCHANGED <<cl, moves, snaps, pool, disc, rq, sent, served>>

Resolve(r, i, st, resp) ==
  IF r = 0 THEN rq
  ELSE IF rq[r].legs[i].st = "sent" THEN SetLeg(r, i, [rq[r].legs[i] EXCEPT !.st = st, !.resp = resp]) ELSE rq

TimedOut(r) == r # 0 /\ rq[r].cancelled = "deadline"

\* the response was read completely: conn.run resolves the promise (the caller may return at once) and only then
\* calls releaseConn: until Release the connection is in nobody's hands
ExchangeOK(c) ==
  /\ conns[c].st = "busy" /\ conns[c].wire # << >> /\ ~conns[c].cut
  /\ LET r == conns[c].cur[1]  i == conns[c].cur[2]  resp == Head(conns[c].wire)  mine == resp.for = <<r, i>> IN
       /\ rq' = Resolve(r, i, IF mine THEN "ok" ELSE "fail", IF mine THEN resp ELSE << >>)
       /\ IF conns[c].cur = <<0, 1>> /\ disc.pc = "sent"
            THEN disc' = [disc EXCEPT !.pc = "got", !.meta = IF mine THEN resp.meta ELSE NoSnap, !.ok = mine]
            ELSE UNCHANGED disc
       /\ IF ~mine
            THEN conns' = [conns EXCEPT ![c].st = "dead", ![c].cur = <<0, 0>>, ![c].failed = TRUE] /\ UNCHANGED pool
            ELSE IF ~AtomicRelease
            THEN conns' = [conns EXCEPT ![c].st = "releasing", ![c].cur = <<0, 0>>, ![c].wire = Tail(@)] /\ UNCHANGED pool
            ELSE IF Bug = "leakOnClosedGroup" /\ conns[c].gclosed
            THEN conns' = [conns EXCEPT ![c].st = "leaked", ![c].cur = <<0, 0>>, ![c].wire = Tail(@)] /\ UNCHANGED pool
            ELSE IF ~conns[c].gclosed
            THEN /\ conns' = [conns EXCEPT ![c].st = "idle", ![c].cur = <<0, 0>>, ![c].wire = Tail(@)]
                 /\ pool' = [pool EXCEPT !.idle[conns[c].grp] = Append(@, c)]
            ELSE conns' = [conns EXCEPT ![c].st = "dead", ![c].cur = <<0, 0>>, ![c].wire = Tail(@)] /\ UNCHANGED pool
  /\ UNCHANGED <<cl, moves, snaps, sent, served, budget>>

\* releaseConn: back to the idle stack of its group; a group that was closed meanwhile (pool dropped, broker gone or
\* re-addressed) refuses the connection: conn.run ends and the connection is closed
Release(c) ==
  /\ conns[c].st = "releasing"
  /\ IF Bug = "leakOnClosedGroup" /\ conns[c].gclosed
       THEN conns' = [conns EXCEPT ![c].st = "leaked"] /\ UNCHANGED pool
       ELSE IF ~conns[c].gclosed
       THEN /\ conns' = [conns EXCEPT ![c].st = "idle"]
            /\ pool' = [pool EXCEPT !.idle[conns[c].grp] = Append(@, c)]
       ELSE /\ conns' = [conns EXCEPT ![c].st = "dead"]
            /\ UNCHANGED pool
  /\ UNCHANGED <<cl, moves, snaps, disc, rq, sent, served, budget>>

\* the exchange failed (connection lost, broker gone, deadline of the request's context): reject, close
ExchangeFail(c) ==
  /\ conns[c].st = "busy"
  /\ conns[c].cut \/ conns[c].peerDown \/ TimedOut(conns[c].cur[1])
  /\ LET r == conns[c].cur[1]  i == conns[c].cur[2] IN
       /\ rq' = Resolve(r, i, "fail", << >>)
       \* (an unanswered or lost metadata refresh is an error for update(); the discover loop goes on)
       /\ IF conns[c].cur = <<0, 1>> /\ disc.pc = "sent"
            THEN disc' = [disc EXCEPT !.pc = IF Bug = "stopOnRefreshTimeout" THEN "stopped" ELSE "got", !.ok = FALSE]
            ELSE UNCHANGED disc
       /\ IF Bug = "releaseOnFail" /\ ~conns[c].gclosed
            THEN /\ conns' = [conns EXCEPT ![c].st = "idle", ![c].cur = <<0, 0>>, ![c].failed = TRUE]
                 /\ pool' = [pool EXCEPT !.idle[conns[c].grp] = Append(@, c)]
            ELSE /\ conns' = [conns EXCEPT ![c].st = "dead", ![c].cur = <<0, 0>>, ![c].failed = TRUE]
                 /\ UNCHANGED pool
  /\ UNCHANGED <<cl, moves, snaps, sent, served, budget>>

-----------------------------------------------------------------------------
(* promise.await *)
AllResolved(r) == \A i \in DOMAIN rq[r].legs : rq[r].legs[i].st \in {"ok", "fail"}
AnyFailed(r) == \E i \in DOMAIN rq[r].legs : rq[r].legs[i].st = "fail"
AllFailed(r) == \A i \in DOMAIN rq[r].legs : rq[r].legs[i].st = "fail"
\* a failed FindCoordinator leaves the second leg un-routed
Settled(r) ==
  \/ AllResolved(r)
  \/ rq[r].d.cls \in {"coord", "txn"} /\ rq[r].legs[1].st = "fail"

Failed(r) == IF rq[r].d.cls = "split" THEN AllFailed(r) ELSE AnyFailed(r)
Outcome(r) ==
  LET ls == rq[r].legs IN
  IF Failed(r) THEN [kind |-> "error", why |-> "leg"] ELSE [kind |-> "response", legs |-> [i \in DOMAIN ls |-> ls[i].resp]]
\* a successful CreateTopics is followed by a forced refresh of the metadata before the call returns
NeedsRefresh(r) == ~Failed(r) /\ rq[r].d.api = "CreateTopics" /\ Last(rq[r].legs).resp.ok

AwaitReturn(r) ==
  /\ rq[r].pc = "run" /\ rq[r].d.cls # "cache"
  /\ \/ /\ rq[r].cancelled # "no"
        /\ rq' = [rq EXCEPT ![r].pc = "done", ![r].result = [kind |-> "ctxerr"]]
     \/ /\ Settled(r) /\ ~NeedsRefresh(r)
        /\ rq' = [rq EXCEPT ![r].pc = "done", ![r].result = Outcome(r)]
     \* joined.await of a split request whose context ended: every leg is awaited with the ended context, a leg
     \* that was already answered may still be taken, and the merge of answers and context errors is a response
     \* whose unanswered partitions carry an error code (not the context's error)
     \/ /\ rq[r].cancelled # "no" /\ rq[r].d.cls = "split"
        /\ \E i \in DOMAIN rq[r].legs : rq[r].legs[i].st = "ok"
        /\ rq' = [rq EXCEPT ![r].pc = "done", ![r].result = [kind |-> "response", partial |-> TRUE]]
  /\ UNCHANGED <<cl, moves, snaps, pool, disc, conns, sent, served, budget>>

AwaitRefresh(r) ==
  /\ rq[r].pc = "run" /\ rq[r].d.cls # "cache" /\ Settled(r) /\ NeedsRefresh(r)
  /\ rq' = [rq EXCEPT ![r].pc = "refresh", ![r].result = Outcome(r)]
  /\ UNCHANGED <<cl, moves, snaps, pool, disc, conns, sent, served, budget>>

\* the context of the call ends: by cancellation, or by a deadline (which the connection carries too)
Cancel(r, how) ==
  /\ rq[r].pc \in {"wait", "run", "refresh"} /\ rq[r].cancelled = "no" /\ budget.cancels < MaxCancels
  /\ rq' = [rq EXCEPT ![r].cancelled = how]
  /\ budget' = [budget EXCEPT !.cancels = @ + 1]
  /\ IF Bug = "releaseOnCancel"
       THEN LET cs == { c \in Conns : conns[c].st = "busy" /\ conns[c].cur[1] = r /\ ~conns[c].gclosed } IN
            IF cs = {} THEN UNCHANGED <<conns, pool>>
            ELSE LET c == CHOOSE x \in cs : TRUE IN
                 /\ conns' = [conns EXCEPT ![c].st = "idle", ![c].cur = <<0, 0>>]
                 /\ pool' = [pool EXCEPT !.idle[conns[c].grp] = Append(@, c)]
       ELSE UNCHANGED <<conns, pool>>
  /\ UNCHANGED <<cl, moves, snaps, disc, sent, served>>

\* roundTrip returns at once when the context ended while it waits for the first metadata or for a refresh
ReturnCancelled(r) ==
  /\ rq[r].pc \in {"wait", "refresh"} /\ rq[r].cancelled # "no"
  /\ rq' = [rq EXCEPT ![r].pc = "done",
                      ![r].result = IF rq[r].pc = "wait" THEN [kind |-> "ctxerr"] ELSE rq[r].result]
  /\ UNCHANGED <<cl, moves, snaps, pool, disc, conns, sent, served, budget>>

\* refreshMetadata after CreateTopics: wake the discover loop, wait for its notification, look for the topic
Wake(r) ==
  /\ rq[r].pc = "refresh" /\ disc.pc = "sleep" /\ ~rq[r].woke
  /\ disc' = [disc EXCEPT !.notify = @ \cup {r}]
  /\ rq' = [rq EXCEPT ![r].woke = TRUE]
  /\ UNCHANGED <<cl, moves, snaps, pool, conns, sent, served, budget>>

\* notified: the topic is in the new snapshot (done) or not yet (back off, wake again)
RefreshDone(r) ==
  /\ rq[r].pc = "refresh" /\ rq[r].woke /\ r \notin disc.notify
  /\ IF Latest > pool.base /\ rq[r].d.topic \in Last(snaps).topics
       THEN rq' = [rq EXCEPT ![r].pc = "done"]
       ELSE rq' = [rq EXCEPT ![r].woke = FALSE]
  /\ UNCHANGED <<cl, moves, snaps, pool, disc, conns, sent, served, budget>>

-----------------------------------------------------------------------------
(* the discover loop: metadata request on the control group, update, sleep *)
\* the loop asks at once when it starts and when it was woken; otherwise when its (randomised) TTL timer fires
Due == disc.pc = "sleep" /\ (disc.first \/ disc.notify # {} \/ budget.refresh < MaxRefresh)
AskedB == [budget EXCEPT !.refresh = IF disc.first \/ disc.notify # {} THEN @ ELSE Tick(@)]

DiscGrab(c) ==
  /\ Due
  /\ pool.idle[0] # << >> /\ c = Last(pool.idle[0])
  /\ pool' = [pool EXCEPT !.idle[0] = Pop(@)]
  /\ conns' = [conns EXCEPT ![c].st = "busy", ![c].cur = <<0, 1>>, ![c].reqq = Append(@, <<0, 1>>)]
  /\ disc' = [disc EXCEPT !.pc = "sent", !.first = FALSE]
  /\ budget' = AskedB
  /\ UNCHANGED <<cl, moves, snaps, rq, sent, served>>

DiscConnect(c) ==
  /\ Due /\ pool.idle[0] = << >>
  /\ Fresh(c)
  /\ conns' = [conns EXCEPT ![c] = [NoConn EXCEPT !.st = "connecting", !.grp = 0, !.cur = <<0, 1>>]]
  /\ disc' = [disc EXCEPT !.pc = "conn", !.first = FALSE]
  /\ budget' = AskedB
  /\ UNCHANGED <<cl, moves, snaps, pool, rq, sent, served>>

\* no bootstrap broker accepts the connection
DiscConnectRefused ==
  /\ Due /\ pool.idle[0] = << >> /\ cf.boot \cap cl.alive = {}
  /\ disc' = [disc EXCEPT !.pc = "got", !.first = FALSE, !.ok = FALSE]
  /\ budget' = AskedB
  /\ UNCHANGED <<cl, moves, snaps, pool, conns, rq, sent, served>>

\* connPool.update: a metadata response replaces the snapshot and the connection groups; an error is only
\* recorded while no snapshot exists; ready is triggered; waiters of a forced refresh are notified
Update ==
  /\ disc.pc = "got"
  /\ IF disc.ok
       THEN LET m == disc.meta
                \* a known broker whose address changed gets a new connection group (the old one is closed)
                moved == IF Bug = "keepGroupOnReaddress" THEN {}
                         ELSE { b \in pool.groups \cap m.alive : m.addr[b] # pool.gaddr[b] }
                gone == (pool.groups \ m.alive) \cup moved IN
            /\ snaps' = IF Hist THEN Append(snaps, m) ELSE << m >>
            /\ pool' = [pool EXCEPT !.ready = TRUE, !.err = FALSE, !.groups = m.alive,
                                    !.idle = [g \in Groups |-> IF g \in gone THEN << >> ELSE pool.idle[g]],
                                    !.gaddr = [b \in Brokers |-> IF b \in m.alive /\ (b \notin pool.groups \/ b \in moved)
                                                                   THEN m.addr[b] ELSE pool.gaddr[b]]]
            /\ conns' = [c \in Conns |->
                           IF conns[c].grp \in gone /\ conns[c].st = "idle" THEN [conns[c] EXCEPT !.st = "dead"]
                           ELSE IF conns[c].grp \in gone /\ conns[c].st \in {"busy", "connecting", "releasing"} THEN [conns[c] EXCEPT !.gclosed = TRUE]
                           ELSE conns[c]]
       ELSE /\ pool' = [pool EXCEPT !.ready = TRUE, !.err = (Latest = pool.base)]
            /\ UNCHANGED <<snaps, conns>>
  /\ disc' = [NoDisc EXCEPT !.first = FALSE]
  /\ UNCHANGED <<cl, moves, rq, sent, served, budget>>

\* the idle timer of a connection fires
IdleExpire(c) ==
  /\ conns[c].st = "idle" /\ budget.expire < MaxExpire
  /\ conns' = [conns EXCEPT ![c].st = "dead"]
  /\ pool' = [pool EXCEPT !.idle[conns[c].grp] = Remove(@, c)]
  /\ budget' = [budget EXCEPT !.expire = Tick(@)]
  /\ UNCHANGED <<cl, moves, snaps, disc, rq, sent, served>>

\* Transport.CloseIdleConnections while no round trip is in progress: the pool is dropped (idle connections
\* closed, discover loop cancelled); the next request builds a new pool
Quiescent == \A r \in Reqs : rq[r].pc \in {"new", "done"}
CloseIdle ==
  /\ Quiescent /\ budget.closeidle < MaxCloseIdle
  /\ budget' = [budget EXCEPT !.closeidle = @ + 1]
  /\ conns' = [c \in Conns |->
                 IF conns[c].st = "idle" THEN [conns[c] EXCEPT !.st = "dead"]
                 ELSE IF conns[c].st \in {"busy", "connecting", "releasing"} THEN [conns[c] EXCEPT !.gclosed = TRUE, !.cur = <<0, 0>>]
                 ELSE conns[c]]
  /\ pool' = [NoPool EXCEPT !.base = Latest]
  /\ disc' = NoDisc
  /\ UNCHANGED <<cl, moves, snaps, rq, sent, served>>

-----------------------------------------------------------------------------
(* the environment: the cluster changes *)
Spend == budget.moves < MaxMoves /\ budget' = [budget EXCEPT !.moves = @ + 1]
Quiet == UNCHANGED <<snaps, pool, disc, rq, sent, served>>

LeaderMove(tp, b) ==
  /\ Spend /\ tp[1] \in cl.topics /\ b \in cl.alive /\ cl.leader[tp] # b
  /\ cl' = [cl EXCEPT !.leader[tp] = b, !.ver = @ + 1]
  /\ moves' = Append(moves, [tp |-> tp, to |-> b, at |-> cl.ver + 1])
  /\ Quiet /\ UNCHANGED conns

\* a broker re-registers under the same id with another address; whatever listens on the old one stays up
Readdress(b) ==
  /\ Spend /\ b \in cl.alive
  /\ cl' = [cl EXCEPT !.addr[b] = @ + 1, !.ver = @ + 1]
  /\ Quiet /\ UNCHANGED <<conns, moves>>

BrokerAdd(b) ==
  /\ Spend /\ b \in Brokers \ cl.alive
  /\ cl' = [cl EXCEPT !.alive = @ \cup {b}, !.ver = @ + 1]
  /\ Quiet /\ UNCHANGED <<conns, moves>>

\* a broker leaves: what it led or coordinated moves to broker h; its connections are gone
BrokerRemove(b, h) ==
  /\ Spend /\ b \in cl.alive /\ h \in cl.alive \ {b} /\ (cf.boot \cap cl.alive) \ {b} # {}
  /\ LET moved == { tp \in TPs : cl.leader[tp] = b } IN
       /\ cl' = [cl EXCEPT !.alive = @ \ {b}, !.ver = @ + 1,
                           !.leader = [tp \in TPs |-> IF tp \in moved THEN h ELSE cl.leader[tp]],
                           !.coord = IF @ = b THEN h ELSE @, !.txn = IF @ = b THEN h ELSE @, !.ctrlr = IF @ = b THEN h ELSE @]
       /\ moves' = moves \o [ i \in 1 .. Cardinality(moved) |-> [tp |-> SetToSeq(moved)[i], to |-> h, at |-> cl.ver + 1] ]
  /\ conns' = [c \in Conns |-> IF conns[c].peer = b /\ conns[c].st \in {"idle", "busy", "releasing"} THEN [conns[c] EXCEPT !.peerDown = TRUE] ELSE conns[c]]
  /\ Quiet

TopicCreateWith(t, f) ==
  /\ Spend /\ t \in Topics \ cl.topics
  /\ cl' = [cl EXCEPT !.topics = @ \cup {t}, !.ver = @ + 1, !.leader = [tp \in TPs |-> IF tp[1] = t THEN f[tp[2]] ELSE @[tp]]]
  /\ Quiet /\ UNCHANGED <<conns, moves>>
TopicCreate(t) == TopicCreateWith(t, [p \in Parts |-> cl.leader[<<t, p>>]])

CoordinatorMove(which, b) ==
  /\ Spend /\ b \in cl.alive
  /\ \/ which = "coord" /\ cl.coord # b /\ cl' = [cl EXCEPT !.coord = b, !.ver = @ + 1]
     \/ which = "txn" /\ cl.txn # b /\ cl' = [cl EXCEPT !.txn = b, !.ver = @ + 1]
     \/ which = "ctrlr" /\ cl.ctrlr # b /\ cl' = [cl EXCEPT !.ctrlr = b, !.ver = @ + 1]
  /\ Quiet /\ UNCHANGED <<conns, moves>>

Env ==
  \/ "leader" \in MoveKinds /\ \E tp \in TPs, b \in Brokers : LeaderMove(tp, b)
  \/ "add" \in MoveKinds /\ \E b \in Brokers : BrokerAdd(b)
  \/ "addr" \in MoveKinds /\ \E b \in Brokers : Readdress(b)
  \/ "remove" \in MoveKinds /\ \E b \in Brokers, h \in Brokers : BrokerRemove(b, h)
  \/ "topic" \in MoveKinds /\ \E t \in Topics : TopicCreate(t)
  \/ \E w \in {"coord", "txn", "ctrlr"} \cap MoveKinds, b \in Brokers : CoordinatorMove(w, b)

Client ==
  \/ \E r \in Reqs :
        \/ \E d \in Menu[r] : Begin(r, d)
        \/ GrabState(r) \/ ServeFromCache(r) \/ AwaitReturn(r) \/ ReturnCancelled(r) \/ Wake(r) \/ RefreshDone(r)
        \/ \E how \in {"cancel", "deadline"} : Cancel(r, how)
        \/ AwaitRefresh(r)
        \/ \E i \in 1 .. 6 : RouteFail(r, i) \/ RouteConnectRefused(r, i) \/ \E c \in Conns : RouteGrab(r, i, c) \/ RouteConnect(r, i, c)
  \/ \E c \in Conns : \/ ConnectFail(c) \/ Serve(c) \/ Cut(c) \/ ExchangeOK(c) \/ Release(c) \/ ExchangeFail(c)
                       \/ IdleExpire(c) \/ DiscGrab(c) \/ DiscConnect(c)
                       \/ \E b \in Brokers : ConnectDone(c, b)
  \/ Update \/ DiscConnectRefused \/ CloseIdle

Next == (Client \/ Env) /\ UNCHANGED cf
Spec == Init /\ [][Next]_vars

\* fairness for the liveness configs: everything the library does on its own, and the brokers answering
Progress ==
  \/ \E c \in Conns : Serve(c) \/ ExchangeOK(c) \/ Release(c) \/ ExchangeFail(c) \/ DiscGrab(c) \/ DiscConnect(c) \/ ConnectFail(c)
                       \/ \E b \in Brokers : ConnectDone(c, b)
  \/ Update \/ DiscConnectRefused
FairSpec == Spec /\ WF_vars(Progress /\ UNCHANGED cf)

-----------------------------------------------------------------------------
(* properties *)
S == DOMAIN sent

\* C12: each request went to the broker that the snapshot it was routed with designates (for coordinator
\* requests: the broker FindCoordinator answered), requests for "any broker" used the control group ...
C12_Routing ==
  \A k \in S : LET s == sent[k]  want == Designated(SnapOf(s.snap), [cls |-> s.cls, tp |-> s.tp], s.prev) IN
     IF s.cls = "any" THEN s.grp = 0 ELSE s.dest = want /\ s.grp = want
\* ... and that snapshot was the latest one applied when the round trip grabbed the pool state
C12_GrabIsLatest ==
  [][\A r \in Reqs : (rq[r].pc = "wait" /\ rq'[r].pc = "run") => rq'[r].snap = (IF Latest = pool.base THEN 0 ELSE Latest)]_vars

\* C12: ... at the address that broker advertises: the connection carrying the request was opened to the address
\* given by the snapshot the call was routed with or by a later one applied before the request was served
C12_Address ==
  \A k \in S : LET s == sent[k] IN
     s.grp > 0 => \E n \in s.snap .. s.latest : s.grp \in DOMAIN SnapOf(n).addr /\ SnapOf(n).addr[s.grp] = s.ep

\* C12: the version on the wire is the highest both sides implement, inside the advertised range
C12_Version ==
  \A k \in S : LET s == sent[k] IN
     (s.dest \in DOMAIN cf.vtab /\ s.api \in DOMAIN cf.vtab[s.dest]) =>
       LET b == cf.vtab[s.dest][s.api]  c == cf.crange[s.api] IN
       Overlap(c, b) => s.ver = Min(c[2], b[2]) /\ s.ver >= b[1] /\ s.ver <= b[2]

\* C12: requests routed with a snapshot taken after a leader move go to the new leader
C12_FollowLeader ==
  \A k \in S : LET s == sent[k] IN
    s.cls = "leader" =>
      \A m \in DOMAIN moves :
         (/\ moves[m].tp = s.tp /\ SnapOf(s.snap).ver >= moves[m].at
          /\ \A m2 \in DOMAIN moves : (moves[m2].tp = s.tp /\ moves[m2].at > moves[m].at) => moves[m2].at > SnapOf(s.snap).ver)
         => s.dest = moves[m].to

\* C12: filtered metadata from the cache is the filter of the snapshot, which was the latest applied
TrueFilter(names, snap) ==
  [ i \in DOMAIN names |->
      IF names[i] \in snap.topics
        THEN [name |-> names[i], err |-> 0, leaders |-> [p \in Parts |-> snap.leader[<<names[i], p>>]]]
        ELSE [name |-> names[i], err |-> 3, leaders |-> << >>] ]
\* (that the snapshot is the latest applied when the state was grabbed is C12_GrabIsLatest)
C12_CacheFilter ==
  \A k \in DOMAIN served : served[k].topics = IF served[k].all THEN AllOf(SnapOf(served[k].snap))
                                                ELSE TrueFilter(served[k].names, SnapOf(served[k].snap))

\* C06 (Transport part)
C06t_OwnResponse ==
  \A r \in Reqs : \A i \in DOMAIN rq[r].legs : rq[r].legs[i].st = "ok" => rq[r].legs[i].resp.for = <<r, i>>
C06t_ReleaseOnlyAfterComplete ==
  \A c \in Conns : conns[c].st = "idle" => conns[c].wire = << >> /\ conns[c].cur = <<0, 0>> /\ ~conns[c].cut
C06t_NoReuseAfterFailure ==
  \A c \in Conns : conns[c].failed => conns[c].st = "dead"
C06t_DeadStaysDead ==
  [][\A c \in Conns : (Hist /\ conns[c].st = "dead") => conns'[c].st = "dead"]_vars

\* C09 (Transport part): a connection that was busy when its group was closed is closed when its exchange is over
\* (it never stays behind, neither idle nor with its goroutine waiting for a request that cannot come)
C09t_ClosedPoolConnsClose ==
  \A c \in Conns : (conns[c].st # "leaked") /\ (conns[c].st = "idle" => ~conns[c].gclosed)

\* C09 (Transport part): once its context ended a blocked round trip can return at once
C09t_CancelPrompt ==
  \A r \in Reqs : (rq[r].cancelled # "no" /\ rq[r].pc \in {"wait", "run", "refresh"})
      => ENABLED (AwaitReturn(r) \/ ReturnCancelled(r) \/ ServeFromCache(r))

\* liveness: a change of the cluster reaches the snapshot (one TTL tick and one round trip later)
SnapVer == IF Latest > pool.base THEN Last(snaps).ver ELSE 0
C12_RefreshWithinTTL == [](<>(SnapVer = cl.ver))
L_Terminates == \A r \in Reqs : [](rq[r].pc \in {"wait", "run"} => <>(rq[r].pc \in {"done", "refresh"}))

TypeOK ==
  /\ \A c \in Conns : conns[c].st \in {"none", "connecting", "idle", "busy", "releasing", "dead", "leaked"}
  /\ \A g \in Groups : \A k \in DOMAIN pool.idle[g] : conns[pool.idle[g][k]].st = "idle" /\ conns[pool.idle[g][k]].grp = g
  /\ \A c \in Conns : conns[c].st = "idle" => \E k \in DOMAIN pool.idle[conns[c].grp] : pool.idle[conns[c].grp][k] = c
=============================================================================
