SPECIFICATION TSpec
CONSTRAINT HighWater
POSTCONDITION TraceAccepted
CHECK_DEADLOCK FALSE
