SPECIFICATION TSpec
CONSTRAINT HighWater
VIEW TView
POSTCONDITION TraceAccepted
CHECK_DEADLOCK FALSE
