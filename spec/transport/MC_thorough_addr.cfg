SPECIFICATION Spec
CONSTANTS
 Brokers <- MC_Brokers
 Boot <- MC_Boot
 Topics <- MC_Topics
 NParts = 2
 Cluster0 <- MC_Cluster0
 VTab <- MC_VTabA
 CRange <- MC_CRange
 Reqs <- MC_Reqs2
 Menu <- MC_MenuQ1
 MaxConns = 4
 MaxMoves = 2
 MaxCancels = 0
 MaxCuts = 0
 MaxRefresh = 1
 MaxExpire = 0
 MaxCloseIdle = 0
 Hist = TRUE
 Bug = "none"
 AnyConnId = FALSE
 AtomicRelease = TRUE
 MoveKinds = {"addr", "leader"}
INVARIANTS TypeOK C12_Routing C12_Address C12_Version C12_FollowLeader C12_CacheFilter C06t_OwnResponse C06t_ReleaseOnlyAfterComplete C06t_NoReuseAfterFailure C09t_CancelPrompt C09t_ClosedPoolConnsClose
PROPERTIES C12_GrabIsLatest C06t_DeadStaysDead
CHECK_DEADLOCK FALSE
