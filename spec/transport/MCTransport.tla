----------------------------- MODULE MCTransport -----------------------------
(***************************************************************************)
(* Model-checking instances of Transport.tla: 3 brokers (one joins later), *)
(* 2 topics x 2 partitions (one topic is created later), one group and one *)
(* transaction coordinator, heterogeneous version tables.                  *)
(***************************************************************************)
EXTENDS Transport

MC_Brokers == {1, 2, 3}
MC_Boot == {1, 2}
MC_Topics == {"t1", "t2"}
MC_Cluster0 ==
  [alive |-> {1, 2}, coord |-> 2, txn |-> 1, ctrlr |-> 1, topics |-> {"t1"},
   leader |-> [tp \in { <<t, p>> : t \in MC_Topics, p \in 0 .. 1 } |->
                 IF tp = <<"t1", 0>> THEN 1 ELSE IF tp = <<"t1", 1>> THEN 2 ELSE IF tp = <<"t2", 0>> THEN 2 ELSE 1]]

\* what the client implements (protocol.ApiKey.MinVersion / MaxVersion of the library)
MC_CRange == [Produce |-> <<0, 8>>, Fetch |-> <<0, 11>>, ListOffsets |-> <<1, 5>>, Metadata |-> <<0, 8>>,
              FindCoordinator |-> <<0, 2>>, OffsetCommit |-> <<0, 7>>, CreateTopics |-> <<0, 5>>, InitProducerId |-> <<0, 4>>]
\* the four kinds of advertised tables
T_Full == MC_CRange
T_Older == [Produce |-> <<0, 3>>, Fetch |-> <<0, 5>>, ListOffsets |-> <<0, 1>>, Metadata |-> <<0, 1>>,
            FindCoordinator |-> <<0, 0>>, OffsetCommit |-> <<0, 2>>, CreateTopics |-> <<0, 2>>, InitProducerId |-> <<0, 1>>]
T_Newer == [Produce |-> <<3, 12>>, Fetch |-> <<4, 15>>, ListOffsets |-> <<2, 9>>, Metadata |-> <<4, 12>>,
            FindCoordinator |-> <<1, 4>>, OffsetCommit |-> <<2, 9>>, CreateTopics |-> <<2, 7>>, InitProducerId |-> <<1, 6>>]
T_Disjoint == [Produce |-> <<9, 10>>, Fetch |-> <<12, 13>>, ListOffsets |-> <<0, 0>>, Metadata |-> <<9, 12>>,
               FindCoordinator |-> <<3, 4>>, OffsetCommit |-> <<8, 9>>, CreateTopics |-> <<6, 7>>]     \* InitProducerId not advertised
Tables == {T_Full, T_Older, T_Newer, T_Disjoint}
MC_VTabA == [b \in MC_Brokers |-> IF b = 1 THEN T_Full ELSE IF b = 2 THEN T_Older ELSE T_Newer]
MC_VTabB == [b \in MC_Brokers |-> IF b = 1 THEN T_Newer ELSE IF b = 2 THEN T_Disjoint ELSE T_Older]

\* the version rule for every pair (client range, advertised table), independent of the state space
ASSUME \A tb \in Tables : \A api \in DOMAIN tb :
   LET c == MC_CRange[api]  b == tb[api]
       v == IF c[1] > b[2] THEN c[1] ELSE IF c[2] < b[2] THEN c[2] ELSE b[2] IN
   Overlap(c, b) => v = Min(c[2], b[2]) /\ v >= b[1] /\ v <= b[2]

TP(t, p) == <<t, p>>
D_Produce(tp) == [cls |-> "leader", api |-> "Produce", tps |-> <<tp>>]
D_Fetch(tp) == [cls |-> "leader", api |-> "Fetch", tps |-> <<tp>>]
D_List(tps) == [cls |-> "split", api |-> "ListOffsets", tps |-> tps]
D_Meta(names) == [cls |-> "cache", api |-> "Metadata", names |-> names, all |-> FALSE]
D_MetaAll == [cls |-> "cache", api |-> "Metadata", names |-> << >>, all |-> TRUE]
D_Commit == [cls |-> "coord", api |-> "OffsetCommit"]
D_InitPid == [cls |-> "txn", api |-> "InitProducerId"]
D_Create(t) == [cls |-> "ctrlr", api |-> "CreateTopics", topic |-> t]
D_FindCoord == [cls |-> "any", api |-> "FindCoordinator"]

MC_Reqs3 == {1, 2, 3}
MC_Menu3 == [r \in MC_Reqs3 |->
   IF r = 1 THEN {D_Produce(TP("t1", 0)), D_List(<<TP("t1", 0), TP("t1", 1)>>)}
   ELSE IF r = 2 THEN {D_Fetch(TP("t1", 1)), D_Commit, D_Meta(<<"t2", "t1">>)}
   ELSE {D_Create("t2"), D_InitPid, D_Produce(TP("t2", 0))}]
MC_Reqs2 == {1, 2}
MC_Menu2 == [r \in MC_Reqs2 |->
   IF r = 1 THEN {D_Produce(TP("t1", 0)), D_List(<<TP("t1", 0), TP("t1", 1)>>), D_Commit}
   ELSE {D_Fetch(TP("t1", 0)), D_Meta(<<"t2", "t1">>), D_Create("t2"), D_InitPid}]
\* quick configurations
MC_MenuQ1 == [r \in MC_Reqs2 |->
   IF r = 1 THEN {D_Produce(TP("t1", 0)), D_List(<<TP("t1", 0), TP("t1", 1)>>)}
   ELSE {D_Meta(<<"t2", "t1">>), D_Commit}]
MC_MenuQ1b == [r \in MC_Reqs2 |->
   IF r = 1 THEN {D_Produce(TP("t1", 0))}
   ELSE {D_Meta(<<"t2", "t1">>), D_Commit}]
MC_MenuQ2 == [r \in MC_Reqs2 |->
   IF r = 1 THEN {D_Produce(TP("t1", 0))}
   ELSE {D_Fetch(TP("t1", 0)), D_Commit}]
MC_MenuQ3 == [r \in MC_Reqs2 |->
   IF r = 1 THEN {D_Create("t2")}
   ELSE {D_Produce(TP("t2", 0)), D_InitPid}]
MC_Reqs1 == {1}
MC_Menu1 == [r \in MC_Reqs1 |-> {D_Produce(TP("t1", 0)), D_List(<<TP("t1", 0), TP("t1", 1)>>), D_Commit, D_Meta(<<"t2", "t1">>), D_MetaAll,
                                 D_Create("t2"), D_InitPid, D_FindCoord}]
MC_Reqs0 == {}
MC_Menu0 == << >>

\* the history variables do not influence the future: identify states that differ only there (liveness configs keep them empty)
MCView == <<cl, snaps, pool, disc, conns, rq, budget, moves, sent, served>>
=============================================================================
