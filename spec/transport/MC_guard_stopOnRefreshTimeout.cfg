SPECIFICATION FairSpec
CONSTANTS
 Brokers <- MC_Brokers
 Boot <- MC_Boot
 Topics <- MC_Topics
 NParts = 2
 Cluster0 <- MC_Cluster0
 VTab <- MC_VTabA
 CRange <- MC_CRange
 Reqs <- MC_Reqs0
 Menu <- MC_Menu0
 MaxConns = 2
 MaxMoves = 2
 MaxCancels = 0
 MaxCuts = 1
 MaxRefresh = 1
 MaxExpire = 1
 MaxCloseIdle = 0
 Hist = FALSE
 Bug = "stopOnRefreshTimeout"
 AnyConnId = FALSE
 AtomicRelease = TRUE
 MoveKinds = {"leader", "add", "addr", "remove", "topic", "coord", "txn", "ctrlr"}
PROPERTIES C12_RefreshWithinTTL
CHECK_DEADLOCK FALSE
