"""Engine E11: compression codecs (C16).  Model: spec/codecs/Codecs.tla (+CodecsOps.tla), judge: CodecsTrace.tla,
driver: harness/cdriver (vh codecs)."""
import copy, hashlib, json, os, random, re, threading
from concurrent.futures import ThreadPoolExecutor
from vlib import Inconclusive, read_ndjson, write_ndjson

ENGINE = "codecs"
PROPS = {"C16": "model_checking"}

ASSUMPTIONS = {"C16": [
    "Compression is abstract in Codecs.tla (a block of n payload bytes is an opaque token C(offset, n)). The bit-level "
    "correctness of the compression algorithms for arbitrary payloads is NOT decided by the model: it is sampled per seed over "
    "payload classes (1 byte, 1 KiB incompressible, highly compressible, dictionary text, 40 000, 70 000, 140 000 bytes and the "
    "sums of the write sizes) with reference decoders / encoders used directly: stdlib compress/gzip; for snappy a STRICT hand-written "
    "block decoder (harness/cdriver/snappystrict.go, written from the format description: literals with 0-4 length bytes, copy1/2/4 with "
    "1 <= offset <= bytes produced, exact announced length; anything else, e.g. the S2 'repeat' = copy with offset 0, is an error) under a "
    "hand-written xerial framer, with klauspost/compress/snappy.Encode only as reference ENCODER of the streams fed to the library's reader; "
    "pierrec/lz4 and klauspost/compress/zstd frame readers/writers. lz4 and zstd are the same libraries the code under test wraps, so a "
    "defect inside them is out of reach.",
    "Compression levels: every Codec value that can be configured is driven, not only the zero values: snappy.Codec{Compression: Default|"
    "Faster|Better|Best} x {Framed, Unframed}, gzip.Codec{Level: -2 (HuffmanOnly), 1, 9} (thorough: -2, -1, 1..9), zstd.Codec{Level: 1, 7, 11} "
    "(one per klauspost encoder level; thorough adds 3, 5, 9, 22); lz4.Codec has no level. The levels get a sample of payload classes / "
    "sizes / chunkings and history probes (coverage.levels), not the full chunking enumeration of the default values: the cut into blocks "
    "does not depend on the level in the code (one encode function pointer per writer).",
    "What the model decides: xerial framing (header once, prefix = block length), the cut of the input into blocks for every write "
    "chunking, what every Read / WriteTo returns for every buffer size, header detection on the first 16 bytes, pooling "
    "(Acquire, Reset, use, error, Close, Release) and independence of the observable result from the pooled object's history.",
    "HistoryFree is judged on the property's observables (bytes accepted, validity for the reference decoder, payload recovered, bytes "
    "returned by readers, final EOF/error), not on the exact compressed bytes: a framed snappy writer whose input buffer was doubled by "
    "an earlier unframed use flushes at the larger capacity (blocks > 32 KiB of input); that stream is a valid xerial stream. It is "
    "modelled as coded and reported as coverage.max_block_input_bytes.",
    "Explicit Flush() on an UNFRAMED snappy writer (reachable only by type assertion, not through io.WriteCloser) emits a raw block of "
    "its own and breaks the stream; it is outside the Codec contract and not generated.",
    "Truncated / failing streams: which error (or plain EOF: xerialReader reports io.EOF for a stream that ends right after a length "
    "prefix or inside the 16-byte header after the magic) is conformance only; the property check there is that no wrong byte is returned "
    "and that the next use of the pooled object is unaffected.",
    "The model runs one user at a time (sync.Pool hands an object to one user). Concurrent use of one codec value is exercised on the "
    "real code only (goroutines verifying their own round trips); data races as such belong to C10.",
    "WriteTo after Read calls on the same gzip/lz4/zstd reader is unsupported by those libraries themselves (checksum / state errors) "
    "and is not generated; kafka-go's own snappy reader is exercised with every mix of Read and WriteTo.",
    "gzip/lz4/zstd readers may legally return short reads: for them only totals, content and the final result are judged, not the "
    "size of each Read.",
]}

WS = [1, 1023, 1024, 31743, 31744, 32767, 32768, 32769, 65536, 70000]
RS = [1, 15, 16, 17, 4096, 32768, 100000]
PCLASSES = ["rand", "rep", "text"]
OPAQUE = ["gzip", "lz4", "zstd"]
W, RD = "w", "r"
# non-default levels of the Codec types ("" = zero value = default).  snappy: Codec.Compression; gzip: Codec.Level (stdlib constants:
# -2 HuffmanOnly, -1 default, 1..9); zstd: Codec.Level in zstd's own scale, mapped by EncoderLevelFromZstd to the four klauspost
# encoder levels (<3 fastest, 3..5 default, 6..9 better, >=10 best); lz4.Codec has no level field.
LEVELS = {"snappy": ["faster", "better", "best"], "gzip": ["-2", "1", "9"], "zstd": ["1", "7", "11"], "lz4": []}
LEVELS_THOROUGH = {"snappy": [], "gzip": ["-1", "2", "3", "4", "5", "6", "7", "8"], "zstd": ["3", "5", "9", "22"], "lz4": []}


def level_values(tier):
    out = []
    for codec in ("snappy", "gzip", "zstd"):
        for lv in LEVELS[codec] + (LEVELS_THOROUGH[codec] if tier == "thorough" else []):
            for mode in (("framed", "unframed") if codec == "snappy" else ("",)):
                out.append((codec, mode, lv))
    return out


def sha(x):
    return hashlib.sha1(json.dumps(x, sort_keys=True).encode()).hexdigest()[:12]


class Gen:
    def __init__(self, seed, tier):
        self.rng = random.Random(seed * 104729 + 17)
        self.seed, self.tier = seed, tier
        self.nps = 0
        self.groups = []      # list of lists of histories; a group stays in one shard, in order
        self.nh = 0

    def pseed(self):
        self.nps += 1
        return self.seed * 100000 + self.nps

    # -- uses -------------------------------------------------------------------------------------------------
    def wuse(self, codec, mode, ops, budget=-1, pclass=None, level=""):
        if codec != "snappy" and any(o["op"] == "readfrom" for o in ops):
            # ReadFrom mixed with Write / Flush on one stream is unsupported by pierrec/lz4 itself (ErrInternalUnhandledState):
            # for the wrapped libraries ReadFrom is only used as the single data operation of a stream
            if sum(1 for o in ops if o["op"] in ("write", "readfrom")) > 1:
                ops = [{"op": "write", "n": sum(o["chunks"])} if o["op"] == "readfrom" else o for o in ops]
            else:
                ops = [o for o in ops if o["op"] != "flush"]
        pclass = pclass or self.rng.choice(PCLASSES)
        if codec == "gzip" and level == "9" and pclass == "rep" and sum(o["n"] + sum(o.get("chunks", [])) for o in ops) > 60000:
            # klauspost flate at level 9 needs seconds for > 64 KiB of one repeated byte (2.2 s for 70 000 bytes, and the output is 80 times
            # larger than at level 8; it still decodes): a cost of the wrapped library, kept out of the time budget
            pclass = "text"
        u = {"kind": W, "codec": codec, "mode": mode, "level": level, "pclass": pclass, "pseed": self.pseed(),
             "ops": ops, "budget": budget}
        u["key"] = "w-" + sha(u)          # the level is part of the key: "the same use" means the same codec configuration
        return u

    @staticmethod
    def fix_ops(codec, ops):
        # WriteTo after Read on the same reader is not supported by the gzip / lz4 libraries themselves (klauspost gzip: checksum
        # over the WriteTo part only; pierrec lz4: ErrInternalUnhandledState): only snappy (kafka-go's own reader) mixes them
        if codec != "snappy" and any(o["op"] == "writeto" for o in ops):
            return [o for o in ops if o["op"] != "read"]
        return ops

    def ruse_of(self, wu, ops, trunc=None):
        """reader on the output of writer use wu (index is filled in when the history is assembled)"""
        ops = self.fix_ops(wu["codec"], ops)
        u = {"kind": RD, "codec": wu["codec"], "mode": wu["mode"], "level": wu["level"], "ops": ops, "src": {"kind": "use", "of": wu["key"]}, "budget": -1}
        if trunc:
            u["trunc"] = trunc
        u["key"] = "r-" + sha({"ops": ops, "src": wu["key"], "trunc": trunc})
        self.vary_source(u)
        return u

    def ruse_ref(self, codec, mode, enc, pclass, total, ops, blocks=None, trunc=None, pseed=None, level=""):
        # the level of the codec value that makes the reader is NOT part of the key: what a reader returns must not depend on it
        ops = self.fix_ops(codec, ops)
        src = {"kind": "ref", "enc": enc, "pclass": pclass, "pseed": pseed if pseed is not None else self.pseed(), "total": total,
               "blocks": blocks or [32768]}
        u = {"kind": RD, "codec": codec, "mode": mode, "level": level, "ops": ops, "src": src, "budget": -1}
        if trunc:
            u["trunc"] = trunc
        u["key"] = "r-" + sha({"ops": ops, "src": src, "trunc": trunc, "codec": codec})
        self.vary_source(u)
        return u

    def vary_source(self, u):
        # how the underlying reader hands out bytes must not matter: not part of the key
        u["srcchunk"] = self.rng.choice([0, 0, 1, 3, 7, 16, 1000, 4096])
        u["eofwithdata"] = self.rng.random() < 0.3

    def writes(self, sizes, flush_p=0.0, readfrom_p=0.0, end="close"):
        ops = []
        for n in sizes:
            if self.rng.random() < readfrom_p:
                k = self.rng.randint(1, 3)
                cuts = sorted(self.rng.randint(1, n) for _ in range(k - 1)) if n > 1 else []
                chunks = [b - a for a, b in zip([0] + cuts, cuts + [n]) if b - a > 0]
                ops.append({"op": "readfrom", "n": 0, "chunks": chunks})
            else:
                ops.append({"op": "write", "n": n})
            if self.rng.random() < flush_p:
                ops.append({"op": "flush", "n": 0})
        if end:
            ops.append({"op": end, "n": 0})
        return ops

    def reads(self, singles=None, end=None, close="close"):
        r = self.rng
        if singles is None:
            singles = [r.choice(RS) for _ in range(r.choice([0, 0, 1, 1, 2, 3]))]
        ops = [{"op": "read", "n": b} for b in singles]
        end = end or r.choice(["drain"] * 3 + ["writeto"])
        if end == "drain":
            ops.append({"op": "drain", "n": r.choice(RS)})
        elif end == "writeto":
            ops.append({"op": "writeto", "n": 0})
        elif isinstance(end, int):
            ops.append({"op": "drain", "n": end})
        if close:
            ops.append({"op": close, "n": 0})
        return ops

    # -- histories --------------------------------------------------------------------------------------------
    def hist(self, cls, uses):
        self.nh += 1
        uses = [copy.deepcopy(u) for u in uses]
        where = {}
        for i, u in enumerate(uses):
            if u["kind"] == W:
                where[u["key"]] = i + 1
            elif u["src"]["kind"] == "use":
                u["src"]["u"] = where[u["src"]["of"]]
        return {"id": "H%d-%s" % (self.nh, cls), "class": cls, "uses": uses}

    def add_group(self, hs):
        self.groups.append(hs)

    def pack(self, cls, units, per):
        """units: lists of uses that belong together; pack several units into one history"""
        cur = []
        for k, un in enumerate(units):
            cur += un
            if (k + 1) % per == 0:
                self.add_group([self.hist(cls, cur)])
                cur = []
        if cur:
            self.add_group([self.hist(cls, cur)])

    # 1. framing: write chunkings over WS (exhaustive up to length 2, sampled beyond), each read back
    def framing(self):
        r = self.rng
        seqs = [[a] for a in WS] + [[a, b] for a in WS for b in WS]
        all3 = [[a, b, c] for a in WS for b in WS for c in WS]
        if self.tier == "quick":
            seqs += r.sample(all3, 120)
        else:
            seqs += all3 + [[r.choice(WS) for _ in range(4)] for _ in range(3000)]
        self.n_chunkings = {"framed": len(seqs), "unframed": 0}
        units = []
        for k, s in enumerate(seqs):
            wu = self.wuse("snappy", "framed", self.writes(s, flush_p=0.15, readfrom_p=0.1))
            ru = self.ruse_of(wu, self.reads(singles=[r.choice(RS)] if k % 3 == 0 else [], end=RS[k % len(RS)] if k % 8 else "writeto"))
            units.append([wu, ru])
        r.shuffle(units)
        self.pack("framed", units, 6)
        useqs = [[a] for a in WS] + [[a, b] for a in WS for b in WS] + r.sample(all3, 40 if self.tier == "quick" else 1000)
        self.n_chunkings["unframed"] = len(useqs)
        units = []
        for k, s in enumerate(useqs):
            wu = self.wuse("snappy", "unframed", self.writes(s, readfrom_p=0.1))
            ru = self.ruse_of(wu, self.reads(singles=[r.choice(RS)] if k % 3 == 0 else [], end=RS[k % len(RS)] if k % 8 else "writeto"))
            units.append([wu, ru])
        r.shuffle(units)
        self.pack("unframed", units, 6)

    # 2. snappy readers on reference-encoded streams (raw block, hand-framed xerial, Java block size), all buffer sizes, cuts
    def ref_readers(self):
        r = self.rng
        payloads = [("rand", 1), ("rand", 1024), ("rep", 5000), ("text", 40000), ("rand", 70000), ("rep", 140000), ("text", 140000)]
        encs = [("raw", None), ("xerial", [32768]), ("xerial", [65536]), ("xerial", [1000, 50000, 7, 32768]), ("xerial", [131072])]
        units = []
        for pc, total in payloads:
            for enc, blocks in encs:
                ps = self.pseed()
                for b in RS:
                    units.append([self.ruse_ref("snappy", r.choice(["framed", "unframed"]), enc, pc, total, self.reads([], b), blocks, pseed=ps)])
                units.append([self.ruse_ref("snappy", "framed", enc, pc, total, self.reads([], "writeto"), blocks, pseed=ps)])
                for _ in range(3 if self.tier == "quick" else 40):
                    units.append([self.ruse_ref("snappy", "framed", enc, pc, total, self.reads(), blocks, pseed=ps)])
        r.shuffle(units)
        self.pack("refread", units, 8)
        # cuts and source errors at every item boundary / inside every item, each followed by a good use of the same pool
        units = []
        for pc, total in [("text", 1024), ("rand", 70000)]:
            for enc, blocks in [("raw", None), ("xerial", [32768])]:
                nitems = 1 if enc == "raw" else 1 + 2 * ((total + 32767) // 32768)
                cuts = [{"item": nitems + 1, "part": "none", "frac": 0, "kind": "ioerr"}]
                for it in range(1, min(nitems, 5) + 1):
                    parts = ["none", "mid"] if (enc == "raw" or it > 1) else ["none", "hdr_lt8", "hdr_ge8"]
                    cuts += [{"item": it, "part": p, "frac": 0, "kind": k} for p in parts for k in ("eof", "ioerr")]
                ps = self.pseed()
                good = self.ruse_ref("snappy", "framed", enc, pc, total, self.reads([], 4096), blocks, pseed=ps)
                for c in cuts:
                    for ops in (self.reads([], 4096), self.reads([], "writeto"), self.reads([16], 1), self.reads([100000, 1], 17, close="abandon")):
                        units.append([self.ruse_ref("snappy", "framed", enc, pc, total, ops, blocks, trunc=c, pseed=ps), good])
        r.shuffle(units)
        self.pack("cuts", units, 5)

    # 3. the same use after different prefixes (fresh object first)
    def prefixes(self, codec, mode):
        r = self.rng
        big = r.choice([40000, 70000, 140000])
        flush_p = 0.3 if (codec, mode) in (("snappy", "framed"), ("gzip", ""), ("lz4", "")) else 0.0
        ok_w = self.wuse(codec, mode, self.writes([r.choice(WS), r.choice(WS)], flush_p=flush_p))
        P = {
            "ok": [ok_w, self.ruse_of(ok_w, self.reads())],
            "wfail0": [self.wuse(codec, mode, self.writes([big]), budget=0)],
            "wfailk": [self.wuse(codec, mode, self.writes([big, 1024, big]), budget=r.choice([1, 2, 3, 4]))],
            "wabandon": [self.wuse(codec, mode, self.writes([r.choice(WS), 1023], end="abandon"))],
            "wclose2": [self.wuse(codec, mode, self.writes([r.choice(WS)]) + [{"op": "close", "n": 0}])],
            "rabandon": [self.ruse_ref(codec, mode, "xerial" if codec == "snappy" else "lib", "text", 70000,
                                       self.reads([r.choice(RS)], "none", close="abandon"))],
            "rclose-mid": [self.ruse_ref(codec, mode, "raw" if codec == "snappy" else "lib", "rand", 70000,
                                         self.reads([16, 4096], "none"))],
        }
        if codec == "snappy":
            other = "unframed" if mode == "framed" else "framed"
            gw = self.wuse("snappy", other, self.writes([big, r.choice(WS)]))
            P["otherframing"] = [gw, self.ruse_of(gw, self.reads())]
            for name, cut in (("rtrunc-blk", {"item": 3, "part": "mid", "frac": 0, "kind": "eof"}),
                              ("rtrunc-hdr", {"item": 1, "part": "hdr_ge8", "frac": 0, "kind": "eof"}),
                              ("rtrunc-len", {"item": 4, "part": "mid", "frac": 0, "kind": "ioerr"}),
                              ("rtrunc-prefix-only", {"item": 3, "part": "none", "frac": 0, "kind": "eof"})):
                P[name] = [self.ruse_ref("snappy", mode, "xerial", "rand", 70000, self.reads([r.choice(RS)]), trunc=cut)]
            P["rtrunc-raw"] = [self.ruse_ref("snappy", mode, "raw", "text", 40000, self.reads([]),
                                             trunc={"item": 1, "part": "mid", "frac": 0, "kind": "eof"})]
        else:
            for frac in (0, 1, 500, 999):
                P["rtrunc-%d" % frac] = [self.ruse_ref(codec, mode, "lib", r.choice(PCLASSES), r.choice([1024, 70000]), self.reads([r.choice(RS)]),
                                                       trunc={"item": 0, "part": "none", "frac": frac, "kind": r.choice(["eof", "ioerr"])})]
        return P

    def history_variants(self):
        r = self.rng
        nprobe = 2 if self.tier == "quick" else 30
        self.n_probes = 0
        for codec, mode in [("snappy", "framed"), ("snappy", "unframed"), ("gzip", ""), ("lz4", ""), ("zstd", "")]:
            for _ in range(nprobe):
                P = self.prefixes(codec, mode)
                sizes = [r.choice(WS) for _ in range(r.randint(1, 3))]
                flush_p = 0.3 if (codec, mode) in (("snappy", "framed"), ("gzip", ""), ("lz4", "")) else 0.0
                pw = self.wuse(codec, mode, self.writes(sizes, flush_p=flush_p, readfrom_p=0.15))
                pr = self.ruse_of(pw, self.reads())
                enc = r.choice(["raw", "xerial"]) if codec == "snappy" else "lib"
                pr2 = self.ruse_ref(codec, mode, enc, r.choice(PCLASSES), r.choice([1, 1024, 40000, 70000, 140000]), self.reads())
                probe = [pw, pr, pr2]
                self.n_probes += 1
                hs = [self.hist("probe-fresh", probe)]
                names = sorted(P)
                for n in names:
                    hs.append(self.hist("probe-after-" + n, P[n] + probe))
                for _ in range(4 if self.tier == "quick" else 16):
                    pick = [r.choice(names) for _ in range(r.randint(2, 4))]
                    pre = []
                    for n in pick:
                        pre += P[n]
                    hs.append(self.hist("probe-after-" + "+".join(pick), pre + probe))
                self.add_group(hs)

    # 4. gzip, lz4, zstd: both directions, chunkings, cuts, failing sinks
    def opaque(self):
        r = self.rng
        payloads = [("rand", 1), ("rand", 1024), ("rep", 8192), ("text", 40000), ("rand", 70000), ("rep", 140000), ("text", 140000)]
        units = []
        reps = 1 if self.tier == "quick" else 40
        for codec in OPAQUE:
            fp = 0.25 if codec in ("gzip", "lz4") else 0.0
            for pc, total in payloads:
                for _ in range(reps):
                    k = r.randint(1, 4)
                    cuts = sorted(r.randint(1, total) for _ in range(k - 1)) if total > 1 else []
                    sizes = [b - a for a, b in zip([0] + cuts, cuts + [total]) if b - a > 0]
                    wu = self.wuse(codec, "", self.writes(sizes, flush_p=fp, readfrom_p=0.15), pclass=pc)
                    units.append([wu, self.ruse_of(wu, self.reads())])
                    units.append([self.ruse_ref(codec, "", "lib", pc, total, self.reads())])
            for sizes in ([1], [1024, 1], [32768, 32768], [70000], [65536, 70000, 1]):
                wu = self.wuse(codec, "", self.writes(sizes, flush_p=fp))
                units.append([wu, self.ruse_of(wu, self.reads([], RS[r.randrange(len(RS))]))])
            for frac in (0, 1, 300, 999):
                for kind in ("eof", "ioerr"):
                    units.append([self.ruse_ref(codec, "", "lib", r.choice(PCLASSES), r.choice([1024, 70000]), self.reads(),
                                                trunc={"item": 0, "part": "none", "frac": frac, "kind": kind})])
            for b in (0, 1, 2, 5):
                units.append([self.wuse(codec, "", self.writes([70000, 1024, 70000]), budget=b)])
            units.append([self.wuse(codec, "", self.writes([4096], end="abandon"))])
        r.shuffle(units)
        self.pack("opaque", units, 8)

    # 5. directed histories
    def directed(self):
        # the input buffer of an unframed writer grows (40 000 > 32 KiB) and survives Reset; the framed use that gets the object
        # cuts at the larger capacity.  Valid stream; reported as a statistic (max_block_input_bytes).
        a = self.wuse("snappy", "unframed", self.writes([40000]), pclass="rand")
        b = self.wuse("snappy", "framed", self.writes([70000]), pclass="text")
        self.add_group([self.hist("D-grown-buffer", [a, b, self.ruse_of(b, self.reads([], 4096)), self.ruse_of(a, self.reads([], "writeto"))])])
        # unframed after unframed with a grown buffer; framed after framed at every boundary size
        c = self.wuse("snappy", "unframed", self.writes([70000, 70000, 70000]))
        d = self.wuse("snappy", "unframed", self.writes([1]))
        self.add_group([self.hist("D-unframed-big-then-tiny", [c, self.ruse_of(c, self.reads([], 1)), d, self.ruse_of(d, self.reads([], 1))])])
        # a reader closed in the middle of a buffered block, then a tiny stream on the same object
        e = self.ruse_ref("snappy", "framed", "xerial", "rand", 70000, self.reads([1], "none"))
        f = self.ruse_ref("snappy", "framed", "raw", "rep", 1, self.reads([1], 1))
        g = self.ruse_ref("snappy", "framed", "xerial", "rep", 1, self.reads([], 100000))
        self.add_group([self.hist("D-reader-midblock", [e, f, g, e, g, f])])
        # gzip: header failure inside NewReader with a pooled object, then reuse
        ok = self.ruse_ref("gzip", "", "lib", "text", 40000, self.reads())
        bad = self.ruse_ref("gzip", "", "lib", "text", 40000, self.reads(), trunc={"item": 0, "part": "none", "frac": 0, "kind": "eof"})
        bad2 = self.ruse_ref("gzip", "", "lib", "rand", 1024, self.reads(), trunc={"item": 0, "part": "none", "frac": 1, "kind": "ioerr"})
        self.add_group([self.hist("D-gzip-header-fail", [ok, bad, ok, bad2, bad, ok])])

    # 6. codec values with a non-default compression level: payload classes x sizes through writer -> strict / reference decoder ->
    #    library reader, reference streams through their readers, and history probes (the snappy writer pool and all reader pools are
    #    shared by the values of all levels: the same use after uses of OTHER levels / the other framing / failed and abandoned streams)
    def levels(self):
        r = self.rng
        quick = self.tier == "quick"
        self.level_values = []
        for codec, mode, lv in level_values(self.tier):
            self.level_values.append("%s%s/%s" % (codec, "/" + mode if mode else "", lv))
            snappy = codec == "snappy"
            fp = 0.25 if (codec, mode) in (("snappy", "framed"), ("gzip", "")) else 0.0
            others = [x for x in LEVELS[codec] + [""] if x != lv]
            units = []
            shapes = [("text", [1]), ("text", [1024]), ("text", [40000]), ("text", [32768, 32769]), ("text", [70000, 1, 70000]),
                      ("rep", [5000]), ("rep", [70000]), ("rand", [1024]), ("rand", [70000])]
            if not quick:
                shapes += [(pc, [r.choice(WS) for _ in range(r.randint(1, 3))]) for pc in PCLASSES for _ in range(12)]
            for pc, sizes in shapes:
                wu = self.wuse(codec, mode, self.writes(sizes, flush_p=fp, readfrom_p=0.15), pclass=pc, level=lv)
                units.append([wu, self.ruse_of(wu, self.reads())])
            for pc, total in [("text", 70000), ("rand", 1024)]:
                enc = r.choice(["raw", "xerial"]) if snappy else "lib"
                units.append([self.ruse_ref(codec, mode, enc, pc, total, self.reads(), level=lv)])
            units.append([self.wuse(codec, mode, self.writes([70000, 1024, 70000]), budget=r.choice([0, 1, 2, 3]), level=lv)])
            r.shuffle(units)
            self.pack("level", units, 7)
            # probes
            for _ in range(1 if quick else 6):
                big = r.choice([40000, 70000, 140000])
                pw = self.wuse(codec, mode, self.writes([r.choice(WS) for _ in range(r.randint(1, 2))] + [big], flush_p=fp), pclass="text", level=lv)
                pr = self.ruse_of(pw, self.reads())
                pr2 = self.ruse_ref(codec, mode, "xerial" if snappy else "lib", "text", big, self.reads(), level=lv)
                probe = [pw, pr, pr2]
                olv = r.choice(others)
                ow = self.wuse(codec, mode, self.writes([big, r.choice(WS)]), pclass="text", level=olv)
                P = {
                    "otherlevel": [ow, self.ruse_of(ow, self.reads())],
                    "otherlevel-wfail": [self.wuse(codec, mode, self.writes([big, 1024, big]), budget=r.choice([1, 2, 3]), level=r.choice(others))],
                    "samelevel-wfail0": [self.wuse(codec, mode, self.writes([big]), budget=0, level=lv)],
                    "samelevel-wabandon": [self.wuse(codec, mode, self.writes([r.choice(WS), 1023], end="abandon"), level=lv)],
                    "otherlevel-rabandon": [self.ruse_ref(codec, mode, "xerial" if snappy else "lib", "text", 70000,
                                                          self.reads([r.choice(RS)], "none", close="abandon"), level=r.choice(others))],
                }
                if snappy:
                    om = "unframed" if mode == "framed" else "framed"
                    gw = self.wuse("snappy", om, self.writes([big, r.choice(WS)]), level=r.choice(others))
                    P["otherframing-otherlevel"] = [gw, self.ruse_of(gw, self.reads())]
                names = sorted(P)
                hs = [self.hist("level-probe-fresh", probe)] + [self.hist("level-probe-after-" + n, P[n] + probe) for n in names]
                pick = [r.choice(names) for _ in range(3)]
                hs.append(self.hist("level-probe-after-" + "+".join(pick), sum((P[n] for n in pick), []) + probe))
                self.add_group(hs)

    def all(self):
        self.directed()
        self.history_variants()
        self.framing()
        self.ref_readers()
        self.opaque()
        self.levels()
        return self.groups


# ---------------------------------------------------------------------------------------------------------------
MC_CFG = """SPECIFICATION Spec
CONSTANTS
  WSizes = {%(ws)s}
  RSizes = {1, 15, 16, 17, 4096, 32768, 100000}
  MaxWrites = %(mw)d
  MaxFlushes = %(mf)d
  Budgets <- %(budgets)s
  MaxSingles = %(singles)d
  ReadWrites = %(rw)d
  RefTotals = {%(refs)s}
  MaxTruncItem = %(trunc)d
  RefBlocks <- %(blocks)s
  Parts_ <- %(parts)s
INVARIANTS %(invs)s
CHECK_DEADLOCK FALSE
"""
ALLW = "1, 1023, 1024, 31743, 31744, 32767, 32768, 32769, 65536, 70000"
INVS = "TypeOK FrameLens RoundTrip UnframedReadable HistoryFree"


def model_check(ctx, cov):
    d = ctx.specdir(ENGINE)
    thorough = ctx.tier == "thorough"
    cfgs = {
        "writer": dict(ws=ALLW, mw=4 if thorough else 3, mf=2 if thorough else 1, budgets="BudgetsAll", singles=0, rw=0, refs="", trunc=0,
                       blocks="BlocksJava", parts="PartsWriter", invs=INVS),
        "reader": dict(ws=ALLW if thorough else "1, 32769, 70000", mw=1, mf=0, budgets="BudgetsNone",
                       singles=3 if thorough else 2, rw=1, refs="1, 1024, 40000, 70000, 140000" if thorough else "1, 1024, 70000, 140000", trunc=5, blocks="BlocksAny",
                       parts="PartsReader", invs=INVS),
        "opaque": dict(ws="1", mw=0, mf=0, budgets="BudgetsNone", singles=0, rw=0, refs="", trunc=0, blocks="BlocksJava",
                       parts="PartsOpaque", invs="TypeOK HistoryFree"),
    }
    states = trans = 0
    cov["mc"] = {}

    def one(name):
        c = cfgs[name]
        fn = "MC_gen_%s.cfg" % name
        open(os.path.join(d, fn), "w").write(MC_CFG % c)
        return ctx.tlc(ENGINE, "Codecs", fn, workers=2 if name == "opaque" else 7, timeout=2400 if thorough else 300, tag="mc-" + name)

    with ThreadPoolExecutor(max_workers=3) as ex:
        results = dict(zip(cfgs, ex.map(one, cfgs)))
    for name, c in cfgs.items():
        r = results[name]
        if r["violated"] or r["error"] or r["timeout"] or "No error has been found" not in r["out"]:
            raise Inconclusive("model checking of Codecs.tla (%s) did not pass (%s): %s" % (name, r["violated"] or "error", r["out"][-2500:]))
        cov["mc"][name] = {"states": r["distinct"], "transitions": r["generated"], "depth": r["depth"], "wall_s": round(r["wall"], 1),
                           "constants": {k: v for k, v in c.items() if k != "invs"}, "invariants": c["invs"].split()}
        states += r["distinct"]
        trans += r["generated"]
        ctx.log("MC %s ok: %d distinct / %d generated states (%.1fs)" % (name, r["distinct"], r["generated"], r["wall"]))
    # the recorded statistic: in the model as coded a framed block can exceed 32 KiB of input (BlocksWithin32K is not an invariant)
    c = dict(cfgs["writer"], mw=2, budgets="BudgetsNone", invs="BlocksWithin32K")
    open(os.path.join(d, "MC_gen_blocks.cfg"), "w").write(MC_CFG % c)
    r = ctx.tlc(ENGINE, "Codecs", "MC_gen_blocks.cfg", workers=4, timeout=240, tag="mc-blocks")
    cov["mc"]["blocks_gt_32k_reachable_in_model"] = r["violated"] == "BlocksWithin32K"
    cov["states"], cov["transitions"] = states, trans


def shard(groups, k):
    """distribute groups over k shards, balancing the number of uses"""
    shards = [[] for _ in range(k)]
    load = [0] * k
    for g in sorted(groups, key=lambda g: -sum(len(h["uses"]) for h in g)):
        i = load.index(min(load))
        shards[i] += g
        load[i] += sum(len(h["uses"]) for h in g)
    return [s for s in shards if s]


RETRY_LOCK = threading.Lock()


def drive(ctx, tag, hists, isolate=True):
    sp = os.path.join(ctx.work, "cs-%s.ndjson" % tag)
    op = os.path.join(ctx.work, "ce-%s.ndjson" % tag)
    write_ndjson(sp, hists)
    p = ctx.run_vh(["codecs", "-scripts", sp, "-out", op], timeout=1500)
    if p.returncode == 0:
        return op
    if not isolate:
        return None
    with RETRY_LOCK:
        return drive_alone(ctx, tag, hists, sp, op, p)


def drive_alone(ctx, tag, hists, sp, op, p):
    # the shards run side by side; a codec that allocates gigabytes (a length prefix read from the wrong place) can get a
    # process killed only because of its neighbours: first the same shard once more, on its own
    p2 = ctx.run_vh(["codecs", "-scripts", sp, "-out", op], timeout=1500)
    if p2.returncode == 0:
        return op
    # the process died (a fatal runtime error such as out of memory cannot be recovered inside the driver): find the history.
    # A history is blamed only when it kills a process of its own twice in a row; it is then replaced by a "crash" line.
    lines = []
    culprits = 0
    for k, h in enumerate(hists):
        one = drive(ctx, "%s-i%d" % (tag, k), [h], isolate=False)
        if one is None and drive(ctx, "%s-j%d" % (tag, k), [h], isolate=False) is None:
            culprits += 1
            u = h["uses"][-1]
            lines += [{"ev": "hist", "id": h["id"], "class": h["class"]},
                      {"ev": "crash", "hid": h["id"], "u": len(h["uses"]), "kind": u["kind"], "codec": u["codec"], "mode": u["mode"], "key": u["key"],
                       "crash": "the process running this history died (exit status %s)" % p.returncode}]
        else:
            lines += read_ndjson(one or os.path.join(ctx.work, "ce-%s-j%d.ndjson" % (tag, k)))
    if not culprits:
        raise Inconclusive("vh codecs failed on shard %s but on none of its histories alone: %s" % (tag, (p.stderr or p.stdout)[-2000:]))
    write_ndjson(op, lines)
    return op


def judge(ctx, tag, path):
    r = ctx.tlc(ENGINE, "CodecsTrace", "CodecsTrace.cfg", workers=1, timeout=1500, env={"TRACE": path}, tag="judge-" + tag, xss="64m")
    n = len(read_ndjson(path))
    m = re.search(r'<<"JUDGED", (\d+)>>', r["out"])
    if r["violated"] or r["postcondition_failed"] or r["error"] or r["timeout"] or not m or int(m.group(1)) != n:
        raise Inconclusive("the trace judge did not consume shard %s: %s" % (tag, r["out"][-2500:]))
    bad = {}
    for ln, cls in re.findall(r'<<"MISMATCH", (\d+), "(\w+)">>', r["out"]):
        bad.setdefault(int(ln), set()).add(cls)
    maxblk = {int(a): int(b) for a, b in re.findall(r'<<"MAXBLOCK", (\d+), (\d+)>>', r["out"])}
    return bad, maxblk, r


def lvl(e):
    return " level=%s" % e["level"] if e.get("level") else ""


def h_pclass(byid, e):
    return byid[e["hid"]]["uses"][e["u"] - 1].get("pclass", "?")


def describe(e):
    if e.get("ev") == "conc":
        return "%s%s%s goroutine %d of %d: %s" % (e["codec"], "/" + e["mode"] if e["mode"] else "", lvl(e), e["g"], e["goroutines"], e["first"])
    ops = " ".join("%s(%s)" % (o["op"], ",".join(map(str, o["chunks"])) if o.get("chunks") else o["n"]) for o in e["ops"])
    why = " -- reference decoder (%s): %s" % (e.get("refdec"), e["referr"]) if e.get("referr") else ""
    return "%s%s%s %s obj=%d%s: %s%s" % (e["codec"], "/" + e["mode"] if e["mode"] else "", lvl(e), "writer" if e["kind"] == "w" else "reader",
                                         e["obj"], " (pooled)" if e["reused"] else " (new)", ops, why)


def run_and_judge(ctx, shards, cov):
    """returns (events per shard, verdicts per shard)"""
    with ThreadPoolExecutor(max_workers=16) as ex:
        paths = list(ex.map(lambda a: drive(ctx, "s%d" % a[0], a[1]), enumerate(shards)))
    ctx.log("driver done: %d shards" % len(paths))
    with ThreadPoolExecutor(max_workers=16) as ex:
        res = list(ex.map(lambda a: judge(ctx, "s%d" % a[0], a[1]), enumerate(paths)))
    return paths, res


def evaluate(ctx, shards, paths, res, cov):
    uses = accepted = hist_total = hist_ok = 0
    per = {}
    div = []
    maxblock, maxblock_hist = 0, None
    samples = []
    levels = {}
    lsampled = set()
    for si, (hists, path, (bad, maxblk, r)) in enumerate(zip(shards, paths, res)):
        evs = read_ndjson(path)
        byid = {h["id"]: h for h in hists}
        hist_bad = set()
        last_bad = {}
        for ln, e in enumerate(evs, 1):
            if e["ev"] == "crash":
                hist_bad.add(e["hid"])
                uses += 1
                if len(ctx.violations) + len(ctx.known) < 12:
                    rep = ctx.save_replay("%s-u%d-Crash" % (e["hid"], e["u"]), [("script.json", json.dumps(byid[e["hid"]])), ("tlc.txt", r["out"][-5000:])])
                    ctx.violation("the %s codec crashed in use %d of history %s: %s" % (e["codec"], e["u"], e["hid"], e["crash"]), rep,
                                  key="%s%s/%s Crash history=%s use=%d %s" % (e["codec"], "/" + e["mode"] if e["mode"] else "", e["kind"],
                                                                               byid[e["hid"]]["class"], e["u"], e["crash"][:200]))
                else:
                    ctx.violations.append(("further violation in history %s" % e["hid"], ""))
                continue
            if e["ev"] != "use":
                continue
            uses += 1
            was_bad = last_bad.get((e["hid"], e["obj"]), False)
            last_bad[(e["hid"], e["obj"])] = bool(e.get("failed")) or any(o.get("res") in ("err", "stuck") or o.get("err") for o in e["ops"]) \
                or (e["kind"] == "r" and e.get("final") != "eof")
            k = e["codec"] + ("/" + e["mode"] if e["mode"] else "") + "/" + e["kind"]
            per.setdefault(k, {"uses": 0, "accepted": 0, "pooled_object": 0, "after_failed_or_unfinished": 0})
            per[k]["uses"] += 1
            per[k]["pooled_object"] += 1 if e["reused"] else 0
            per[k]["after_failed_or_unfinished"] += 1 if (e["reused"] and was_bad) else 0
            cls = bad.get(ln, set())
            lk = e["codec"] + ("/" + e["mode"] if e["mode"] else "") + "/" + (e.get("level") or "default")
            lv = levels.setdefault(lk, {"writer_uses": 0, "complete_streams_ref_decoded": 0, "blocks_ref_decoded": 0, "payload_bytes": 0,
                                        "reader_uses": 0, "uses_accepted": 0, "uses_on_pooled_object": 0, "payload_classes": set()})
            lv["uses_on_pooled_object"] += 1 if e["reused"] else 0
            lv["uses_accepted"] += 0 if cls else 1
            if e["kind"] == "w":
                lv["writer_uses"] += 1
                lv["payload_classes"].add(h_pclass(byid, e))
                if e["closed"] and not e["failed"] and e["budget"] == -1 and "RefReadable" not in cls:
                    lv["complete_streams_ref_decoded"] += 1
                    lv["blocks_ref_decoded"] += len(e["strict"]) if e["codec"] == "snappy" else 1
                    lv["payload_bytes"] += e["total"]
            else:
                lv["reader_uses"] += 1
            if e["kind"] == "w" and e["codec"] == "snappy" and e["mode"] == "framed" and maxblk.get(ln, 0) > maxblock:
                maxblock, maxblock_hist = maxblk[ln], e["hid"]
            if not cls:
                accepted += 1
                per[k]["accepted"] += 1
                if (len(samples) < 4 and (uses % 97 == 1)) or (e.get("level") and e["kind"] == "w" and e["closed"] and e["budget"] == -1
                                                               and e["codec"] == "snappy" and e["total"] > 30000 and e["level"] not in lsampled and len(lsampled) < 3):
                    if e.get("level"):
                        lsampled.add(e["level"])
                    samples.append({"history": e["hid"], "use": describe(e),
                                    "observed": {x: e[x] for x in ("frames", "hdr", "total", "eq", "refok", "refdec", "strict", "final") if x in e}})
                continue
            hist_bad.add(e["hid"])
            prop = cls - {"Model"}
            h = byid[e["hid"]]
            prior = "; ".join(describe(x) for x in evs if x.get("ev") == "use" and x.get("hid") == e["hid"] and x["u"] < e["u"])
            if prop:
                if len(ctx.violations) + len(ctx.known) < 12:
                    sub = [x for x in evs if x.get("hid") == e["hid"] or (x.get("ev") == "hist" and x.get("id") == e["hid"])]
                    rep = ctx.save_replay("%s-u%d-%s" % (e["hid"], e["u"], "+".join(sorted(prop))), [
                        ("script.json", json.dumps(h)), ("events.ndjson", "\n".join(json.dumps(x) for x in sub) + "\n"),
                        ("tlc.txt", r["out"][-20000:])])
                    ctx.violation("%s false for use %d of history %s on the real codecs: %s  [earlier uses: %s]" %
                                  ("+".join(sorted(prop)), e["u"], e["hid"], describe(e), prior or "none"), rep,
                                  key="%s %s history=%s use=%d %s" % (k, "+".join(sorted(prop)), h["class"], e["u"], describe(e)))
                else:
                    ctx.violations.append(("further violation in history %s" % e["hid"], ""))
            else:
                div.append({"history": e["hid"], "use": e["u"], "what": describe(e), "earlier": prior})
        ids = [x["id"] for x in evs if x["ev"] == "hist"]
        hist_total += len(ids)
        hist_ok += len([i for i in ids if i not in hist_bad])
    for v in levels.values():
        v["payload_classes"] = sorted(v["payload_classes"])
    cov.update({"uses_recorded": uses, "uses_accepted": accepted, "histories": hist_total, "traces_validated_against_impl": hist_ok,
                "per_codec": per, "levels": {k: levels[k] for k in sorted(levels)},
                "snappy_reference_decoder": "strict hand-written snappy block decoder (harness/cdriver/snappystrict.go); klauspost only as reference encoder", "divergences": div[:10], "divergence_count": len(div),
                "max_block_input_bytes": maxblock, "max_block_history": maxblock_hist})
    cov.setdefault("samples", []).extend(samples)
    return div


def concurrency(ctx, cov):
    out = os.path.join(ctx.work, "conc.ndjson")
    g, it = (16, 12) if ctx.tier == "quick" else (32, 400)
    p = ctx.run_vh(["codecs", "-conc", str(g), "-iters", str(it), "-out", out], timeout=1500)
    if p.returncode != 0:
        if ctx.violations:
            ctx.notes.append("the concurrency run died: " + (p.stderr or p.stdout)[-400:])
            return
        raise Inconclusive("vh codecs -conc failed: " + (p.stderr or p.stdout)[-2000:])
    bad, _, r = judge(ctx, "conc", out)
    evs = read_ndjson(out)
    for ln, e in enumerate(evs, 1):
        if ln in bad:
            rep = ctx.save_replay("conc-%s-g%d" % (e["codec"], e["g"]), [("events.ndjson", "\n".join(json.dumps(x) for x in evs) + "\n")])
            ctx.violation("concurrent use of one %s codec value: %s" % (e["codec"], describe(e)), rep,
                          key="%s%s/conc Concurrent%s %s" % (e["codec"], "/" + e["mode"] if e["mode"] else "", lvl(e), e["first"]))
            break
    vals = sorted({"%s%s/%s" % (e["codec"], "/" + e["mode"] if e["mode"] else "", e.get("level") or "default") for e in evs})
    lev = [e for e in evs if e.get("level")]
    cov["concurrency"] = {"goroutines_per_codec": g, "round_trips_per_goroutine": it, "codec_values": len(vals), "values": vals,
                          "level_values_goroutines": max([e["goroutines"] for e in lev] or [0]),
                          "level_values_round_trips_per_goroutine": max([e["iters"] for e in lev if e.get("kind") != "interleaved"] or [0]),
                          "goroutine_runs_accepted": len(evs) - len(bad), "bytes": sum(e["bytes"] for e in evs)}


def run(ctx):
    cov = {"engine": ENGINE}
    ctx.specdir(ENGINE)
    ctx.vh()
    mc_pool = ThreadPoolExecutor(max_workers=1)
    mc = mc_pool.submit(model_check, ctx, cov)       # the model is checked while the real codecs are driven and judged
    gen = Gen(ctx.seed, ctx.tier)
    groups = gen.all()
    shards = shard(groups, 14)
    nh = sum(len(g) for g in groups)
    ctx.log("generated %d histories (%d uses) in %d shards" % (nh, sum(len(h["uses"]) for g in groups for h in g), len(shards)))
    try:
        paths, res = run_and_judge(ctx, shards, cov)
        div = evaluate(ctx, shards, paths, res, cov)
        concurrency(ctx, cov)
    finally:
        mc.result()          # raises Inconclusive when the model itself does not pass
    cov["write_chunkings"] = gen.n_chunkings
    cov["probe_groups"] = gen.n_probes
    cov["level_values"] = gen.level_values
    cov["write_sizes"], cov["read_buffer_sizes"] = WS, RS
    first = shards[0][0]
    cov["samples"].append({"history_script": {"id": first["id"], "uses": first["uses"][:3]}})
    if cov["max_block_input_bytes"] > 32768:
        ctx.notes.append("observation (not a finding): a framed snappy writer that got a pooled object whose input buffer an earlier UNFRAMED "
                         "use had doubled flushes at the larger capacity: largest block seen %d input bytes in history %s. The stream is a "
                         "valid xerial stream and round-trips; modelled as coded (capacity survives Reset)." %
                         (cov["max_block_input_bytes"], cov["max_block_history"]))
    ctx.log("uses %d accepted %d; histories %d accepted %d; divergences %d" %
            (cov["uses_recorded"], cov["uses_accepted"], cov["histories"], cov["traces_validated_against_impl"], len(div)))
    if div:
        print("DIVERGENCE property=%s uses=%d first=%s" % (ctx.prop, len(div), json.dumps(div[0])[:600]), flush=True)
        ctx.notes.append("DIVERGENCE: %d use(s) of the real snappy codec are not behaviours of the model (no property predicate failed on them)" % len(div))
        if not ctx.violations:
            raise Inconclusive("%d recorded use(s) diverge from Codecs.tla although no C16 predicate failed (first: %s)" % (len(div), json.dumps(div[0])[:600]))
    return cov


def replay(ctx, path):
    """bin/check C16 --replay <dir>: run the saved history again and judge it"""
    h = json.load(open(os.path.join(path, "script.json")))
    cov = {"samples": []}
    ctx.vh()
    paths, res = run_and_judge(ctx, [[h]], cov)
    div = evaluate(ctx, [[h]], paths, res, cov)
    print("replay: %d uses, %d accepted, %d divergences" % (cov["uses_recorded"], cov["uses_accepted"], len(div)))
    return 1 if ctx.violations else 0
