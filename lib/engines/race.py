"""Engine E13 (race): C10 -- the types documented as goroutine-safe are free of data races.

TLC checks spec/race/Locks.tla (documented lock discipline vs. a transcription of the code's acquire/access/release
steps; its counterexamples are LEADS) and enumerates spec/race/ApiPrograms.tla (concurrent client programs).  The
programs -- all pairs, a seeded sample (quick) or all (thorough) of the follow/triple shapes, every lead of the lock
model -- are executed by harness/racedrv on the real types against the fake cluster in a `go build -race` binary
with no hook installed; the other engines' scenario scripts are re-run in the same binary, hooks off.  The Go race
detector is the monitor: every report whose racing frame is kafka-go code is a violation."""
import json, os, random, re, shutil, subprocess, sys, time
from concurrent.futures import ThreadPoolExecutor

from vlib import Inconclusive, write_ndjson, read_ndjson, REPO, GOENV

ENGINE = "race"
PROPS = {"C10": "exploration"}
ASSUMPTIONS = {"C10": [
    "The verdict comes from the Go race detector (go build -race, vector-clock happens-before) observing the schedules that "
    "actually occurred while the TLC-generated programs and the other engines' scenarios ran on the real code; a race on a "
    "path or in an interleaving that was not executed is not seen. The TLA+ part contributes the lock-discipline model "
    "(Locks.tla, checked by TLC; its counterexamples are leads that are turned into programs) and the enumeration of the "
    "concurrent client programs (ApiPrograms.tla); TLA+ itself does not decide data-race freedom of Go code.",
    "A report counts as a kafka-go race when the racing frame of one of its two stacks (the first frame that is not Go "
    "runtime / standard library) is non-test code of github.com/segmentio/kafka-go. Reports whose racing frames are both in "
    "the harness / fake cluster are harness bugs (listed, never a verdict). A report whose racing frames are inside "
    "klauspost/compress or pierrec/lz4 counts as a kafka-go race only when on BOTH stacks that code was called (through library "
    "frames only) from kafka-go code, i.e. kafka-go hands one third-party object to two goroutines without synchronisation (key = the "
    "two kafka-go callers); otherwise it is listed as third-party.",
    "The programs run against the in-memory fake cluster (harness/fakenet, fakekafka): its pipes and broker goroutines add "
    "the happens-before edges a network round trip implies (request written -> response read) and no others; kafka.VerifHook "
    "is nil in every run, Logger / ErrorLogger are nil in the programs of harness/racedrv.",
    "Locks.tla is a hand transcription of the lock/access sequences of the listed methods (file:line cited in the module); "
    "it can lag behind the code. It never produces a verdict: a lead that the detector does not confirm is only listed.",
]}

CHEAP = ("balancer", "codec")          # pure in-process types: every pair x every variant is run in both tiers
NVARIANT = {"balancer": 11, "codec": 11}
PROFILED = ("conn", "batch")         # Program.variant % 3 selects the API versions the brokers advertise (racedrv.versionProfiles)


# ------------------------------------------------------------------------------------------------ TLC parts
def tla_to_json(s):
    """'<<"PROG", "conn", <<<<"A">>, <<"B">>>>>>' -> python lists"""
    return json.loads(s.replace("<<", "[").replace(">>", "]"))


def printed(out, tag):
    rows = []
    for line in out.splitlines():
        line = line.strip()
        if line.startswith('"<<\\"%s\\"' % tag):
            try:
                rows.append(tla_to_json(json.loads(line)))
            except ValueError:
                raise Inconclusive("cannot parse TLC output line: " + line[:200])
    return rows


def lock_model(ctx, cov):
    cfg = "Locks_quick.cfg" if ctx.tier == "quick" else "Locks.cfg"
    r = ctx.tlc(ENGINE, "Locks", cfg, workers=16, timeout=300 if ctx.tier == "quick" else 1500)
    if r["violated"] or r["error"] or r["timeout"]:
        raise Inconclusive("TLC on Locks.tla (%s) did not pass (%s): %s" % (cfg, r["violated"] or "error", r["out"][-2500:]))
    rows = printed(r["out"], "LEAD")
    races, disc = {}, {}
    for row in rows:
        if row[1] == "race":
            _, _, typ, field, l1, k1, l2, k2 = row
            a, b = sorted([(l1[0], k1, l1[3]), (l2[0], k2, l2[3])])
            races.setdefault((typ, field, a, b), (l1, l2))
        else:
            _, _, typ, field, l1, k1, guard = row
            disc.setdefault((typ, field, l1[0], k1, guard), l1)
    # the model must still report what it has to report (self test type of Locks.tla)
    st_r = [k for k in races if k[0] == "selftest"]
    st_d = [k for k in disc if k[0] == "selftest"]
    if not any({k[2][0], k[3][0]} == {"selftest.Bad", "selftest.Good"} for k in st_r) or \
       not any(k[2][0] == "selftest.Bad" and k[3][0] == "selftest.Bad" for k in st_r) or not st_d or \
       any(k[2][0] == "selftest.Good" and k[3][0] == "selftest.Good" for k in st_r):
        raise Inconclusive("Locks.tla self test: the model does not report the seeded unlocked write (or reports the locked one)")
    leads, lead_programs = [], []
    for (typ, field, a, b), (l1, l2) in sorted(races.items()):
        if typ == "selftest":
            continue
        # label: [path, driver type, driver method of the path, driver method of the program thread it belongs to]
        m1, m2 = a[2], b[2]
        leads.append({"kind": "race", "type": typ, "field": field, "paths": [a[0], b[0]], "access": [a[1], b[1]], "methods": [m1, m2]})
        dts = {l1[1], l2[1]}
        if m1 and m2:
            for dt in sorted(dts):
                lead_programs.append((dt, m1, m2))
    for (typ, field, path, k, guard), l1 in sorted(disc.items()):
        if typ == "selftest":
            continue
        leads.append({"kind": "discipline", "type": typ, "field": field, "paths": [path], "access": [k], "guard": guard, "methods": [l1[3]]})
    cov["states"], cov["transitions"] = r["distinct"], r["generated"]
    cov["lock_model"] = {"cfg": cfg, "states": r["distinct"], "transitions": r["generated"], "depth": r["depth"], "wall_s": round(r["wall"], 1),
                         "race_leads": sum(1 for l in leads if l["kind"] == "race"),
                         "discipline_leads": sum(1 for l in leads if l["kind"] == "discipline"),
                         "selftest_leads": len(st_r) + len(st_d), "leads": leads}
    ctx.log("Locks.tla: %d distinct / %d generated states, %d race leads, %d discipline leads" %
            (r["distinct"], r["generated"], cov["lock_model"]["race_leads"], cov["lock_model"]["discipline_leads"]))
    return sorted(set(lead_programs))


def enumerate_programs(ctx, cov):
    r = ctx.tlc(ENGINE, "ApiPrograms", "ApiPrograms.cfg", workers=4, timeout=300)
    if r["violated"] or r["error"] or r["timeout"]:
        raise Inconclusive("TLC on ApiPrograms.tla did not pass: " + r["out"][-2500:])
    rows = printed(r["out"], "PROG")
    progs, seen = [], set()
    for _, typ, shape, threads in rows:
        key = (typ, tuple(sorted(tuple(t) for t in threads)))
        if key in seen:
            continue
        seen.add(key)
        progs.append({"type": typ, "shape": shape, "threads": [list(t) for t in sorted(tuple(t) for t in threads)]})
    progs.sort(key=lambda p: (p["type"], p["shape"], p["threads"]))
    cov["program_space"] = {"states": r["distinct"], "transitions": r["generated"], "programs": len(progs),
                            "by_shape": {s: sum(1 for p in progs if p["shape"] == s) for s in ("pairs", "follow", "triples")}}
    ctx.log("ApiPrograms.tla: %d programs (%s)" % (len(progs), cov["program_space"]["by_shape"]))
    return progs


def alphabet(progs):
    out = {}
    for p in progs:
        s = out.setdefault(p["type"], set())
        for t in p["threads"]:
            s.update(t)
    return out


# ------------------------------------------------------------------------------------------------ build
EXT = {"writer": "wdriver", "conn": "conndrv", "reader": "readerdrv", "group": "groupdrv"}      # cmd/vh/race_ext_<e>.go
OTHER = {"transport.go": "transdrv", "balancers.go": "bdriver", "codecs.go": "cdriver", "records.go": "recdrv"}


def build(ctx):
    """-race build with my command and the other engines' commands that compile; a driver that is being edited
    by somebody else and does not build is left out (noted), it cannot break this engine."""
    keep = ["race.go"] + ["race_ext_%s.go" % e for e in EXT] + list(OTHER)
    ctx.vh_keep = keep
    dropped = []
    for attempt in range(6):
        try:
            t0 = time.time()
            ctx.vh(race=True)
            return dropped, time.time() - t0
        except Inconclusive as e:
            msg = str(e)
            bad = [f for f, pkg in list(OTHER.items()) + [("race_ext_%s.go" % k, v) for k, v in EXT.items()]
                   if re.search(r"verifharness/%s\b|\b%s/[a-z_]+\.go" % (pkg, pkg), msg) and f not in dropped]
            if not bad:
                bad = [f for f in keep if f in msg and f != "race.go" and f not in dropped]
            if not bad:
                raise
            for f in bad:
                p = os.path.join(ctx.work, "harness", "cmd", "vh", f)
                if os.path.exists(p):
                    os.remove(p)
                dropped.append(f)
    raise Inconclusive("the -race harness does not build")


# ------------------------------------------------------------------------------------------------ race log
HDR = re.compile(r"^(Read|Write|Previous read|Previous write|Atomic read|Atomic write|Previous atomic read|Previous atomic write) at 0x[0-9a-f]+ by (.*):$")
THIRD = ("github.com/klauspost/", "github.com/pierrec/", "github.com/xdg-go/", "golang.org/x/")


def frame_class(fn, path):
    if fn.startswith("github.com/segmentio/kafka-go"):
        return "test" if path.endswith("_test.go") else "kafka"
    if fn.startswith("verifharness/") or fn.startswith("main."):
        return "harness"
    if fn.startswith(THIRD):
        return "third"
    return "std"


def parse_reports(text):
    """Split a race log into reports: [{'text':..., 'at': offset in the log, 'stacks': [the two access stacks]}]"""
    reports = []
    pos = 0
    sep = "=================="
    for block in text.split(sep):
        at = pos
        pos += len(block) + len(sep)
        if "WARNING: DATA RACE" not in block:
            continue
        lines = block.strip("\n").split("\n")
        stacks, cur, i = [], None, 0
        while i < len(lines):
            ln = lines[i]
            if HDR.match(ln.strip()):
                cur = {"what": ln.strip(), "frames": []}
                stacks.append(cur)
            elif ln.startswith("Goroutine ") or ln.strip() == "":
                cur = None
            elif cur is not None and ln.startswith("  ") and not ln.startswith("      "):
                fn = re.sub(r"\(\)$", "", ln.strip())
                loc = lines[i + 1].strip() if i + 1 < len(lines) else ""
                m = re.match(r"^(.*?):(\d+)( \+0x[0-9a-f]+)?$", loc)
                if m:
                    cur["frames"].append((fn, m.group(1), int(m.group(2))))
                    i += 1
                else:
                    cur["frames"].append((fn, "", 0))
            i += 1
        reports.append({"text": sep + "\n" + block.strip("\n") + "\n" + sep + "\n", "at": at, "stacks": stacks[:2]})
    return reports


def short_fn(fn):
    return fn.replace("github.com/segmentio/", "")


def rel_file(path):
    for root in (REPO.rstrip("/") + "/", "/repo/"):
        if path.startswith(root):
            return path[len(root):]
    m = re.search(r"/harness/(.*)$", path)
    if m:
        return "harness/" + m.group(1)
    m = re.search(r"/pkg/mod/(.*)$", path)
    return m.group(1) if m else os.path.basename(path)


def racing_frame(frames):
    """The access itself: the first frame that is not runtime / standard library. When that frame is third-party code
    (klauspost, pierrec ...) that was called, through library frames only, from kafka-go code, the kafka-go caller is returned
    as well: kafka-go is then the user of the third-party object on this side of the race."""
    for i, (fn, path, line) in enumerate(frames):
        c = frame_class(fn, path)
        if c == "std":
            continue
        owner = None
        if c == "third":
            for fn2, path2, line2 in frames[i + 1:]:
                c2 = frame_class(fn2, path2)
                if c2 in ("std", "third"):
                    continue
                if c2 == "kafka":
                    owner = (fn2, path2, line2)
                break
        return c, fn, path, line, owner
    return ("std",) + (frames[0] if frames else ("?", "", 0)) + (None,)


def classify(rep):
    sides = []
    for st in rep["stacks"]:
        c, fn, path, line, owner = racing_frame(st["frames"])
        side = {"class": c, "func": short_fn(fn), "file": rel_file(path) if path else "", "line": line, "what": st["what"],
                "entry": entry_method(st["frames"])}
        if owner:
            side["via"] = "%s@%s:%d" % (side["func"], side["file"], line)
            side.update({"class": "kafka-via-third", "func": short_fn(owner[0]), "file": rel_file(owner[1]), "line": owner[2]})
        sides.append(side)
    while len(sides) < 2:
        sides.append({"class": "unknown", "func": "?", "file": "", "line": 0, "what": "[stack not restored]", "entry": ""})
    classes = [s["class"] for s in sides]
    if "kafka" in classes:
        kind = "kafka"
    elif classes.count("kafka-via-third") == 2:
        kind = "kafka"          # both goroutines use one third-party object on behalf of kafka-go code: kafka-go shares it unsynchronised
    elif "harness" in classes:
        kind = "harness"
    elif "third" in classes or "kafka-via-third" in classes:
        kind = "third"
    else:
        kind = "other"
    names = sorted("%s@%s" % (s["func"], s["file"]) for s in sides)
    return kind, "race %s <-> %s" % (names[0], names[1]), sides


def entry_method(frames):
    """The exported kafka-go method through which the harness entered the library (outermost kafka-go frame
    called from a harness frame), or the goroutine's entry function."""
    last = ""
    for fn, path, line in frames:
        if frame_class(fn, path) == "kafka":
            last = short_fn(fn)
        elif frame_class(fn, path) == "harness" and last:
            return last
    return last


# ------------------------------------------------------------------------------------------------ execution
def gorace(prefix):
    return {"GORACE": "halt_on_error=0 exitcode=0 history_size=5 log_path=" + prefix}


def collect_logs(prefix):
    d, base = os.path.dirname(prefix), os.path.basename(prefix)
    out = []
    for f in sorted(os.listdir(d)):
        if f.startswith(base + "."):
            out.append(os.path.join(d, f))
    return out


class Runner:
    """Runs slices of work in parallel OS processes (one race log each) and attributes reports to programs."""

    def __init__(self, ctx):
        self.ctx = ctx
        self.n = 0
        self.found = {}        # key -> dict(kind, sides, text, source, replay files)
        self.stats = {"processes": 0, "reports": 0}

    def run_jobs(self, jobs, workers):
        """jobs: list of (tag, mode_args(in, out) -> argv, rows, timeout); every job is one OS process with its own race log.
        Returns the outcomes in job order."""
        ctx = self.ctx

        def one(idx_job):
            idx, job = idx_job
            tag, mode_args, rows, timeout = job[:4]
            extra_env = job[4] if len(job) > 4 else {}
            base = os.path.join(ctx.work, "%s-%d" % (tag, idx))
            write_ndjson(base + ".in.ndjson", rows)
            prefix = base + ".racelog"
            args = mode_args(base + ".in.ndjson", base + ".out.ndjson")
            t0 = time.time()
            try:
                p = ctx.run_vh(args, timeout=timeout, race=True, env=dict(gorace(prefix), **extra_env))
                rc, err = p.returncode, (p.stderr or "")[-3000:]
            except subprocess.TimeoutExpired:
                rc, err = -9, "timeout after %ds" % timeout
            res = []
            if os.path.exists(base + ".out.ndjson"):
                try:
                    res = read_ndjson(base + ".out.ndjson")
                except ValueError:
                    res = []
            text = ""
            for lp in collect_logs(prefix):
                text += open(lp, encoding="latin-1").read()
            return {"tag": tag, "idx": idx, "rows": rows, "results": res, "rc": rc, "stderr": err, "log": text, "wall": time.time() - t0,
                    "in": base + ".in.ndjson"}

        with ThreadPoolExecutor(max_workers=max(1, min(workers, len(jobs)))) as ex:
            outs = list(ex.map(one, list(enumerate(jobs))))
        self.stats["processes"] += len(outs)
        for o in outs:
            self.absorb(o["tag"], o)
        return outs

    def run_slices(self, tag, mode_args, slices, timeout, workers=14):
        return self.run_jobs([(tag, mode_args, rows, timeout) for rows in slices], workers)

    def absorb(self, tag, o):
        if not o["log"]:
            return
        # a report belongs to the program during which the log grew over its position
        reps = parse_reports(o["log"])
        self.stats["reports"] += len(reps)
        for rep in reps:
            owner = None
            for row, res in zip(o["rows"], o["results"]):
                if isinstance(res, dict) and res.get("logFrom", 0) <= rep["at"] < res.get("logTo", -1):
                    owner = row
                    break
            if owner is None and len(o["rows"]) == 1:
                owner = o["rows"][0]
            kind, key, sides = classify(rep)
            if key not in self.found:
                self.found[key] = {"kind": kind, "key": key, "sides": sides, "text": rep["text"], "source": tag, "program": owner,
                                   "slice": o["in"], "count": 0, "seen_in": set()}
            f = self.found[key]
            f["count"] += 1
            if owner is not None and "threads" in owner:
                f["seen_in"].add((owner["type"], frozenset(m for th in owner["threads"] for m in th)))


def split(rows, k):
    k = max(1, min(k, len(rows)))
    return [rows[i::k] for i in range(k)]


def choose_programs(ctx, progs, lead_programs):
    """quick: every pair + a seeded sample of the other shapes; thorough: everything. Cheap pure types: all variants."""
    rng = random.Random(ctx.seed * 1000003 + 17)
    chosen = []
    quick = ctx.tier == "quick"
    rounds = 3
    by_type = {}
    for p in progs:
        by_type.setdefault(p["type"], []).append(p)
    quota = {"conn": 400, "batch": 300, "writer": 150, "reader": 300, "greader": 120, "client": 200}     # follow + triples, quick
    for typ, ps in sorted(by_type.items()):
        pairs = [p for p in ps if p["shape"] == "pairs"]
        rest = [p for p in ps if p["shape"] != "pairs"]
        if typ in CHEAP:
            for p in (pairs if quick else ps):
                for v in range(NVARIANT[typ]):
                    chosen.append(dict(p, variant=v, rounds=rounds))
            continue
        for p in pairs:          # every method pair, in several configurations of the value
            if typ in PROFILED:  # ... and under every version profile: Conn has one code path per negotiated version
                for i in range(3 if quick else 12):
                    chosen.append(dict(p, variant=3 * rng.randrange(300) + i % 3, rounds=rounds))
                continue
            for _ in range(2 if quick else 10):
                chosen.append(dict(p, variant=rng.randrange(1000), rounds=rounds))
        if quick:
            rng.shuffle(rest)
            rest = rest[:quota.get(typ, 40)]
        for p in rest:
            for _ in range(1 if quick else 5):
                chosen.append(dict(p, variant=rng.randrange(1000), rounds=rounds))
    # the leads of the lock model: both orders of thread creation, several configurations, more rounds
    for dt, m1, m2 in lead_programs:
        for v in range(4 if quick else 12):
            chosen.append({"type": dt, "shape": "lead", "threads": [[m1], [m2]], "variant": v, "rounds": 4})
    # single-P pass (the processes of these programs run with GOMAXPROCS=1): pooled objects (codec readers / writers,
    # hashers, page buffers) are handed from one goroutine to the next through the per-P slot of sync.Pool, which a
    # multi-P run only does by chance. The cheap types again, and the Writer's produce path with every compression.
    single = []
    for typ in CHEAP:
        for p in [q for q in by_type.get(typ, []) if q["shape"] == "pairs" or not quick]:
            for v in range(NVARIANT[typ]):
                single.append(dict(p, variant=v, rounds=rounds, single_p=True))
    wr = [q for q in by_type.get("writer", []) if q["shape"] == "pairs" and any(m.startswith("Write") and m not in ("WriteEmpty", "WriteTooLarge") for th in q["threads"] for m in th)]
    for p in wr:
        for c in (1, 2, 3, 4):
            single.append(dict(p, variant=3 * c + 15 * rng.randrange(60), rounds=rounds, single_p=True))
    chosen += single
    for i, p in enumerate(chosen):
        p["id"] = "p%05d-%s-%s%s" % (i, p["type"], p["shape"], "-1p" if p.get("single_p") else "")
    return chosen


def run_programs(ctx, runner, chosen, cov):
    # spread the slow types evenly: deal programs round-robin after sorting by type
    order = sorted([p for p in chosen if not p.get("single_p")], key=lambda p: (p["shape"] != "lead", p["type"], p["id"]))      # leads first: a process reports a race once
    single = sorted([p for p in chosen if p.get("single_p")], key=lambda p: (p["type"], p["id"]))
    nproc = 14
    to = 600 if ctx.tier == "quick" else 3000
    mode = lambda i, o: ["race", "run", "-programs", i, "-out", o]
    jobs = [("prog", mode, rows, to) for rows in split(order, nproc)]
    jobs += [("prog", mode, rows, to, {"GOMAXPROCS": "1"}) for rows in (split(single, 6 if ctx.tier == "quick" else 14) if single else [])]
    t0 = time.time()
    outs = runner.run_jobs(jobs, workers=nproc + 6)
    results = {}
    for o in outs:
        if o["rc"] != 0 or len(o["results"]) != len(o["rows"]):
            raise Inconclusive("vh race run failed (rc=%s, %d results for %d programs): %s" % (o["rc"], len(o["results"]), len(o["rows"]), o["stderr"]))
        for r in o["results"]:
            results[r["id"]] = r
    per_type, methods, pairs = {}, {}, {}
    hangs, panics, skipped, calls = [], [], [], 0
    for p in chosen:
        r = results[p["id"]]
        t = per_type.setdefault(p["type"], {"programs": 0, "calls": 0, "calls_ok": 0})
        t["programs"] += 1
        t["calls"] += r["calls"]
        t["calls_ok"] += r["ok"]
        calls += r["calls"]
        methods.setdefault(p["type"], set()).update(r.get("methods") or [])
        ms = sorted({m for th in p["threads"] for m in th})
        for a in ms:
            for b in ms:
                if a <= b and (a != b or sum(th.count(a) for th in p["threads"]) > 1 or len(ms) == 1):
                    pairs.setdefault(p["type"], set()).add((a, b))
        if r.get("hang"):
            hangs.append(p["id"])
        if r.get("panic"):
            panics.append({"program": p, "panic": r["panic"]})
        if r.get("skipped"):
            skipped.append({"id": p["id"], "why": r["skipped"]})
    if skipped:
        raise Inconclusive("the driver could not run %d programs, e.g. %s" % (len(skipped), skipped[0]))
    cov["programs"] = len(chosen)
    cov["program_calls"] = calls
    cov["programs_by_type"] = per_type
    cov["programs_by_shape"] = {s: sum(1 for p in chosen if p["shape"] == s) for s in ("pairs", "follow", "triples", "lead")}
    cov["programs_single_P"] = len(single)
    cov["methods_covered"] = {t: sorted(ms) for t, ms in sorted(methods.items())}
    cov["method_pairs_covered"] = {t: len(ps) for t, ps in sorted(pairs.items())}
    cov["program_wall_s"] = round(time.time() - t0, 1)
    if hangs:
        cov["programs_hung"] = hangs[:20]
        ctx.notes.append("%d program(s) did not finish a round within the watchdog (termination is not part of C10): %s" % (len(hangs), hangs[:5]))
    if panics:
        cov["programs_panicked"] = panics[:5]
        ctx.notes.append("%d program(s) panicked inside a call, e.g. %s" % (len(panics), json.dumps(panics[0])[:300]))
    ctx.log("programs: %d run (%d calls) in %.1fs; %d race reports so far" % (len(chosen), calls, time.time() - t0, runner.stats["reports"]))
    return results


# ------------------------------------------------------------------------------------------------ other engines' scenarios
def ext_scripts(ctx, dropped):
    """(engine, scripts) of the other engines, generated by THEIR generators."""
    quick = ctx.tier == "quick"
    seed = ctx.seed
    out = []

    def want(f):
        return f not in dropped

    if want("race_ext_writer.go"):
        from engines import writer
        sc = writer.gen_scripts(seed, 60 if quick else 600)
        # gates on hook events never open without the hook: those scripts would only wait for their time-outs
        sc = [s for s in sc if "hook:" not in json.dumps(s)]
        out.append(("writer", sc[:90] if quick else sc))
    if want("race_ext_conn.go"):
        from engines import conn
        sc = conn.c06_scripts(seed, 100 if quick else 800) + conn.c11_scripts(ctx.tier)[: 30 if quick else 400]
        out.append(("conn", sc))
    if want("race_ext_reader.go"):
        from engines import reader
        sc = reader.gen_scripts(seed, 25 if quick else 400)
        out.append(("reader", sc[:45] if quick else sc))
    if want("race_ext_group.go"):
        from engines import group
        sc = group.gen_scripts(seed, "C15", 14 if quick else 250)
        sc = [s for s in sc if "hook:" not in json.dumps(s)]
        out.append(("group", sc[:28] if quick else sc))
    return out


def chunks(rows, size):
    return [rows[i:i + size] for i in range(0, len(rows), size)]


def run_ext(ctx, runner, dropped, cov):
    """The other engines' scenarios, hooks off, under the race detector. The scripts mostly wait (time-outs, batch timers):
    many small processes run side by side."""
    quick = ctx.tier == "quick"
    t0 = time.time()
    budget = 90 if quick else 420
    jobs, ext = [], {}
    per = {"writer": 2, "reader": 1, "group": 2, "conn": 8} if quick else {"writer": 12, "reader": 8, "group": 8, "conn": 40}
    for engine, scripts in ext_scripts(ctx, dropped):
        if not scripts:
            continue
        ext[engine] = {"scripts": len(scripts), "executed": 0}
        for rows in chunks(scripts, per[engine]):
            jobs.append(("ext-" + engine, lambda i, o, e=engine: ["race", "ext", "-engine", e, "-scripts", i, "-out", o], rows, budget))
    # commands of other engines that install no hook: run as they are
    if "codecs.go" not in dropped:
        g, it = (8, 3) if quick else (16, 30)
        ext["codecs"] = {"goroutines_per_codec": g, "round_trips": it, "executed": 0}
        jobs.append(("ext-codecs", lambda i, o: ["codecs", "-conc", str(g), "-iters", str(it), "-out", o], [{"id": "codecs-conc", "g": g, "iters": it}], budget * 2))
    if "balancers.go" not in dropped:
        from engines import balancers
        hs = [s for s in balancers.gen_scripts(ctx.tier, ctx.seed) if s["kind"].endswith("_conc")]
        hs = hs[:120] if quick else hs
        ext["balancers"] = {"histories": len(hs), "executed": 0}
        for rows in chunks(hs, 40 if quick else 400):
            jobs.append(("ext-balancers", lambda i, o: ["balancers", "-mode", "histories", "-in", i, "-out", o], rows, budget))
    if "records.go" not in dropped:
        from engines import records
        cases = []
        for c in records.pool_cases(ctx.tier, ctx.seed):
            c.update({"pv": 0, "fv": 0, "fmt": 2, "t0": records.T0, "origin": 0, "from": 0, "recs": [], "batches": [], "tags": ["pool"]})
            c["decodes"] = min(c["decodes"], 40 if quick else 250)      # a -race build decodes ~50x slower
            cases.append(c)
        ext["records"] = {"pool_cases": len(cases), "executed": 0}
        for c in cases:
            jobs.append(("ext-records", lambda i, o: ["records", "-cases", i, "-out", o, "-par", "2"], [c], budget * 2))
    if "transport.go" not in dropped:
        from engines import transport
        sc = transport.c12_scripts(ctx.seed, ctx.tier)
        sc = sc[:40] if quick else sc
        ext["transport"] = {"scripts": len(sc), "executed": 0}
        for rows in chunks(sc, 6 if quick else 40):
            jobs.append(("ext-transport", lambda i, o: ["transport", "-scripts", i, "-out", o, "-par", "3"], rows, budget * 2))
    jobs.sort(key=lambda j: {"ext-reader": 0, "ext-writer": 1, "ext-records": 2, "ext-codecs": 3}.get(j[0], 9))       # the slow ones first
    outs = runner.run_jobs(jobs, workers=40)
    for o in outs:
        e = ext[o["tag"][4:]]
        e["wall_s"] = max(e.get("wall_s", 0), round(o["wall"], 1))
        if o["rc"] == 0:
            e["executed"] += len(o["rows"]) if o["tag"][4:] in EXT or o["tag"] in ("ext-balancers", "ext-transport", "ext-records") else 1
        else:
            e["executed"] += len(o["results"]) if o["tag"][4:] in EXT else 0
            e["failed_processes"] = e.get("failed_processes", 0) + 1
            e["last_failure"] = "rc %s: %s" % (o["rc"], o["stderr"][-200:])
    for name, e in ext.items():
        if e.get("failed_processes"):
            ctx.notes.append("ext %s: %d process(es) ended abnormally (%s); what ran before still counts, race reports written before are kept"
                             % (name, e["failed_processes"], e["last_failure"]))
    cov["other_engines_scenarios"] = ext
    cov["other_engines_wall_s"] = round(time.time() - t0, 1)
    ctx.log("other engines' scenarios under -race: %s in %.1fs" % ({k: v["executed"] for k, v in ext.items()}, time.time() - t0))


# ------------------------------------------------------------------------------------------------ verdict
def describe(f):
    s = f["sides"]
    return "%s  [%s %s:%d in %s]  vs  [%s %s:%d in %s]" % (
        f["key"], s[0]["what"].split(" at ")[0], s[0]["file"], s[0]["line"], s[0]["entry"] or s[0]["func"],
        s[1]["what"].split(" at ")[0], s[1]["file"], s[1]["line"], s[1]["entry"] or s[1]["func"])


def report(ctx, runner, cov):
    kafka = [f for f in runner.found.values() if f["kind"] == "kafka"]
    harness = [f for f in runner.found.values() if f["kind"] == "harness"]
    third = [f for f in runner.found.values() if f["kind"] in ("third", "other")]
    for f in sorted(kafka, key=lambda f: f["key"]):
        name = re.sub(r"[^A-Za-z0-9_.-]+", "_", f["key"])[:150]
        files = [("report.txt", f["text"]), ("sides.json", json.dumps(f["sides"], indent=1)),
                 ("README.txt", "Data race reported by the Go race detector (source: %s).\nkey: %s\n"
                  "program.json is the program / script during which the report was written; slice.ndjson is everything the process "
                  "ran, in order.\nReplay: bin/check C10 quick --replay <this directory>   (re-runs slice.ndjson under -race, several times)\n"
                  % (f["source"], f["key"]))]
        if f["program"] is not None:
            files.append(("program.json", json.dumps(f["program"], indent=1)))
        files.append(("source.txt", f["source"]))
        d = ctx.save_replay(name, files)
        if os.path.exists(f["slice"]):
            shutil.copy(f["slice"], os.path.join(d, "slice.ndjson"))
        ctx.violation("data race in kafka-go: " + describe(f), d, key=f["key"])
    cov["race_reports"] = runner.stats["reports"]
    cov["distinct_kafka_races"] = len(kafka)
    cov["kafka_races"] = [{"key": f["key"], "reports": f["count"], "first_seen_in": f["source"],
                           "program": (f["program"] or {}).get("threads") if f["source"] == "prog" else (f["program"] or {}).get("id"),
                           "sides": f["sides"]} for f in sorted(kafka, key=lambda f: f["key"])]
    if harness:
        cov["harness_races"] = [{"key": f["key"], "reports": f["count"], "source": f["source"]} for f in harness]
        ctx.notes.append("HARNESS BUG: %d race report(s) whose racing frames are harness code (not a verdict about kafka-go): %s"
                         % (len(harness), "; ".join(f["key"] for f in harness)[:600]))
        for f in harness:
            ctx.save_replay("harness-" + re.sub(r"[^A-Za-z0-9_.-]+", "_", f["key"])[:120], [("report.txt", f["text"])])
    if third:
        cov["third_party_races"] = [{"key": f["key"], "reports": f["count"], "source": f["source"]} for f in third]
        ctx.notes.append("%d race report(s) inside third-party / runtime code without a racing kafka-go frame: %s"
                         % (len(third), "; ".join(f["key"] for f in third)[:600]))
        for f in third:
            ctx.save_replay("thirdparty-" + re.sub(r"[^A-Za-z0-9_.-]+", "_", f["key"])[:120], [("report.txt", f["text"])])


def confirm_leads(runner, cov):
    """A race lead of the lock model is confirmed when the detector reported a kafka-go race while a program made of exactly
    the lead's two methods (on the lead's driver type) was running. Only informative."""
    seen = set()
    for f in runner.found.values():
        if f["kind"] == "kafka":
            seen |= f["seen_in"]
    for l in cov["lock_model"]["leads"]:
        if l["kind"] == "race" and all(l["methods"]):
            dts = {"transport": ["client"], "reader": ["reader", "greader"]}.get(l["type"], [l["type"]])
            l["confirmed_by_detector"] = any((dt, frozenset(l["methods"])) in seen for dt in dts)


def run(ctx):
    cov = {"engine": "race"}
    lead_programs = lock_model(ctx, cov)
    progs = enumerate_programs(ctx, cov)
    dropped, bt = build(ctx)
    cov["race_build_s"] = round(bt, 1)
    if dropped:
        cov["commands_left_out"] = dropped
        ctx.notes.append("not part of the -race build (did not compile): " + ", ".join(dropped))
    p = ctx.run_vh(["race", "types"], race=True, timeout=60)
    if p.returncode != 0:
        raise Inconclusive("vh race types failed: " + p.stderr[-1000:])
    drv = json.loads(p.stdout)["types"]
    cov["conn_version_profiles"] = json.loads(p.stdout).get("versionProfiles")
    alpha = alphabet(progs)
    if {t: sorted(ms) for t, ms in alpha.items()} != {t: sorted(ms) for t, ms in drv.items()}:
        diff = {t: sorted(set(alpha.get(t, [])) ^ set(drv.get(t, []))) for t in set(alpha) | set(drv)}
        raise Inconclusive("method alphabets of ApiPrograms.tla and harness/racedrv differ: %s" % {t: d for t, d in diff.items() if d})
    lead_programs = [lp for lp in lead_programs if lp[0] in drv and lp[1] in drv[lp[0]] and lp[2] in drv[lp[0]]]
    chosen = choose_programs(ctx, progs, lead_programs)
    runner = Runner(ctx)
    results = run_programs(ctx, runner, chosen, cov)
    run_ext(ctx, runner, dropped, cov)
    report(ctx, runner, cov)
    confirm_leads(runner, cov)
    lm = cov["lock_model"]
    if lm["race_leads"] or lm["discipline_leads"]:
        unconf = [l for l in lm["leads"] if l["kind"] == "race" and not l.get("confirmed_by_detector")]
        ctx.notes.append("Locks.tla: %d race lead(s) (%d not confirmed by the race detector), %d discipline lead(s) (a field read or written without the "
                         "documented guard; not a race by itself) -- see coverage.lock_model.leads" % (lm["race_leads"], len(unconf), lm["discipline_leads"]))
    distinct = {(p["type"], json.dumps(p["threads"])) for p in chosen if len(p["threads"]) >= 2 and results[p["id"]]["calls"] > 0}
    cov["evaluations"] = len(chosen) + sum(v["executed"] for v in cov["other_engines_scenarios"].values())
    cov["distinct_nontrivial"] = len(distinct)
    cov["rule"] = ("evaluations = programs of ApiPrograms.tla executed by harness/racedrv under the race detector + scenario scripts of the other "
                   "engines re-run under it. A program is non-trivial when it has >= 2 threads that were released together by the start barrier on one "
                   "shared value and its calls were really executed (calls > 0); distinct = different (type, multiset of thread call sequences), "
                   "configuration variants and rounds of the same program are not counted again. quick: every method pair of every type + a "
                   "seeded sample of the follow / triple shapes + the leads of Locks.tla; thorough: the whole enumerated space. Conn / Batch pairs run under "
                   "every advertised-version profile (conn_version_profiles); the codec / balancer programs and the Writer's produce pairs with every "
                   "compression run a second time in processes with GOMAXPROCS=1 (sync.Pool hand-over between goroutines).")
    smp = [p for p in chosen if p["shape"] in ("triples", "follow", "lead")][:3] + chosen[:2] + [p for p in chosen if p.get("single_p")][:1]
    cov["samples"] = [{"program": {k: p.get(k) for k in ("id", "type", "shape", "threads", "variant", "rounds", "single_p")}, "result": results[p["id"]]} for p in smp]
    cov["exhaustive"] = False
    return cov


def replay(ctx, path):
    """bin/check C10 quick --replay <dir>: re-run the slice (or the program) of a saved violation under -race."""
    dropped, _ = build(ctx)
    src = open(os.path.join(path, "source.txt")).read().strip() if os.path.exists(os.path.join(path, "source.txt")) else "prog"
    sl = os.path.join(path, "slice.ndjson")
    if not os.path.exists(sl):
        print("nothing to replay in", path)
        return 2
    rows = read_ndjson(sl)
    runner = Runner(ctx)
    if src == "prog":
        mode = lambda i, o: ["race", "run", "-programs", i, "-out", o]
    elif src.startswith("ext-") and src[4:] in EXT:
        mode = lambda i, o, e=src[4:]: ["race", "ext", "-engine", e, "-scripts", i, "-out", o]
    else:
        print("replay of %s scenarios: run the %s command of a -race build on slice.ndjson" % (src, src))
        return 2
    runner.run_slices("replay", mode, [rows] * 6, timeout=900)
    want = ""
    m = re.search(r"^key: (.*)$", open(os.path.join(path, "README.txt")).read(), re.M) if os.path.exists(os.path.join(path, "README.txt")) else None
    if m:
        want = m.group(1).strip()
    for f in runner.found.values():
        print(("REPRODUCED " if f["key"] == want else "ALSO ") + f["kind"] + " " + describe(f))
    hit = any(f["key"] == want for f in runner.found.values())
    if hit:
        print("VIOLATION property=C10 replay=%s" % path)
    return 1 if hit else 0
