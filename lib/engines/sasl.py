"""Engine E6: SASL authentication before first use (C18).

Sasl.tla is the per-connection authentication automaton (client half = kafka-go's Dialer.connect / Transport
connGroup.connect, environment half = a broker that may reject, fail, tamper or close at any step); TLC checks the
C18 invariants on it exhaustively.  The same invariants are then evaluated by TLC (SaslTrace.tla, MSpec) on journals
recorded from REAL dials against the fake cluster for every tuple of the scenario space, and every journal is
validated as a behaviour of the automaton (TSpec).

Two further dimensions of the scenario space do not change what a journal must look like, only how hard it is for the
client to produce it: the DELIVERY of the broker's bytes (whole / length prefix first / two halves / k bytes per read,
for frames and raw tokens alike) and OVERLAPPING authentications (two or three connections authenticated at once through
ONE Dialer / ONE Transport, i.e. one sasl.Mechanism value, with the broker holding the answer to step r of connection k
until connection k+1 has started / finished its own exchange, for every r).  Every connection is judged on its own by the
same invariants; Sasl.tla is model-checked for two connections sharing a Mechanism, and a mechanism that keeps the
conversation in the shared value (Bug = "sharedConvo") is one of the vacuity guards."""
import concurrent.futures, json, os, random, re, shutil, threading
from vlib import Inconclusive, read_ndjson, write_ndjson, split_traces

ENGINE = "sasl"
PROPS = {"C18": "model_checking"}
ASSUMPTIONS = {"C18": [
    "reference server = fakekafka SASL front end: xdg-go/scram server conversation for SCRAM-SHA-256/512 (user names looked up "
    "after SASLprep), hand-written RFC 4616 check for PLAIN (empty password rejected, as Kafka does)",
    "the broker half behaves like Kafka's SaslServerAuthenticator: error 33 + mechanism list + close for an unknown mechanism, "
    "error 58 + close after a failed framed step, plain close after a failed raw step, close on any other request before the verdict",
    "the result of an API call is attributed to the connection dialled last during the call (cfg.attr); connections used only "
    "internally by the library (DialLeader's lookup connection, pooled Transport connections of concurrent requests) have no observable "
    "dial result: for them 'dial failed' is judged as closed + never used + nothing written after the failure",
    "malformed / bad-proof server messages exist for SCRAM only (PLAIN has no server message); a malformed handshake answer is a "
    "response body cut inside the error code",
    "an ApiVersions response without an entry for SaslHandshake (key 17) means handshake version 0 (raw authentication bytes) to the "
    "client, never 'no authentication'; the fake broker serves SaslHandshake / SaslAuthenticate whatever it advertised",
    "an injected 'error' answers the step with the code of the tuple (handshake: 33, 34, -1; authenticate round: 58, 34, -1) and closes "
    "the connection, for right and wrong credentials alike; after a v0 handshake no frame carries a code (one representative, 58)",
    "delivery: a piece is what one Read on the client's end of the connection returns (the length prefix alone, half a message, "
    "k bytes), as on a TCP stream segmented on its way; no byte is delayed, reordered or lost, so the expected journal of a "
    "connection does not depend on the delivery kind",
    "overlapping authentications: the connections of one Dialer / one Transport share the sasl.Mechanism VALUE and nothing else; "
    "the broker holds the answer to one step of a connection until the next connection has sent its first authentication bytes "
    "(its Mechanism.Start has run) or is through; each connection is judged on its own by the same invariants (its result is "
    "attributed by the broker address its call dialled)",
]}

INVS = ["C18_NothingBeforeAuth", "C18_FailureClosesAndFails", "C18_SuccessIffRightCreds", "C18_RawVsFramed"]
# defect class -> the invariant that must reject it on the model (vacuity guards)
GUARDS = [("useBeforeAuth", "C18_NothingBeforeAuth"), ("skipAuthV0", "C18_SuccessIffRightCreds"),
          ("ignoreAuthErr", "C18_FailureClosesAndFails"), ("noClose", "C18_FailureClosesAndFails"),
          ("sendAfterFail", "C18_FailureClosesAndFails"), ("framedV0", "C18_RawVsFramed"),
          # "authenticate only if the ApiVersions response lists SaslHandshake"
          ("skipAuthAbsent", "C18_SuccessIffRightCreds"), ("skipAuthAbsent", "C18_NothingBeforeAuth"),
          # "error code > 0" instead of "error code # 0": UNKNOWN_SERVER_ERROR (-1) passes for success
          ("negCodeOK", "C18_FailureClosesAndFails"), ("negCodeOK", "C18_NothingBeforeAuth"),
          # the Mechanism value keeps ONE conversation for all the connections authenticated with it (needs two connections)
          ("sharedConvo", "C18_SuccessIffRightCreds"), ("sharedConvo", "C18_NothingBeforeAuth")]
TWO_CONN_BUGS = {"sharedConvo"}

MECHS = ["PLAIN", "SCRAM-SHA-256", "SCRAM-SHA-512"]
HSADVS = ["absent", "v0", "v0v1", "v1"]      # ApiVersions entry of SaslHandshake: none, 0..0, 0..1, 1..1
AUTHADVS = ["absent", "v0", "v0v1"]          # ApiVersions entry of SaslAuthenticate: none, 0..0, 0..1
HS_CODES = [33, 34, -1]                      # codes of a rejected handshake (-1: UNKNOWN_SERVER_ERROR, the only negative code)
AUTH_CODES = [58, 34, -1]                    # codes of a failed authenticate round
CREDS = ["right", "wrongPassword", "unknownUser"]
ENTRIES = ["dial", "leader", "transport"]
# delivery of the broker's bytes to the client: as they come / the 4-byte length prefix alone, then the rest / prefix + first
# half, then the second half / k bytes per read (k from PIECES)
DELIVS = ["whole", "prefix", "halves", "pieces"]
PIECES = [1, 2, 3, 5, 7, 13]
# overlapping authentications through one Dialer / one Transport (one Mechanism value)
OVL_ENTRIES = ["dialovl", "transportovl"]
OVL_MODES = ["start", "lock", "done"]
CHUNK = 25000      # journal lines per TLC run


def rounds(mech):
    return 1 if mech == "PLAIN" else 2


def advmax(hsadv):
    """handshake version a correct client negotiates (AdvMax in Sasl.tla): an absent entry means version 0."""
    return 0 if hsadv in ("absent", "v0") else 1


def faults(mech, hsadv):
    """(kind, step, code) triples that are meaningful for the mechanism and the advertisement: the same set as
    FaultOK and CodeOK in Sasl.tla."""
    out = [("none", 0, 0), ("unsupported", 0, 0)]
    out += [("error", 0, c) for c in HS_CODES]
    for s in range(1, rounds(mech) + 1):
        out += [("error", s, c) for c in (AUTH_CODES if advmax(hsadv) == 1 else AUTH_CODES[:1])]
    out += [("close", s, 0) for s in range(0, rounds(mech) + 1)]
    out.append(("malformed", 0, 0))
    if mech != "PLAIN":
        out += [("malformed", 1, 0), ("malformed", 2, 0), ("badproof", 1, 0), ("badproof", 2, 0)]
    return out


# credential classes: (user, password) registered on the broker
CLASSES = {
    "ascii": ("alice", "s3cret-Pw"),
    "escape": ("us,er=x", "p=a,ss=,w"),             # ',' and '=' must be escaped in SCRAM (=2C, =3D)
    "nonascii": ("us\u00ader\u00e9", "p\u00e4ssw\u00f6rd\u00a0x"),   # soft hyphen (mapped to nothing), NBSP (mapped to space): SASLprep
    "fullwidth": ("\uff55\uff53\uff45\uff52\uff11", "\uff50\uff41\uff53\uff53"),   # NFKC folds full-width letters to ASCII
    "emptypw": ("bob", "not-empty"),                # the client supplies an empty password (wrongPassword only)
}
CLASS_ORDER = ["ascii", "escape", "nonascii", "fullwidth", "emptypw"]


def credentials(cls, creds, rng):
    user, pw = CLASSES[cls]
    sfx = "".join(rng.choice("abcdefghijkmnpqrstuvwxyz23456789") for _ in range(rng.randint(0, 6)))
    user, pw = user + sfx, pw + sfx[::-1]
    cuser, cpw = user, pw
    if creds == "wrongPassword":
        cpw = "" if cls == "emptypw" else pw + "X"
    elif creds == "unknownUser":
        cuser = user + "-nobody"
    return user, pw, cuser, cpw


def tuples():
    out = []
    for mech in MECHS:
        for hsadv in HSADVS:
            for creds in CREDS:
                for (fk, fs, fcode) in faults(mech, hsadv):
                    for entry in ENTRIES:
                        out.append((mech, hsadv, creds, fk, fs, fcode, entry))
    return out


def scenario(tup, fconn, cls, seed, k, conc=0, aa=0, dv=0):
    """aa selects the advertisement of SaslAuthenticate (rotated by the callers so that every tuple meets all three),
    dv the delivery kind."""
    mech, hsadv, creds, fk, fs, fcode, entry = tup
    if cls == "emptypw" and creds != "wrongPassword":
        cls = "ascii"
    rng = random.Random("%d/%s/%s/%d" % (seed, "-".join(map(str, tup)), cls, k))
    user, pw, cuser, cpw = credentials(cls, creds, rng)
    authadv = AUTHADVS[aa % len(AUTHADVS)]
    deliv = DELIVS[dv % len(DELIVS)]
    delivk = rng.choice(PIECES) if deliv == "pieces" else 0
    sid = "%s-hs%s-au%s-%s-%s-s%d-c%s-%s-f%d-%s-k%d-d%s%s" % (mech, hsadv, authadv, creds, fk, fs, str(fcode).replace("-", "n"), entry, fconn, cls, k,
                                                            deliv, delivk or "")
    return {"id": sid, "mech": mech, "hsadv": hsadv, "authadv": authadv, "creds": creds, "fkind": fk, "fstep": fs, "fcode": fcode,
            "fconn": fconn, "entry": entry, "conc": conc, "class": cls, "user": user, "pass": pw, "cuser": cuser, "cpass": cpw,
            "deliv": deliv, "delivk": delivk}


def last_step(mech, creds):
    """the last step of the exchange a connection reaches without injected faults (0 handshake, i authenticate round i)"""
    if creds == "right" or mech == "PLAIN":
        return rounds(mech)
    return 1 if creds == "unknownUser" else 2


def ovl_scenario(mech, hsadv, creds, entry, hold, mode, cls, seed, k, aa=0, dv=0, fault=("none", 0, 0), fconn=0, via=0):
    """len(hold)+1 connections authenticated at once through one Dialer / Transport; the answer to step hold[j] of connection
    j+1 is held until connection j+2 has started (start, lock) or finished (done) its own exchange.
    Transport: the connections are those of concurrent requests to different brokers of one pool (via "requests"; the pool's
    control connection is authenticated before, so this needs right credentials) or the control connections of several
    pools of the one Transport (via "pools")."""
    s = scenario((mech, hsadv, creds) + tuple(fault) + (entry,), fconn, cls, seed, k, aa=aa, dv=dv)
    s.update({"ovn": len(hold) + 1, "ovhold": list(hold), "ovmode": mode, "ovvia": ""})
    if entry == "transportovl":
        s["ovvia"] = "pools" if (creds != "right" or via % 2) else "requests"
    s["id"] += "-ov%d%s%s-h%s" % (len(hold) + 1, mode, s["ovvia"][:1], "".join(map(str, hold)))
    return s


def ovl_scenarios(tier, seed):
    out = []
    raw, framed = ["absent", "v0"], ["v0v1", "v1"]
    if tier == "quick":
        # every interleaving point "connection 2 starts after step r of connection 1" (r = 0 .. last step), each mechanism, Dialer
        # and Transport, raw and framed authentication bytes; right credentials under all three modes, wrong ones under one
        for mech in MECHS:
            for entry in OVL_ENTRIES:
                for creds in CREDS:
                    for r in range(0, last_step(mech, creds) + 1):
                        for mode in (OVL_MODES if creds == "right" else [OVL_MODES[(len(out) // 2 + seed) % 3]]):
                            c = len(out) // 2 + seed
                            for h, hsadv in enumerate((raw[c % 2], framed[(c // 2) % 2])):
                                cls = CLASS_ORDER[(c + h) % 4]
                                out.append(ovl_scenario(mech, hsadv, creds, entry, [r], mode, cls, seed, 0, aa=c + h, dv=c // 3 + h, via=c // 3 + h))
        return out
    for mech in MECHS:
        for entry in OVL_ENTRIES:
            # the fakenet connection ids of the overlapping connections: the Transport's control connection comes first
            base = 1 if entry == "transportovl" else 0
            for hsadv in HSADVS:
                for creds in CREDS:
                    ls = last_step(mech, creds)
                    for r in range(0, ls + 1):
                        for mode in OVL_MODES:
                            for k in range(2):
                                q = len(out) + seed
                                out.append(ovl_scenario(mech, hsadv, creds, entry, [r], mode, CLASS_ORDER[q % 4], seed, k, aa=q, dv=q // 2, via=k))
                    # three connections: every pair of holding points
                    for r1 in range(0, ls + 1):
                        for r2 in range(0, ls + 1):
                            q = len(out) + seed
                            out.append(ovl_scenario(mech, hsadv, creds, entry, [r1, r2], OVL_MODES[q % 3], CLASS_ORDER[q % 4], seed, 0, aa=q, dv=q // 2, via=q // 3))
                # the broker fails ONE of two connections (closes it / answers an error) while the other one is in its exchange
                for (fk, fs, fcode) in faults(mech, hsadv):
                    if fk not in ("close", "error", "badproof"):
                        continue
                    for fc in (base + 1, base + 2):
                        q = len(out) + seed
                        r = min(fs, rounds(mech)) if fc == base + 1 else q % (rounds(mech) + 1)
                        out.append(ovl_scenario(mech, hsadv, "right", entry, [r], OVL_MODES[q % 3], CLASS_ORDER[q % 4], seed, 0, aa=q, dv=q // 2,
                                                fault=(fk, fs, fcode), fconn=fc))
    return out


def deliv_triples(scs):
    """(mechanism, handshake advertisement, entry) -> delivery kinds met by a fault-free scenario with right credentials"""
    m = {}
    for s in scs:
        if s["creds"] == "right" and s["fkind"] == "none" and s["entry"] in ENTRIES:
            m.setdefault((s["mech"], s["hsadv"], s["entry"]), set()).add(s["deliv"])
    return m


def fconns(tup):
    """connections of the scenario at which an injected fault can be placed (0 = every connection)."""
    mech, hsadv, creds, fk, fs, fcode, entry = tup
    if fk in ("none", "unsupported") or entry == "dial":
        return [0]
    return [1, 2]


def scenarios(tier, seed):
    out = []
    tl = tuples()
    if tier == "quick":
        # every tuple once; the connection that gets the fault and the credential class rotate with the seed.
        # Tuples without an injected fault (where the outcome depends on the credentials only) run with every class.
        # The SaslAuthenticate advertisement rotates too; the fault-free tuples meet all three of them.
        # The delivery kind rotates as well; the fault-free tuples (at least four scenarios each) meet all four kinds.
        for i, t in enumerate(tl):
            fc = fconns(t)
            first = CLASS_ORDER[(i * 7 + seed) % len(CLASS_ORDER)]
            out.append(scenario(t, fc[(i + seed) % len(fc)], first, seed, 0, aa=i + seed, dv=i + seed))
            if t[3] == "none":
                j = 0
                for cls in CLASS_ORDER:
                    if cls != first and not (cls == "emptypw" and t[2] != "wrongPassword"):
                        j += 1
                        out.append(scenario(t, 0, cls, seed, 0, aa=i + seed + j, dv=i + seed + j))
        ids = set()
        out = [s for s in out if not (s["id"] in ids or ids.add(s["id"]))]
        # every (mechanism, advertisement, path) meets every delivery kind with right credentials and no injected fault
        have = deliv_triples(out)
        for mech in MECHS:
            for hsadv in HSADVS:
                for entry in ENTRIES:
                    for dv, kind in enumerate(DELIVS):
                        if kind not in have.get((mech, hsadv, entry), ()):
                            out.append(scenario((mech, hsadv, "right", "none", 0, 0, entry), 0, "ascii", seed, 1, aa=seed + dv, dv=dv))
        return out + ovl_scenarios(tier, seed)
    for i, t in enumerate(tl):
        for fc in fconns(t):
            for cls in CLASS_ORDER:
                if cls == "emptypw" and t[2] != "wrongPassword":
                    continue
                for k in range(6):
                    out.append(scenario(t, fc, cls, seed, k, aa=i + seed + k, dv=i + seed + k + CLASS_ORDER.index(cls)))
    # concurrent requests through one Transport pool: every request may dial and authenticate its own connection
    for mech in MECHS:
        for hsadv in HSADVS:
            for creds in CREDS:
                for (fk, fs, fcode) in faults(mech, hsadv):
                    for fc in ([0] if fk in ("none", "unsupported") else [2, 3, 4]):
                        t = (mech, hsadv, creds, fk, fs, fcode, "transportconc")
                        out.append(scenario(t, fc, CLASS_ORDER[(len(out) + seed) % 4], seed, 0, conc=6, aa=len(out) + seed, dv=len(out) // 3 + seed))
    return out + ovl_scenarios(tier, seed)


def tuple_of(s):
    if "hsadv" not in s:     # replay of a scenario recorded before the advertisement / code dimensions existed
        return (s["mech"], "v0v1" if s.get("hvmax") else "v0", s["creds"], s["fkind"], s["fstep"], s.get("fcode", 0), s["entry"])
    return (s["mech"], s["hsadv"], s["creds"], s["fkind"], s["fstep"], s["fcode"], s["entry"])


def model_check(ctx):
    """Sasl.tla with the correct client (all invariants + liveness) and, concurrently, one run per vacuity guard: the
    defective client must be rejected by the invariant named in GUARDS.  Every run has a private copy of the spec directory."""
    base = ctx.specdir(ENGINE)

    def private(alias):
        d = os.path.join(ctx.work, "spec-" + alias)
        if not os.path.isdir(d):
            shutil.copytree(base, d)
        return d

    def main(_):
        private(ENGINE + "-mc")
        return ctx.tlc(ENGINE + "-mc", "Sasl", "MC_quick.cfg", workers=6, timeout=600)

    def overlap(_):
        # two connections authenticated at once with one Mechanism value (same mechanism, credentials, advertisement), every
        # interleaving of their exchanges, the broker closing either of them at any step
        # (quick: the invariants; thorough: also the liveness property, which doubles the cost of the run)
        private(ENGINE + "-mc2")
        return ctx.tlc(ENGINE + "-mc2", "Sasl", "MC_overlap.cfg" if ctx.tier == "quick" else "MC_overlap_live.cfg", workers=4, timeout=600)

    def guard(k):
        bug, inv = GUARDS[k]
        alias, cfg = "%s-g%d" % (ENGINE, k), "MC_bug_%s_%s.cfg" % (bug, inv)
        two = bug in TWO_CONN_BUGS
        with open(os.path.join(private(alias), cfg), "w") as f:
            f.write('SPECIFICATION Spec\nCONSTANTS\n  Conns = %s\n  Bug = "%s"\n  MaxUse = %d\n  OneMechanism = %s\n  OvFaults = {"none"}\n'
                    'INVARIANTS %s\nCHECK_DEADLOCK FALSE\n' % ("{1, 2}" if two else "{1}", bug, 1 if two else 2, "TRUE" if two else "FALSE", inv))
        return ctx.tlc(alias, "Sasl", cfg, workers=2, timeout=300)

    with concurrent.futures.ThreadPoolExecutor(max_workers=7) as ex:
        fmain = ex.submit(main, None)
        fovl = ex.submit(overlap, None)
        # the two-connection guards take longest: first in the queue
        order = sorted(range(len(GUARDS)), key=lambda k: GUARDS[k][0] not in TWO_CONN_BUGS)
        fg = {k: ex.submit(guard, k) for k in order}
        r = fmain.result()
        r2 = fovl.result()
        gres = [fg[k].result() for k in range(len(GUARDS))]
    if r["violated"] or r["error"] or r["timeout"]:
        raise Inconclusive("model checking of Sasl.tla did not pass: " + r["out"][-2500:])
    if r2["violated"] or r2["error"] or r2["timeout"]:
        raise Inconclusive("model checking of Sasl.tla (two connections, one Mechanism) did not pass: " + r2["out"][-2500:])
    m = re.search(r"Finished computing initial states: (\d+) distinct", r["out"])
    m2 = re.search(r"Finished computing initial states: (\d+) distinct", r2["out"])
    cov = {"states": r["distinct"], "transitions": r["generated"], "mc_depth": r["depth"],
           "mc_configs": int(m.group(1)) if m else None, "mc_invariants": ["TypeOK"] + INVS, "mc_liveness": ["C18_DialTerminates"],
           "mc_two_connections_one_mechanism": {"states": r2["distinct"], "transitions": r2["generated"], "depth": r2["depth"],
                                                "configs": int(m2.group(1)) if m2 else None,
                                                "liveness_checked": ctx.tier != "quick"}}
    guards = {}
    for (bug, inv), g in zip(GUARDS, gres):
        if g["violated"] != inv:
            raise Inconclusive("vacuity guard failed: the defective client %r is not rejected by %s on the model: %s" % (bug, inv, g["out"][-800:]))
        guards.setdefault(bug, []).append(inv)
    cov["vacuity_guards"] = guards
    return cov


def run_driver(ctx, scs, tag):
    sp = os.path.join(ctx.work, "sasl-scen-%s.ndjson" % tag)
    tp = os.path.join(ctx.work, "sasl-jrnl-%s.ndjson" % tag)
    write_ndjson(sp, scs)
    p = ctx.run_vh(["sasl", "-scripts", sp, "-out", tp, "-par", "32"], timeout=1500)
    if p.returncode != 0:
        raise Inconclusive("vh sasl failed: " + (p.stderr or p.stdout)[-2000:])
    evs = read_ndjson(tp)
    bad = [e for e in evs if e.get("ev") in ("setuperror", "xnoconn")]
    if bad:
        raise Inconclusive("driver could not run %d scenario(s), first: %s" % (len(bad), json.dumps(bad[0])))
    traces = split_traces(evs)
    seen = set(t[0]["scenario"] for t in traces)
    missing = [s["id"] for s in scs if s["id"] not in seen]
    if missing:
        raise Inconclusive("no journal for %d scenario(s), first: %s" % (len(missing), missing[0]))
    return traces


def tid_of(out):
    m = re.findall(r'tid = "([^"]*)"', out)
    return m[-1] if m else None


def chunks(traces, nlines):
    cur, n = [], 0
    for t in traces:
        if cur and n + len(t) > nlines:
            yield cur
            cur, n = [], 0
        cur.append(t)
        n += len(t)
    if cur:
        yield cur


class Pool:
    """Runs chunk jobs on a few threads; every thread owns a private copy of the spec directory (alias engine name)."""

    def __init__(self, ctx, n):
        self.ctx, self.n, self.lock = ctx, n, threading.Lock()
        base = ctx.specdir(ENGINE)
        self.free = []
        for i in range(n):
            alias = "%s-w%d" % (ENGINE, i)
            d = os.path.join(ctx.work, "spec-" + alias)
            if not os.path.isdir(d):
                shutil.copytree(base, d)
            self.free.append(alias)

    def map(self, fn, jobs):
        def wrapped(job):
            with self.lock:
                alias = self.free.pop()
            try:
                return fn(alias, job)
            finally:
                with self.lock:
                    self.free.append(alias)
        with concurrent.futures.ThreadPoolExecutor(max_workers=self.n) as ex:
            return list(ex.map(wrapped, jobs))


def monitor(ctx, pool, byid, traces, maxviol=8):
    """TLC evaluates the C18 invariants in every state of every journal; a violated invariant names the journal (tid)."""
    state = {"nviol": 0}

    def job(alias, chunk):
        remaining, checked, states = list(chunk), 0, 0
        while remaining:
            with pool.lock:
                if state["nviol"] >= maxviol:
                    return checked, states, len(remaining)
            tf = os.path.join(ctx.work, "mon-in-%s.ndjson" % alias)
            write_ndjson(tf, [e for t in remaining for e in t])
            r = ctx.tlc(alias, "SaslTrace", "SaslMon.cfg", workers=1, timeout=1800, env={"TRACE": tf})
            if r["violated"]:
                tid = tid_of(r["out"])
                idx = next((i for i, t in enumerate(remaining) if t[0].get("id") == tid), None)
                if idx is None:
                    raise Inconclusive("monitor reported %s but the journal could not be identified" % r["violated"])
                bad = remaining[idx]
                sc = byid.get(bad[0]["scenario"], {})
                checked += idx + 1
                with pool.lock:
                    rep = ctx.save_replay("%s-%s" % (re.sub(r"[^A-Za-z0-9_.#-]", "_", tid), r["violated"]), [
                        ("scenario.json", json.dumps(sc, ensure_ascii=False)),
                        ("journal.ndjson", "\n".join(json.dumps(e) for e in bad) + "\n"),
                        ("tlc.txt", r["out"][-20000:])])
                    ctx.violation("%s violated on the journal of a real dial: connection %s of tuple %s" % (
                        r["violated"], tid, "/".join(map(str, tuple_of(sc))) if sc else "?"), rep, key="%s tuple=%s" % (r["violated"], tid))
                    state["nviol"] += 1
                remaining = remaining[idx + 1:]
                continue
            if r["postcondition_failed"] or r["error"] or r["timeout"]:
                raise Inconclusive("monitor run failed: " + (r["error"] or r["out"][-1500:]))
            states += r["distinct"]
            checked += len(remaining)
            remaining = []
        return checked, states, 0

    res = pool.map(job, list(chunks(traces, CHUNK)))
    skipped = sum(x[2] for x in res)
    if skipped:
        ctx.notes.append("monitor stopped after %d violations; %d journals were not monitored" % (state["nviol"], skipped))
    return sum(x[0] for x in res), sum(x[1] for x in res)


def conformance(ctx, pool, traces, maxdiv=10):
    state = {"ndiv": 0}

    def job(alias, chunk):
        remaining, accepted, divs = list(chunk), 0, []
        while remaining:
            with pool.lock:
                if state["ndiv"] >= maxdiv:
                    return accepted, divs
            tf = os.path.join(ctx.work, "conf-in-%s.ndjson" % alias)
            write_ndjson(tf, [e for t in remaining for e in t])
            r = ctx.tlc(alias, "SaslTrace", "SaslTrace.cfg", workers=1, timeout=1800, env={"TRACE": tf})
            if r["postcondition_failed"] or r["violated"]:
                m = re.search(r'"DIVERGED_AT_LINE",\s*(\d+)', r["out"])
                if not m:
                    raise Inconclusive("conformance failure could not be located: " + r["out"][-1500:])
                line, n = int(m.group(1)), 0
                for k, t in enumerate(remaining):
                    if line <= n + len(t):
                        divs.append({"trace": t[0].get("id"), "line": line - n, "event": t[line - n - 1]})
                        with pool.lock:
                            state["ndiv"] += 1
                        accepted += k
                        remaining = remaining[k + 1:]
                        break
                    n += len(t)
                else:
                    raise Inconclusive("conformance failure could not be located")
                continue
            if r["error"] or r["timeout"]:
                raise Inconclusive("conformance run failed: " + (r["error"] or r["out"][-1500:]))
            accepted += len(remaining)
            remaining = []
        return accepted, divs

    res = pool.map(job, list(chunks(traces, CHUNK)))
    return sum(x[0] for x in res), [d for x in res for d in x[1]]


def run(ctx):
    ctx.vh_keep = ["sasl.go"]
    tier, seed = ctx.tier, ctx.seed
    cov = {"engine": ENGINE}
    scs = scenarios(tier, seed)
    byid = {s["id"]: s for s in scs}
    ctx.vh()       # build first: the dials are timing-neutral (gates, no sleeps), but the build should not compete with TLC
    with concurrent.futures.ThreadPoolExecutor(max_workers=1) as ex:
        fmc = ex.submit(model_check, ctx)       # TLC on the model while the real dials run
        try:
            traces = run_driver(ctx, scs, "main")
        finally:
            mc = fmc.result()
    cov.update(mc)
    ctx.log("Sasl MC ok: %d distinct states, %d configurations; two connections with one Mechanism: %d states; %d vacuity guards" % (
        cov["states"], cov["mc_configs"] or 0, cov["mc_two_connections_one_mechanism"]["states"], len(GUARDS)))
    ctx.log("driver: %d scenarios, %d connection journals, %d lines" % (len(scs), len(traces), sum(len(t) for t in traces)))
    pool = Pool(ctx, 1 if len(traces) < 3000 else 6)
    checked, mstates = monitor(ctx, pool, byid, traces)
    ctx.log("monitor: %d journals" % checked)
    accepted, divs = conformance(ctx, pool, traces, maxdiv=3 if ctx.violations else 10)
    ctx.log("conformance: %d journals accepted, %d divergences" % (accepted, len(divs)))
    tl = set(tuples())
    covered = set(tuple_of(s) for s in scs)
    outcomes = {}
    for t in traces:
        res = next((e["res"] for e in t if e.get("ev") == "result"), "internal")
        key = "%s/%s" % (t[0]["entry"], res)
        outcomes[key] = outcomes.get(key, 0) + 1
    by_entry = {}
    for s in scs:
        by_entry[s["entry"]] = by_entry.get(s["entry"], 0) + 1
    # delivery kinds and overlapping authentications: what the run really exercised
    dt = deliv_triples(scs)
    deliv_by_kind = {}
    for s in scs:
        deliv_by_kind[s["deliv"]] = deliv_by_kind.get(s["deliv"], 0) + 1
    ovl = [s for s in scs if s.get("ovn")]
    holds, releases, points = 0, {}, set()
    for t in traces:
        sc = byid.get(t[0]["scenario"], {})
        for e in t:
            if e.get("ev") == "hold" and e.get("until") != "peeradvanced":
                holds += 1
                points.add("%s/%s%s/%s/step%d/%s" % (sc.get("mech"), sc.get("entry"), ("-" + sc["ovvia"]) if sc.get("ovvia") else "",
                                                     "raw" if advmax(sc.get("hsadv")) == 0 else "framed", e["round"], sc.get("ovmode")))
            elif e.get("ev") == "release":
                releases[e["why"]] = releases.get(e["why"], 0) + 1
    if releases.get("watchdog"):
        ctx.notes.append("%d held answer(s) were released by the watchdog, not by the awaited event" % releases["watchdog"])

    def sample(t):
        return {"id": t[0]["id"], "cfg": {k: t[0].get(k) for k in ("mech", "hsadv", "authadv", "creds", "fkind", "fstep", "fcode", "attr", "entry", "class", "deliv", "ov")},
                "journal": ["%s %s" % (e["ev"], e.get("api") or e.get("what") or e.get("res") or e.get("until") or e.get("why") or e.get("closed", "")) for e in t[1:] if e["ev"] not in ("write", "open", "use")]}

    cov.update({
        "traces_validated_against_impl": accepted, "traces_monitored": checked, "monitor_states": mstates,
        "scenarios": len(scs), "scenarios_by_entry": by_entry, "connection_journals": len(traces),
        "journal_lines": sum(len(t) for t in traces),
        "tuples_total": len(tl), "tuples_covered": len(covered & tl), "tuples_extra_concurrent": len(covered - tl),
        "credential_classes": sorted(set(s["class"] for s in scs)),
        "journals_by_entry_and_result": outcomes,
        "divergence_count": len(divs), "divergences": divs[:10], "invariants": INVS,
        "delivery_kinds": deliv_by_kind,
        "delivery_triples_meeting_all_kinds": "%d of %d (mechanism, handshake advertisement, path), right credentials, no injected fault" % (
            sum(1 for v in dt.values() if len(v) == len(DELIVS)), len(MECHS) * len(HSADVS) * len(ENTRIES)),
        "overlap_scenarios": len(ovl), "overlap_connections_max": max([s["ovn"] for s in ovl] or [0]),
        "overlap_holds": holds, "overlap_releases": releases, "overlap_points": len(points),
        "overlap_points_sample": sorted(points)[:6],
        "samples": [sample(traces[0]), sample(traces[len(traces) // 2]), sample(traces[-1])],
    })
    if divs:
        ctx.notes.append("DIVERGENCE: %d journal(s) of real dials are not behaviours of Sasl.tla" % len(divs))
        print("DIVERGENCE property=%s traces=%d first=%s" % (ctx.prop, len(divs), json.dumps(divs[0])[:400]), flush=True)
    return cov


def replay(ctx, path):
    """bin/check C18 quick --replay <dir>: dials the scenario of <dir>/scenario.json again and lets TLC judge the journals."""
    sp = os.path.join(path, "scenario.json")
    if not os.path.exists(sp):
        raise Inconclusive("no scenario.json in " + path)
    ctx.vh_keep = ["sasl.go"]
    sc = json.load(open(sp))
    traces = run_driver(ctx, [sc], "replay")
    pool = Pool(ctx, 1)
    checked, _ = monitor(ctx, pool, {sc["id"]: sc}, traces)
    accepted, divs = conformance(ctx, pool, traces)
    for t in traces:
        print("journal %s: %s" % (t[0]["id"], " | ".join("%s %s" % (e["ev"], e.get("api") or e.get("what") or e.get("res") or e.get("until") or e.get("why") or e.get("closed", ""))
                                                          for e in t[1:] if e["ev"] not in ("write", "open", "use"))), flush=True)
    if divs:
        print("DIVERGENCE property=%s traces=%d first=%s" % (ctx.prop, len(divs), json.dumps(divs[0])[:400]), flush=True)
    if not ctx.violations:
        print("replay: %d journal(s) monitored, %d accepted by Sasl.tla, no C18 invariant violated" % (checked, accepted), flush=True)
    return 1 if ctx.violations else 0
