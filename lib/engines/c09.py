"""C09 is assembled from the lifecycle parts of several engines (DESIGN 6.6)."""
from engines import writer

PROPS = {"C09": "model_checking"}


def run(ctx):
    cov = writer.run(ctx)
    return cov
