"""C09 is assembled from the lifecycle parts of several engines (DESIGN 6.6): Writer (Writer.tla), group Reader and
ConsumerGroup (Group.tla + GroupMon.tla), non-group Reader (FetchMon.tla), Transport round trips (added with engine E5)."""
from engines import writer, group, reader

PROPS = {"C09": "model_checking"}


def run(ctx):
    import os
    keep = ["writer.go", "group.go", "reader.go", "conn.go"]
    if os.path.exists(os.path.join(os.path.dirname(__file__), "transport.py")):
        keep.append("transport.go")
    ctx.vh_keep = keep
    cov = writer.run(ctx)                       # Writer.Close / use after close / cancellation (C09w_*)
    parts = {"writer": {k: cov.get(k) for k in ("states", "transitions", "traces_validated_against_impl", "scripts_generated")}}
    g = group.run_part(ctx, "C09")             # Reader.Close / ConsumerGroup.Close: leave, quiet afterwards, connections closed
    parts["group"] = {k: g.get(k) for k in ("traces_validated_against_impl", "scenarios", "trace_events", "invariants")}
    cov["traces_validated_against_impl"] = (cov.get("traces_validated_against_impl") or 0) + (g.get("traces_validated_against_impl") or 0)
    # non-group Reader.Close under the watchdog
    scripts = reader.gen_scripts(ctx.seed, 30 if ctx.tier == "quick" else 300)
    traces = reader.run_scripts(ctx, scripts, "c09")
    n = reader.monitor(ctx, scripts, traces, ["C09r_CloseReturns"])
    parts["reader"] = {"traces_monitored": n, "invariants": ["C09r_CloseReturns"]}
    cov["traces_validated_against_impl"] += n
    try:
        from engines import transport
        t = transport.run_part(ctx, "C09")
        parts["transport"] = {k: t.get(k) for k in t if k != "samples"}
        cov["traces_validated_against_impl"] += t.get("traces_validated_against_impl") or 0
    except ImportError:
        parts["transport"] = "engine not built yet"
    except Exception as e:
        if "not built yet" not in str(e):
            raise
        parts["transport"] = str(e)
    cov["parts"] = parts
    return cov


def replay(ctx, path):
    from engines import replayer
    return replayer.replay(ctx, path)
