"""Engine E9 `balancers` (C13): kafka-go's built-in partition balancers against the reference partitioners.

Method (DESIGN 6.11, patterns 1-3 of docs/ENGINE_GUIDE.md):
  1. TLC checks the anchors of spec/balancers/Hash32.tla (published FNV-1a / CRC-32 / Kafka murmur2 vectors,
     as ASSUMEs) and model-checks the RoundRobin / LeastBytes machines of Balancers.tla under concurrent use
     (MCBalancers.tla), including that the history judge accepts every history of the model.
  2. Inputs are generated here (exhaustive small scope + seeded random + directed corner keys; sequential and
     concurrent call scripts), 3. executed on the REAL balancers by `vh balancers`, and 4. judged by TLC:
     HashCheck.tla compares every result with the set Balancers.tla allows; HistCheck.tla searches a
     linearisation of every recorded RoundRobin / LeastBytes history.  Python only shards, counts and reports.
"""
import itertools, json, os, random, re
from concurrent.futures import ThreadPoolExecutor
from vlib import Inconclusive, read_ndjson, write_ndjson

ENGINE = "balancers"
PROPS = {"C13": "model_checking"}
ASSUMPTIONS = {"C13": [
    "Reference semantics are those of Sarama's hashPartitioner (referenceAbs false/true), librdkafka's "
    "consistent / consistent_random and murmur2 / murmur2_random partitioners and Kafka's Java "
    "Utils.murmur2 + toPositive, written in TLA+ from their definitions and anchored by published test vectors "
    "(FNV test_fnv.c, CRC-32 check value, Kafka UtilsTest.testMurmur2).",
    "Partition lists are the contiguous lists 0..n-1 a Writer supplies (loadCachedPartitions); n <= 32768.",
    "Where the reference partitioner is random (nil key; empty key for consistent_random) the result is only "
    "required to be one of the offered partitions; no distribution is checked.",
    "LeastBytes: 'bytes routed so far' are counted since the partition list last changed length (a change "
    "means the topic was repartitioned and the balancer starts a new account, as balancer.go documents).",
    "RoundRobin: fewer than 2^32 messages (the uint32 counter does not wrap); ChunkSize < 1 means 1.",
    "Concurrent histories depend on the Go scheduler: 2..8 goroutines on one balancer value, invoke/return "
    "stamped by one atomic counter; TLC explores all linearisations of each recorded history.",
    "TLC's Java overrides for Bitwise (^^, &) and SequencesExt!FoldLeft are trusted; the anchor vectors "
    "exercise them in every run.",
]}

NS = [1, 2, 3, 5, 7, 12, 16, 31, 32]
ALPHABET = [0x00, 0x61, 0x80, 0xFF]
VARIANTS = [("hash", False), ("refhash", False), ("crc32", False), ("crc32", True),
            ("murmur2", False), ("murmur2", True)]
# keys whose FNV-1a / CRC-32 / murmur2 value is 0, 2^31-1, 2^31, 2^31+1, 2^32-1 (confirmed by ASSUME CornerKeys)
CORNER_KEYS = [
    [64, 0, 218, 76, 59], [126, 0, 89, 10, 89], [226, 0, 235, 108, 48], [158, 0, 141, 9, 146], [184, 0, 131, 36, 71],
    [114, 0, 245, 208, 1], [253, 0, 17, 196, 181], [172, 0, 133, 142, 59], [200, 0, 38, 32, 170], [35, 0, 97, 154, 143],
    [43, 0, 36, 7, 246], [137, 0, 125, 124, 254], [254, 4, 6, 97, 209], [159, 0, 220, 121, 81], [142, 0, 205, 11, 164],
]
ANCHOR_KEYS = ["a", "foobar", "123456789", "21", "abc", "a-little-bit-long-string", "a-little-bit-longer-string",
               "lkjh234lh9fiuh90y23oiuhsafujhadof229phr9h19h89h8"]
# MCBalancers configurations: name -> (Kind, Threads, MaxCalls, Chunks, Ns, Sizes, NChange, invariants)
RR_INVS = "Offered_Inv RR_Runs RR_Even Judge_Accepts"
LB_INVS = "Offered_Inv LB_PicksFewest LB_Account LB_Spread Judge_Accepts"
MC_CONFIGS = {
    "quick": {
        "rr_seq": ("rr", "{1}", 20, "{0, 1, 2, 3}", "{1, 2, 3, 4}", "{0}", "FALSE", RR_INVS),
        "rr_conc": ("rr", "{1, 2, 3}", 4, "{1, 2}", "{2, 3}", "{0}", "FALSE", RR_INVS),
        "lb_seq": ("lb", "{1}", 5, "{0}", "{1, 2, 3}", "{0, 1, 5}", "FALSE", LB_INVS),
        "lb_conc": ("lb", "{1, 2, 3}", 3, "{0}", "{3}", "{0, 5}", "FALSE", LB_INVS),
        "lb_nchange": ("lb", "{1, 2}", 3, "{0}", "{2, 3}", "{5}", "TRUE", LB_INVS.replace(" LB_Spread", "")),
    },
    "thorough": {
        "rr_seq": ("rr", "{1}", 40, "{0, 1, 2, 3, 4}", "{1, 2, 3, 4, 5}", "{0}", "FALSE", RR_INVS),
        "rr_conc": ("rr", "{1, 2, 3}", 5, "{1, 2}", "{2, 3}", "{0}", "FALSE", RR_INVS),
        "lb_seq": ("lb", "{1}", 7, "{0}", "{1, 2, 3}", "{0, 1, 5}", "FALSE", LB_INVS),
        "lb_conc": ("lb", "{1, 2, 3}", 3, "{0}", "{2, 3}", "{0, 1, 5}", "FALSE", LB_INVS),
        "lb_conc4": ("lb", "{1, 2}", 4, "{0}", "{2, 3}", "{0, 5}", "FALSE", LB_INVS),
        "lb_nchange": ("lb", "{1, 2}", 3, "{0}", "{2, 3}", "{0, 1, 5}", "TRUE", LB_INVS.replace(" LB_Spread", "")),
    },
}
JVM = {"JAVA_TOOL_OPTIONS": "-Xmx3g -XX:ParallelGCThreads=2"}
TLC_EXTRA = ["-noGenerateSpecTE"]
MAX_REPORTS = 12           # VIOLATION lines per run (all mismatches are counted in the evidence)


def keyhex(v):
    return "nil" if v["isnil"] else "0x" + bytes(v["key"]).hex()


# ---- input generation ---------------------------------------------------------------------------
def gen_vectors(tier, seed):
    maxlen = 4 if tier == "quick" else 6
    nrandom = 400 if tier == "quick" else 12000
    rng = random.Random(seed * 1000003 + 13)
    keys = [(True, [])]
    for ln in range(maxlen + 1):
        for t in itertools.product(ALPHABET, repeat=ln):
            keys.append((False, list(t)))
    n_exh = len(keys)
    vs = []
    for b, cons in VARIANTS:
        for isnil, k in keys:
            vs.append({"b": b, "consistent": cons, "isnil": isnil, "key": k, "ns": NS, "src": "exhaustive"})
    for b, cons in VARIANTS:
        for k in CORNER_KEYS + [list(s.encode()) for s in ANCHOR_KEYS]:
            vs.append({"b": b, "consistent": cons, "isnil": False, "key": k, "ns": NS + [1000, 32767, 32768], "src": "directed"})
    for j in range(nrandom):
        ln = 5 + (j % 60) if j % 7 else rng.randint(65, 200)          # every length 5..64 (all lengths mod 4), some longer
        mode = rng.random()
        if mode < 0.5:
            k = [rng.randrange(256) for _ in range(ln)]
        elif mode < 0.75:
            k = [rng.choice([0x80, 0xFF, 0xFE, 0x7F, 0x00, 0x01]) for _ in range(ln)]
        else:
            k = [rng.randrange(0x20, 0x7F) for _ in range(ln)]
        ns = sorted(set(rng.sample(NS, 3) + [rng.randint(1, 2000), rng.choice([4, 6, 8, 9, 10, 24, 64, 100, 255, 256, 257, 32768])]))
        for b, cons in VARIANTS:
            vs.append({"b": b, "consistent": cons, "isnil": False, "key": k, "ns": ns, "src": "random"})
    for i, v in enumerate(vs):
        v["id"] = i + 1
    return vs, {"exhaustive_keys": n_exh, "max_exhaustive_len": maxlen, "random_keys": nrandom,
                "directed_keys": len(CORNER_KEYS) + len(ANCHOR_KEYS)}


def split_size(rng, s):
    k = rng.randint(0, s)
    return k, s - k


def gen_scripts(tier, seed):
    rng = random.Random(seed * 7919 + 5)
    out = []
    C = lambda n, s=0: dict(zip(("klen", "vlen"), split_size(rng, s)), n=n)
    # sequential RoundRobin: every ChunkSize -1..3 (<1 means 1), n 1..4, at least 3 full cycles
    for chunk in [-1, 0, 1, 2, 3] + ([5] if tier == "thorough" else []):
        for n in range(1, 5 if tier == "quick" else 7):
            calls = 3 * max(chunk, 1) * n + 2
            out.append({"id": "rr-seq-c%d-n%d" % (chunk, n), "b": "rr", "chunk": chunk, "kind": "rr_seq",
                        "threads": [[C(n, rng.choice([0, 1, 5])) for _ in range(calls)]]})
    # sequential LeastBytes: every size sequence of length L over {0,1,5} (prefix-closed), n 1..3
    L = 4 if tier == "quick" else 6
    for n in (1, 2, 3):
        for j, sizes in enumerate(itertools.product([0, 1, 5], repeat=L)):
            out.append({"id": "lb-seq-n%d-%d" % (n, j), "b": "lb", "chunk": 0, "kind": "lb_seq",
                        "threads": [[C(n, s) for s in sizes]]})
    # sequential LeastBytes, longer random runs with changing partition counts
    for j in range(40 if tier == "quick" else 600):
        n = rng.randint(1, 8)
        calls = []
        for _ in range(rng.randint(8, 16)):
            if rng.random() < 0.12:
                n = rng.randint(1, 8)
            calls.append(C(n, rng.choice([0, 1, 2, 5, 5, 17, rng.randint(0, 1000)])))
        out.append({"id": "lb-rnd-%d" % j, "b": "lb", "chunk": 0, "kind": "lb_seq", "threads": [calls]})
    # concurrent histories: 2..8 goroutines, <= 16 calls on one balancer value
    nconc = 150 if tier == "quick" else 2500
    for j in range(nconc):
        t = rng.randint(2, 8)
        per = rng.randint(1, max(1, 16 // t))
        n = rng.randint(1, 4)
        chunk = rng.choice([0, 1, 1, 2, 3])
        out.append({"id": "rr-conc-%d" % j, "b": "rr", "chunk": chunk, "kind": "rr_conc",
                    "threads": [[C(n) for _ in range(per)] for _ in range(t)]})
        t = rng.randint(2, 8)
        per = rng.randint(1, max(1, 16 // t))
        n = rng.randint(1, 4)
        nchange = rng.random() < 0.15
        sizes = rng.choice([[0, 1, 5], [1], [0, 0, 3], [1, 2, 3, 4, 5, 6, 7], [5, 100]])
        out.append({"id": "lb-conc-%d" % j, "b": "lb", "chunk": 0, "kind": "lb_conc",
                    "threads": [[C(rng.randint(1, 4) if nchange and rng.random() < 0.3 else n, rng.choice(sizes))
                                 for _ in range(per)] for _ in range(t)]})
    return out


# ---- TLC runs -------------------------------------------------------------------------------------
def model_check(ctx, cov):
    """Anchors (ASSUMEs of Hash32/MCBalancers, evaluated at start-up) + invariants of the state machines."""
    table = MC_CONFIGS[ctx.tier]
    cfgs = list(table)
    d = ctx.specdir(ENGINE)
    for name, (kind, threads, maxcalls, chunks, ns, sizes, nchange, invs) in table.items():
        with open(os.path.join(d, "MCrun_%s.cfg" % name), "w") as f:
            f.write('SPECIFICATION Spec\nCONSTANTS\n  Kind = "%s"\n  Threads = %s\n  MaxCalls = %d\n  Chunks = %s\n'
                    '  Ns = %s\n  Sizes = %s\n  NChange = %s\nINVARIANTS %s\nCHECK_DEADLOCK FALSE\n'
                    % (kind, threads, maxcalls, chunks, ns, sizes, nchange, invs))

    def one(name):
        return name, ctx.tlc(ENGINE, "MCBalancers", "MCrun_%s.cfg" % name, workers=3, timeout=1500, env=JVM,
                             extra=TLC_EXTRA, tag="mc-" + name)
    with ThreadPoolExecutor(max_workers=len(cfgs)) as ex:
        res = list(ex.map(one, cfgs))
    mc = {}
    for name, r in res:
        if "Assumption" in r["out"] and "is false" in r["out"]:
            raise Inconclusive("an anchor ASSUME of the TLA+ hash definitions is false: " + r["out"][-1500:])
        if r["violated"] or r["error"] or r["timeout"] or "No error has been found" not in r["out"]:
            raise Inconclusive("model checking MCBalancers/%s did not pass (%s): %s" % (name, r["violated"] or "error", r["out"][-2000:]))
        mc[name] = {"states": r["distinct"], "transitions": r["generated"], "depth": r["depth"],
                    "constants": dict(zip(("Kind", "Threads", "MaxCalls", "Chunks", "Ns", "Sizes", "NChange"), table[name][:7]))}
    cov["model_checking"] = mc
    cov["anchors_checked"] = ["Arith", "FnvVectors", "CrcVectors", "MurmurVectors", "FormulasStayInRange",
                              "MinInt32Corner", "CornerKeys"]
    return sum(m["states"] for m in mc.values()), sum(m["transitions"] for m in mc.values())


def shards_of(rows, n):
    n = max(1, min(n, len(rows)))
    size = (len(rows) + n - 1) // n
    return [rows[i:i + size] for i in range(0, len(rows), size)]


def judge_vectors(ctx, outs, nshards, par):
    """Returns (states, transitions, mismatches [(vector, j, n, got, expected)], tlc_outputs)."""
    pieces = shards_of(outs, nshards)

    def one(k):
        path = os.path.join(ctx.work, "vec-%d.ndjson" % k)
        write_ndjson(path, [{f: v[f] for f in ("b", "consistent", "isnil", "key", "ns", "out")} for v in pieces[k]])
        r = ctx.tlc(ENGINE, "HashCheck", "HashCheck.cfg", workers=1, timeout=1500, env=dict(JVM, VECTORS=path),
                    extra=TLC_EXTRA, tag="hash-%d" % k)
        return k, r
    with ThreadPoolExecutor(max_workers=par) as ex:
        res = list(ex.map(one, range(len(pieces))))
    states = trans = 0
    mism = []
    for k, r in res:
        found = sorted(set(re.findall(r'<<"MISMATCH", (\d+), (\d+), (\d+), (-?\d+), (-?\d+)>>', r["out"])),
                       key=lambda t: (int(t[0]), int(t[1])))
        if r["violated"] == "AllMatch" and found:
            for idx, j, n, got, exp in found:
                v = pieces[k][int(idx) - 1]
                if v["ns"][int(j) - 1] != int(n) or v["out"][int(j) - 1] != int(got):
                    raise Inconclusive("MISMATCH line of TLC does not match the vector file: %r" % ((idx, j, n, got, exp),))
                mism.append((v, int(j) - 1, int(n), int(got), int(exp), r["out"][-3000:]))
        elif r["violated"] or r["error"] or r["timeout"] or r["postcondition_failed"] or found \
                or "No error has been found" not in r["out"]:
            raise Inconclusive("HashCheck shard %d failed (%s): %s" % (k, r["violated"] or "error", r["out"][-2000:]))
        if r["distinct"] != len(pieces[k]) + 1:
            raise Inconclusive("HashCheck shard %d judged %d of %d lines" % (k, r["distinct"] - 1, len(pieces[k])))
        states += r["distinct"]
        trans += r["generated"]
    return states, trans, mism


def judge_histories(ctx, hists, nshards, par):
    """Returns (states, transitions, accepted, failures [(history, why, tlc_tail)], unjudged)."""
    pieces = shards_of(hists, nshards)
    fields = ("t", "inv", "ret", "n", "size", "out")

    def one(k):
        remaining = list(pieces[k])
        st = tr = acc = 0
        fails = []
        rounds = 0
        while remaining:
            rounds += 1
            path = os.path.join(ctx.work, "hist-%d-%d.ndjson" % (k, rounds))
            write_ndjson(path, [{"id": h["id"], "b": h["b"], "chunk": h["chunk"],
                                 "calls": [{f: c[f] for f in fields} for c in h["calls"]]} for h in remaining])
            r = ctx.tlc(ENGINE, "HistCheck", "HistCheck.cfg", workers=1, timeout=1500, env=dict(JVM, HISTORIES=path),
                        extra=TLC_EXTRA, tag="hist-%d-%d" % (k, rounds))
            st += r["distinct"]
            tr += r["generated"]
            if r["violated"] in ("ResultsOffered", "RRMultiset"):
                m = re.findall(r"/\\ h = (\d+)", r["out"])
                if not m:
                    return k, st, tr, acc, fails, len(remaining), "no state in TLC output: " + r["out"][-1500:]
                i = int(m[-1])
                why = r["violated"]
            elif r["postcondition_failed"]:
                m = re.findall(r'<<"UNEXPLAINED", (\d+), "([^"]*)">>', r["out"])
                if not m or remaining[int(m[-1][0]) - 1]["id"] != m[-1][1]:
                    return k, st, tr, acc, fails, len(remaining), "cannot locate the unexplained history: " + r["out"][-1500:]
                i = int(m[-1][0])
                why = "no linearisation is allowed by the model"
            elif r["violated"] or r["error"] or r["timeout"] or "No error has been found" not in r["out"]:
                return k, st, tr, acc, fails, len(remaining), "HistCheck failed (%s): %s" % (r["violated"] or "error", r["out"][-1500:])
            else:
                acc += len(remaining)
                remaining = []
                break
            acc += i - 1
            fails.append((remaining[i - 1], why, r["out"][-3000:]))
            remaining = remaining[i:]
            if rounds >= 8 and remaining:
                return k, st, tr, acc, fails, len(remaining), None
        return k, st, tr, acc, fails, 0, None
    with ThreadPoolExecutor(max_workers=par) as ex:
        res = list(ex.map(one, range(len(pieces))))
    states = trans = accepted = unjudged = 0
    failures = []
    for k, st, tr, acc, fails, left, err in res:
        if err:
            raise Inconclusive("history judge shard %d: %s" % (k, err))
        states += st
        trans += tr
        accepted += acc
        failures += fails
        unjudged += left
    return states, trans, accepted, failures, unjudged


# ---- driver ---------------------------------------------------------------------------------------
def run_driver(ctx, mode, rows, name):
    inp = os.path.join(ctx.work, name + "-in.ndjson")
    outp = os.path.join(ctx.work, name + "-out.ndjson")
    write_ndjson(inp, rows)
    p = ctx.run_vh(["balancers", "-mode", mode, "-in", inp, "-out", outp, "-par", "8"], timeout=900)
    if p.returncode != 0:
        raise Inconclusive("vh balancers -mode %s failed: %s" % (mode, (p.stderr or p.stdout)[-2000:]))
    outs = read_ndjson(outp)
    if len(outs) != len(rows):
        raise Inconclusive("driver returned %d results for %d inputs" % (len(outs), len(rows)))
    return outs


def overlapping(h):
    cs = h["calls"]
    return sum(1 for a in cs for b in cs if a["inv"] < b["inv"] < a["ret"])


def report_vector(ctx, v, j, n, got, exp, tail, reported):
    what = "%s%s key=%s n=%d: expected %s, got %d%s" % (
        v["b"], "(Consistent)" if v["consistent"] else "", keyhex(v), n,
        "one of 0..%d" % (n - 1) if exp < 0 else str(exp), got, (" [%s]" % v["err"]) if v.get("err") else "")
    key = "balancer=%s consistent=%s key=%s n=%d expected=%d got=%d" % (v["b"], v["consistent"], keyhex(v), n, exp, got)
    if reported[0] >= MAX_REPORTS:
        return
    reported[0] += 1
    vec = {f: v[f] for f in ("b", "consistent", "isnil", "key") if f in v}
    vec["ns"] = [n]
    rep = ctx.save_replay("vec-%s-%s-%s-n%d" % (v["b"], "c" if v["consistent"] else "r", keyhex(v)[:40], n), [
        ("vectors.ndjson", json.dumps(vec) + "\n"),
        ("observed.json", json.dumps({"vector": v, "index": j, "n": n, "got": got, "expected": exp}, indent=1)),
        ("tlc.txt", tail)])
    ctx.violation(what, rep, key=key)


def report_history(ctx, h, why, tail, script, reported):
    outs = [c["out"] for c in h["calls"]]
    what = "%s history %s (%d goroutines, chunk %d): %s; results in invocation order %s" % (
        "RoundRobin" if h["b"] == "rr" else "LeastBytes", h["id"], h.get("threads", 0), h["chunk"], why, outs)
    key = "balancer=%s history=%s chunk=%d why=%s" % (h["b"], h["id"], h["chunk"], why)
    if reported[0] >= MAX_REPORTS:
        return
    reported[0] += 1
    rep = ctx.save_replay("hist-%s" % h["id"], [
        ("scripts.ndjson", json.dumps(script) + "\n"),
        ("history.ndjson", json.dumps(h) + "\n"),
        ("tlc.txt", tail)])
    ctx.violation(what, rep, key=key)


def check_all(ctx, vectors, scripts, cov, nshards_v, nshards_h, par):
    reported = [0]
    states = trans = 0
    # 3. the real code
    vouts = run_driver(ctx, "vectors", [{f: v[f] for f in ("id", "b", "consistent", "isnil", "key", "ns")} for v in vectors], "vectors")
    for v, o in zip(vectors, vouts):
        if o["id"] != v["id"] or o["ns"] != v["ns"] or o["key"] != v["key"]:
            raise Inconclusive("driver output does not correspond to input %d" % v["id"])
        v["out"] = o["out"]
        if o.get("err"):
            v["err"] = o["err"]
    houts = run_driver(ctx, "histories", [{f: s[f] for f in ("id", "b", "chunk", "threads")} for s in scripts], "scripts")
    byid = {s["id"]: s for s in scripts}
    for h in houts:
        if h.get("err"):
            raise Inconclusive("driver error in script %s: %s" % (h["id"], h["err"]))
    ctx.log("driver: %d vectors, %d histories" % (len(vouts), len(houts)))
    # 4. TLC judges
    st, tr, mism = judge_vectors(ctx, vectors, nshards_v, par)
    states += st
    trans += tr
    badlines = {m[0]["id"] for m in mism}
    ctx.log("HashCheck: %d lines judged, %d results disagree" % (len(vectors), len(mism)))
    st, tr, acc, fails, unjudged = judge_histories(ctx, houts, nshards_h, par)
    states += st
    trans += tr
    ctx.log("HistCheck: %d histories accepted, %d rejected, %d not judged" % (acc, len(fails), unjudged))
    # 5. verdicts
    seen = set()
    for v, j, n, got, exp, tail in mism:          # one VIOLATION per (balancer, key): the first disagreeing n
        if v["id"] not in seen:
            seen.add(v["id"])
            report_vector(ctx, v, j, n, got, exp, tail, reported)
    for h, why, tail in fails:
        report_history(ctx, h, why, tail, {f: byid[h["id"]][f] for f in ("id", "b", "chunk", "threads")}, reported)
    if reported[0] >= MAX_REPORTS:
        ctx.notes.append("only the first %d violations were reported; %d results and %d histories disagree in total"
                         % (MAX_REPORTS, len(mism), len(fails)))
    if unjudged:
        ctx.notes.append("%d histories were not judged after repeated rejections in their shard" % unjudged)
    per_bal = {}
    for v in vectors:
        k = v["b"] + ("/consistent" if v["consistent"] else "")
        d = per_bal.setdefault(k, {"vectors": 0, "results": 0, "mismatching_results": 0})
        d["vectors"] += 1
        d["results"] += len(v["ns"])
    for v, j, n, got, exp, tail in mism:
        per_bal[v["b"] + ("/consistent" if v["consistent"] else "")]["mismatching_results"] += 1
    per_kind = {}
    kind_of = {s["id"]: s["kind"] for s in scripts}
    for h in houts:
        d = per_kind.setdefault(kind_of[h["id"]], {"histories": 0, "calls": 0, "with_overlapping_calls": 0})
        d["histories"] += 1
        d["calls"] += len(h["calls"])
        d["with_overlapping_calls"] += 1 if overlapping(h) else 0
    cov.update({
        "hash_vectors": len(vectors), "hash_vectors_accepted": len(vectors) - len(badlines),
        "hash_results_compared": sum(len(v["ns"]) for v in vectors), "hash_results_mismatching": len(mism),
        "per_balancer": per_bal, "histories": len(houts), "histories_accepted": acc, "histories_rejected": len(fails),
        "histories_unjudged": unjudged, "per_history_kind": per_kind,
        "judge_states": states, "judge_transitions": trans,
        "traces_validated_against_impl": len(vectors) - len(badlines) + acc,
    })
    ex = [v for v in vectors if v["src"] == "exhaustive"]
    samples = [{"vector": {f: v[f] for f in ("b", "consistent", "isnil", "key", "ns", "out")}} for v in
               (ex[1], ex[len(ex) // 2], [v for v in vectors if v["src"] == "directed"][2], vectors[-1])]
    conc = [h for h in houts if overlapping(h)]
    samples.append({"history": (conc[0] if conc else houts[-1])})
    samples.append({"history": houts[0]})
    cov["samples"] = samples
    return states, trans


def run(ctx):
    tier, seed = ctx.tier, ctx.seed
    ctx.specdir(ENGINE)
    cov = {"engine": ENGINE, "exhaustive": False,
           "explanation": "exhaustive over keys in {00,61,80,FF}^(0..L) and nil x partition counts x hash balancers/flags; "
                          "seeded random longer keys; directed keys with corner hash values; sequential and concurrent "
                          "RoundRobin/LeastBytes histories; every result judged by TLC against Balancers.tla"}
    ctx.vh()                                   # build first: a build failure is inconclusive before any TLC time is spent
    mc_states, mc_trans = model_check(ctx, cov)
    ctx.log("anchors + model checking ok: %d distinct states" % mc_states)
    vectors, vinfo = gen_vectors(tier, seed)
    scripts = gen_scripts(tier, seed)
    cov.update(vinfo)
    cov["partition_counts"] = NS
    cov["alphabet"] = ALPHABET
    nsh_v, nsh_h, par = (6, 3, 9) if tier == "quick" else (28, 14, 14)
    st, tr = check_all(ctx, vectors, scripts, cov, nsh_v, nsh_h, par)
    cov["states"] = mc_states + st
    cov["transitions"] = mc_trans + tr
    cov["mc_states"] = mc_states
    # "every partition list a Writer can supply": what the real Writer hands to its Balancer (TLC monitor WriterMon.tla)
    from engines import writer
    cov["writer_supplied_lists"] = writer.offered_part(ctx)
    return cov


def replay(ctx, path):
    """bin/check C13 quick --replay <dir>: re-run the saved input on the real code and judge it again."""
    ctx.specdir(ENGINE)
    cov = {}
    vectors, scripts = [], []
    vp, sp = os.path.join(path, "vectors.ndjson"), os.path.join(path, "scripts.ndjson")
    if os.path.exists(vp):
        vectors = read_ndjson(vp)
        for i, v in enumerate(vectors):
            v.update(id=i + 1, src="directed")
            v["src"] = "exhaustive" if i == 0 else "directed"
    if os.path.exists(sp):
        scripts = read_ndjson(sp)
        for s in scripts:
            s.setdefault("kind", "replay")
    if not vectors and not scripts:
        raise Inconclusive("nothing to replay in " + path)
    reported = [0]
    if vectors:
        outs = run_driver(ctx, "vectors", [{f: v[f] for f in ("id", "b", "consistent", "isnil", "key", "ns")} for v in vectors], "vectors")
        for v, o in zip(vectors, outs):
            v["out"] = o["out"]
        _, _, mism = judge_vectors(ctx, vectors, 1, 1)
        for v, j, n, got, exp, tail in mism:
            report_vector(ctx, v, j, n, got, exp, tail, reported)
    if scripts:
        runs = []
        for k in range(50):        # the schedule is not under our control: repeat the script
            runs += [dict(s, id="%s#%d" % (s["id"], k)) for s in scripts]
        houts = run_driver(ctx, "histories", [{f: s[f] for f in ("id", "b", "chunk", "threads")} for s in runs], "scripts")
        byid = {s["id"]: s for s in runs}
        _, _, acc, fails, _ = judge_histories(ctx, houts, 4, 4)
        for h, why, tail in fails:
            report_history(ctx, h, why, tail, {f: byid[h["id"]][f] for f in ("id", "b", "chunk", "threads")}, reported)
    print("replay: %d violation(s)" % len(ctx.violations), flush=True)
    return 1 if ctx.violations else 0
