"""Engine E12 (C19): offset and metadata queries report exactly the brokers' state.

spec/offsets/Offsets.tla defines Seek's arithmetic (from its documentation) and the query answers as
projections of an abstract cluster state; this module enumerates cluster states x queries, has the real
kafka.Conn / kafka.Client + Transport answer them against fake clusters built from those states
(harness/offdrv), and lets TLC (spec/offsets/OffsetsCheck.tla) judge every answer field by field."""
import itertools, json, os, random, re, threading
from vlib import Inconclusive, read_ndjson, write_ndjson

ENGINE = "offsets"
PROPS = {"C19": "model_checking"}
ASSUMPTIONS = {"C19": [
    "fake brokers (harness/fakekafka) stand for real ones: ListOffsets -1/-2/timestamp semantics, NotLeaderForPartition from non-leaders, "
    "offset -1 for a timestamp after the last record, committed offset -1 when none",
    "offsets and timestamps are small integers (TLC integers are 32-bit); 64-bit extremes are not exercised here",
    "cluster states are static while they are queried (except the OffsetCommit under test)",
]}

TOPICS = ("ta", "tb")
MAXVERS = {"listoffsets": 5, "offsetfetch": 5, "offsetcommit": 7, "metadata": 8}
MINVERS = {"listoffsets": 1, "offsetfetch": 0, "offsetcommit": 0, "metadata": 1}
TS_PROBES = [-2, -1, 0, 5, 10, 15, 20, 25]


def broker(i):
    return {"id": i, "host": "b%d" % i, "port": 9092}


def ts_pattern(end, kind):
    """timestamps of the records at offsets 0..end-1 with 0-2 distinct values"""
    if kind == 0:
        return [10] * end
    if kind == 1:
        return [20] * end
    if kind == 2:
        return [10] * (end // 2) + [20] * (end - end // 2)
    return [10] * ((end + 1) // 2) + [20] * (end // 2)


def make_part(pid, leader, nb, start, end, tskind=2, isr_short=False, leader_last=False):
    replicas = [leader] if nb == 1 else [leader, leader % nb + 1]
    if leader_last:
        replicas.reverse()     # the leader need not be the first replica
    return {"id": pid, "leader": leader, "replicas": replicas, "isr": [leader] if isr_short else list(replicas),
            "start": start, "end": end, "ts": ts_pattern(end, tskind), "lerr": 0, "merr": 0, "lerrt": 0}


def make_cs(nb, shapes, ranges, tskinds=None, committed=None, isr_short=(), controller=1, coord=None, leader_last=()):
    """shapes: partitions per topic; ranges[(t, p)] = (start, end)"""
    topics = []
    for ti, (name, n) in enumerate(zip(TOPICS, shapes)):
        parts = []
        for p in range(n):
            leader = (p + ti) % nb + 1
            st, en = ranges.get((name, p), (0, 3))
            parts.append(make_part(p, leader, nb, st, en, (tskinds or {}).get((name, p), 2), (name, p) in isr_short, (name, p) in leader_last))
        topics.append({"name": name, "parts": parts})
    groups = []
    for gi, g in enumerate(("g1", "g2")):
        cm = [{"t": t, "p": p, "off": off} for (gg, t, p), off in sorted((committed or {}).items()) if gg == g]
        groups.append({"id": g, "coord": (coord or {}).get(g, 1), "committed": cm})
    return {"brokers": [broker(i) for i in range(1, nb + 1)], "controller": controller, "down": [], "downMode": "refuse",
            "topics": topics, "groups": groups}


def all_tps(cs):
    return [(t["name"], p["id"]) for t in cs["topics"] for p in t["parts"]]


def part_of(cs, t, p):
    for tt in cs["topics"]:
        if tt["name"] == t:
            for pp in tt["parts"]:
                if pp["id"] == p:
                    return pp
    return None


def with_fault(cs, fault):
    cs = json.loads(json.dumps(cs))
    kind = fault[0]
    if kind == "lerr":
        part_of(cs, fault[1], fault[2])["lerr"] = fault[3]
    elif kind == "merr":
        part_of(cs, fault[1], fault[2])["merr"] = fault[3]
    elif kind == "lerrt":
        part_of(cs, fault[1], fault[2])["lerrt"] = fault[3]
    elif kind == "down":
        cs["down"] = [fault[1]]
        cs["downMode"] = fault[2] if len(fault) > 2 else "refuse"
        for g in cs["groups"]:
            if g["coord"] == fault[1]:
                g["coord"] = 1
    return cs


def random_cs(rng, nb=None, shapes=None):
    nb = nb or rng.choice([2, 3])
    shapes = shapes or (rng.randint(1, 3), rng.randint(1, 3))
    ranges, tsk, com, short, llast = {}, {}, {}, set(), set()
    for ti, name in enumerate(TOPICS):
        for p in range(shapes[ti]):
            st = rng.randint(0, 4)
            ranges[(name, p)] = (st, rng.randint(st, 4))
            tsk[(name, p)] = rng.randrange(4)
            if rng.random() < 0.3:
                short.add((name, p))
            if rng.random() < 0.4:
                llast.add((name, p))
            for g in ("g1", "g2"):
                if rng.random() < 0.6:
                    com[(g, name, p)] = rng.randint(0, 4)
    return make_cs(nb, shapes, ranges, tsk, com, short, controller=rng.randint(1, nb),
                   coord={"g1": rng.randint(1, nb), "g2": rng.randint(1, nb)}, leader_last=llast)


def random_fault(rng, cs):
    tps = all_tps(cs)
    r = rng.random()
    t, p = rng.choice(tps)
    if r < 0.35:
        return ("lerr", t, p, rng.choice([6, 5, 7, 9, 3]))
    if r < 0.6:
        return ("merr", t, p, rng.choice([5, 9]))
    if r < 0.9 and len(cs["brokers"]) > 1:
        return ("down", rng.randint(2, len(cs["brokers"])))
    return None


# ---------------------------------------------------------------------------------------------
# queries
# ---------------------------------------------------------------------------------------------
class Cases:
    def __init__(self):
        self.states = []     # cluster states (csi = index + 1)
        self.jobs = []       # (csi, versions, [queries])
        self.n = 0
        self.ids = set()

    def add_state(self, cs):
        self.states.append(cs)
        return len(self.states)

    def add_job(self, csi, versions, queries, chunk=150):
        uniq = []
        for q in queries:      # case ids are unique: the same query put again (other API versions) gets a suffix
            n, qid = 1, q["id"]
            while qid in self.ids:
                n += 1
                qid = "%s#%d" % (q["id"], n)
            self.ids.add(qid)
            uniq.append(dict(q, id=qid))
        queries = uniq
        for k in range(0, len(queries), chunk):
            qs = queries[k:k + chunk]
            if qs:
                self.jobs.append({"csi": csi, "cs": self.states[csi - 1], "versions": versions, "queries": qs})
                self.n += len(qs)


def up_leader(cs, t, p):
    return part_of(cs, t, p)["leader"] not in cs["down"]


def q_seek(csi, t, p, brk, steps, tag):
    return {"id": "seek/cs%d/%s-%d/b%d/%s" % (csi, t, p, brk, tag), "api": "seek",
            "q": {"t": t, "p": p, "broker": brk, "steps": steps}}


def step(off, whence, dc):
    return {"off": off, "whence": whence, "dc": bool(dc)}


def seek_positions(first, last):
    """current positions a seek starts from: fresh connection (FirstOffset), the LastOffset symbol, and absolute ones
    inside, at the borders of and outside [first, last]"""
    out = [("fresh", None), ("cur-1", -1)]
    for c in sorted({first, last, (first + last) // 2, last + 2}):
        out.append(("cur%d" % c, c))
    return out


def seek_grid(csi, cs, t, p, brk, whences=(0, 1, 2, 3), offs=range(-1, 6), positions=None):
    part = part_of(cs, t, p)
    out = []
    for (ptag, c) in (positions or seek_positions(part["start"], part["end"])):
        setup = [] if c is None else [step(c, 1, True)]
        for w in whences:
            for off in offs:
                for dc in (0, 1):
                    out.append(q_seek(csi, t, p, brk, setup + [step(off, w, dc)], "%s/w%d/off%d/dc%d" % (ptag, w, off, dc)))
        for w in (4, 9):
            for dc in (0, 1):
                out.append(q_seek(csi, t, p, brk, setup + [step(1, w, dc)], "%s/w%d/off1/dc%d" % (ptag, w, dc)))
    return out


def seek_chains(rng, csi, cs, t, p, brk, n):
    out = []
    for k in range(n):
        steps = []
        for _ in range(rng.randint(3, 6)):
            steps.append(step(rng.randint(-1, 5), rng.choice([0, 1, 2, 3, 3, 1]), rng.random() < 0.3))
        out.append(q_seek(csi, t, p, brk, steps, "chain%d" % k))
    return out


def q_readoffsets(csi, cs, brokers_other=True):
    out = []
    nb = len(cs["brokers"])
    for (t, p) in all_tps(cs):
        part = part_of(cs, t, p)
        targets = []
        if part["leader"] not in cs["down"]:
            targets.append(part["leader"])
        other = part["leader"] % nb + 1
        if brokers_other and other != part["leader"] and other not in cs["down"]:
            targets.append(other)
        for brk in targets:
            kinds = [("first", 0), ("last", 0), ("offsets", 0)] + [("time", ts) for ts in TS_PROBES]
            if brk != part["leader"]:
                kinds = [("first", 0), ("offsets", 0), ("time", 10)]
            for kind, ts in kinds:
                out.append({"id": "readoffset/cs%d/%s-%d/b%d/%s%s" % (csi, t, p, brk, kind, ("@%d" % ts) if kind == "time" else ""),
                            "api": "readoffset", "q": {"t": t, "p": p, "broker": brk, "kind": kind, "ts": ts}})
    return out


def q_readpartitions(csi, cs):
    out = []
    variants = [("ta", []), ("", []), ("tb", ["ta"]), ("", ["tb", "ta"]), ("ta", ["tb", "nope"]), ("", ["nope"]),
                ("ta", ["ta", "nope"]), ("nope", []), ("tb", ["tb"])]
    up = [b["id"] for b in cs["brokers"] if b["id"] not in cs["down"]]
    for k, (ct, topics) in enumerate(variants):
        brk = up[k % len(up)]
        out.append({"id": "readpartitions/cs%d/b%d/conn=%s/topics=%s" % (csi, brk, ct or "-", "+".join(topics) or "-"),
                    "api": "readpartitions", "q": {"broker": brk, "ctopic": ct, "topics": topics}})
    return out


def q_metadata(csi, cs):
    out = []
    for all_, topics in [(True, []), (False, ["ta"]), (False, ["tb", "ta"]), (False, ["ta", "nope"]), (False, ["nope"]), (False, ["tb"])]:
        out.append({"id": "metadata/cs%d/%s" % (csi, "all" if all_ else "+".join(topics)), "api": "metadata",
                    "q": {"all": all_, "topics": topics}})
    return out


def q_listoffsets_one(csi, reqs, tag):
    return {"id": "listoffsets/cs%d/%s" % (csi, tag), "api": "listoffsets",
            "q": {"reqs": [{"t": t, "p": p, "ts": ts} for (t, p, ts) in reqs]}}


def req_tag(reqs):
    by = {}
    for (t, p, ts) in reqs:
        by.setdefault("%s%d" % (t[1], p), []).append({-2: "F", -1: "L"}.get(ts, str(ts)))
    return ",".join("%s:%s" % (k, "".join(v) if all(len(x) == 1 for x in v) else ".".join(v)) for k, v in by.items()) or "none"


def q_listoffsets_uniform(csi, cs, tsets):
    """every subset of the partitions x the given sets of timestamps (the same set for every chosen partition)"""
    tps = all_tps(cs)
    out = []
    for r in range(0, len(tps) + 1):
        for sub in itertools.combinations(tps, r):
            for tset in (tsets if sub else tsets[:1]):
                reqs = [(t, p, ts) for (t, p) in sub for ts in tset]
                out.append(q_listoffsets_one(csi, reqs, "u/" + req_tag(reqs)))
    return out


def q_listoffsets_pairs_exhaustive(csi, cs, tss):
    """every subset of {partitions} x tss in one request"""
    pairs = [(t, p, ts) for (t, p) in all_tps(cs) for ts in tss]
    out = []
    for mask in range(1 << len(pairs)):
        reqs = [pairs[i] for i in range(len(pairs)) if mask >> i & 1]
        out.append(q_listoffsets_one(csi, reqs, "x%d/%s" % (mask, req_tag(reqs))))
    return out


def q_listoffsets_random(rng, csi, cs, n, extra_unknown=True):
    pairs = [(t, p, ts) for (t, p) in all_tps(cs) for ts in TS_PROBES]
    if extra_unknown:
        pairs += [("ta", 7, -1), ("nope", 0, -2)]
    out = []
    for k in range(n):
        m = rng.randint(1, min(10, len(pairs)))
        reqs = rng.sample(pairs, m)
        out.append(q_listoffsets_one(csi, reqs, "r%d/%s" % (k, req_tag(reqs))))
    return out


def tplist(tps):
    by = {}
    for (t, p) in tps:
        by.setdefault(t, []).append(p)
    return [{"t": t, "parts": ps} for t, ps in by.items()]


def q_offsetfetch(csi, cs, rng=None, limit=None):
    tps = all_tps(cs)
    subs = [s for r in range(1, len(tps) + 1) for s in itertools.combinations(tps, r)]
    if limit and len(subs) > limit:
        subs = rng.sample(subs, limit)
    out = []
    for g in ("g1", "g2", "gx"):
        for sub in subs:
            out.append({"id": "offsetfetch/cs%d/%s/%s" % (csi, g, ",".join("%s%d" % (t[1], p) for t, p in sub)), "api": "offsetfetch",
                        "q": {"group": g, "topics": tplist(sub)}})
    return out


def q_commit(rng, csi, cs, n):
    tps = all_tps(cs)
    up = [b["id"] for b in cs["brokers"] if b["id"] not in cs["down"]]
    out = []
    for k in range(n):
        init = [{"t": t, "p": p, "off": rng.randint(0, 4)} for (t, p) in tps if rng.random() < 0.5]
        sub = rng.sample(tps, rng.randint(1, len(tps)))
        commits = [{"t": t, "p": p, "off": rng.randint(0, 4)} for (t, p) in sub]
        out.append({"id": "commit/cs%d/k%d/%s" % (csi, k, ",".join("%s%d=%d" % (c["t"][1], c["p"], c["off"]) for c in commits)), "api": "commit",
                    "q": {"group": "gc-%d-%d" % (csi, k), "coord": rng.choice(up), "init": init, "commits": commits,
                          "fetch": tplist(tps), "ctopic": rng.choice(TOPICS)}})
    return out


def version_sets(rng, n):
    out = [dict(MAXVERS), dict(MINVERS), {"listoffsets": 3, "offsetfetch": 2, "offsetcommit": 3, "metadata": 6}]
    if n >= 11:
        # every version of every API the client and the fake brokers share is the negotiated one in some set
        out += [{"listoffsets": 1 + i % 5, "offsetfetch": i % 6, "offsetcommit": i % 8, "metadata": 1 + i % 8} for i in range(8)]
    while len(out) < n:
        out.append({k: rng.randint(MINVERS[k], MAXVERS[k]) for k in MAXVERS})
    return out[:n]


def enumerate_cases(tier, seed):
    rng = random.Random(seed * 7919 + 19)
    C = Cases()
    thorough = tier == "thorough"
    vsets = version_sets(rng, 12 if thorough else 4)

    # --- Seek: every whence x offsets -1..5 x with/without SeekDontCheck x current positions, per (first, last)
    ranges = [(f, l) for f in range(0, 5) for l in range(f, 5)]
    if not thorough:
        ranges = [(0, 0), (0, 3), (1, 4), (2, 2)] + rng.sample([r for r in ranges if r not in ((0, 0), (0, 3), (1, 4), (2, 2))], 1)
    for k, (f, l) in enumerate(ranges):
        cs = make_cs(2, (2, 1), {("ta", 0): (f, l), ("ta", 1): (l - f, 4), ("tb", 0): (0, f)}, tskinds={("ta", 0): k % 4})
        csi = C.add_state(cs)
        qs = seek_grid(csi, cs, "ta", 0, 1)
        qs += seek_chains(rng, csi, cs, "ta", 0, 1, 40 if thorough else 12)
        if thorough or k == 1:
            qs += seek_grid(csi, cs, "ta", 1, 2, positions=[("fresh", None), ("cur2", 2)])
        C.add_job(csi, vsets[k % len(vsets)], qs)
    # Seek when the broker answers an error for the partition, and on a connection to a non-leader
    base = make_cs(2, (2, 2), {("ta", 0): (1, 4), ("ta", 1): (0, 2), ("tb", 0): (2, 3), ("tb", 1): (0, 0)})
    for code in ([6, 7] if thorough else [6]):
        cs = with_fault(base, ("lerr", "ta", 0, code))
        csi = C.add_state(cs)
        qs = seek_grid(csi, cs, "ta", 0, 1, positions=[("fresh", None), ("cur2", 2)])
        qs += seek_grid(csi, cs, "ta", 1, 2, positions=[("cur1", 1)])           # healthy neighbour
        qs += seek_grid(csi, cs, "tb", 0, 1, positions=[("cur2", 2)], offs=(0, 1))  # connection to a non-leader
        C.add_job(csi, vsets[0], qs)

    # --- cluster states for the query APIs
    states = []
    c22 = make_cs(2, (2, 2), {("ta", 0): (1, 4), ("ta", 1): (0, 2), ("tb", 0): (2, 3), ("tb", 1): (0, 0)},
                  tskinds={("ta", 0): 2, ("ta", 1): 0, ("tb", 0): 3},
                  committed={("g1", "ta", 0): 3, ("g1", "tb", 1): 0, ("g2", "ta", 1): 2, ("g2", "ta", 0): 4}, isr_short={("ta", 1)},
                  coord={"g1": 1, "g2": 2}, leader_last={("tb", 1), ("ta", 1)}, controller=2)
    states.append(("c22", c22))
    states.append(("c22-lerr", with_fault(c22, ("lerr", "ta", 1, 6))))
    states.append(("c22-down", with_fault(c22, ("down", 2))))
    states.append(("c22-merr", with_fault(c22, ("merr", "tb", 0, 9))))
    # lookups by timestamp fail on one partition (e.g. UnsupportedForMessageFormat) while first/last succeed: one call that
    # asks for several timestamps of that partition gets the error AND the offsets that could be answered
    states.append(("c22-lerrt", with_fault(c22, ("lerrt", "ta", 0, 43))))
    nrand = 72 if thorough else 4
    for k in range(nrand):
        cs = random_cs(rng)
        f = random_fault(rng, cs) if k % 2 == 0 else None
        if f:
            cs = with_fault(cs, f)
        states.append(("r%d" % k, cs))
    if thorough:
        c3 = random_cs(rng, nb=3, shapes=(3, 3))
        states.append(("c33-blackhole", with_fault(c3, ("down", 3, "blackhole"))))

    csi_of = {}
    for k, (name, cs) in enumerate(states):
        csi = C.add_state(cs)
        csi_of[name] = csi
        vs = vsets[k % len(vsets)]
        qs = []
        qs += q_readoffsets(csi, cs)
        qs += q_readpartitions(csi, cs)
        qs += q_metadata(csi, cs)
        ntp = len(all_tps(cs))
        if name.startswith("c22"):
            tsets = [(-2,), (-1,), (10,), (-2, -1), (-2, -1, 15), (10, 20), (-2, -1, 0, 10, 20, 25)]
            qs += q_listoffsets_uniform(csi, cs, tsets if thorough or name in ("c22", "c22-lerr", "c22-lerrt") else tsets[3:5])
            qs += q_listoffsets_random(rng, csi, cs, 150 if thorough else (60 if name in ("c22", "c22-lerr", "c22-down") else 20))
            qs += q_offsetfetch(csi, cs)
            qs += q_commit(rng, csi, cs, 60 if thorough else 25)
        elif name.endswith("blackhole"):
            # a dial to a black-holed leader lasts the whole dial time-out (15 s, generous so that load never
            # becomes an answer): few requests, exactly one entry on the unreachable leader, one cluster each
            tps = all_tps(cs)
            bad = [(t, p) for (t, p) in tps if not up_leader(cs, t, p)]
            good = [(t, p) for (t, p) in tps if up_leader(cs, t, p)]
            for j in range(6):
                reqs = [(t, p, rng.choice(TS_PROBES)) for (t, p) in rng.sample(good, rng.randint(1, len(good)))]
                reqs.insert(rng.randint(0, len(reqs)), bad[j % len(bad)] + (rng.choice([-2, -1, 10]),))
                C.add_job(csi, vsets[j % len(vsets)], [q_listoffsets_one(csi, reqs, "bh%d/%s" % (j, req_tag(reqs)))])
            qs += q_offsetfetch(csi, cs, rng, 10)
        else:
            qs += q_listoffsets_random(rng, csi, cs, 120 if thorough else 30)
            qs += q_offsetfetch(csi, cs, rng, 40 if thorough else 10)
            qs += q_commit(rng, csi, cs, 30 if thorough else 8)
        C.add_job(csi, vs, qs)
        if thorough and name.startswith("c22") and name != "c22-merr":
            # every subset of {4 partitions} x {first, last, one time} in one request
            C.add_job(csi, vsets[(k + 1) % len(vsets)], q_listoffsets_pairs_exhaustive(csi, cs, (-2, -1, 15)), chunk=400)
        if thorough and not name.endswith("blackhole"):
            # the same state seen through other API versions
            for j in range(2):
                C.add_job(csi, vsets[(k + 3 + 5 * j) % len(vsets)],
                          q_metadata(csi, cs) + q_readpartitions(csi, cs) + q_listoffsets_random(rng, csi, cs, 25) +
                          q_offsetfetch(csi, cs, rng, 8) + q_commit(rng, csi, cs, 8))
    # partition-level metadata errors through every metadata decoder of the Conn (v1 and v6+) and of the Client
    for name, cs in states:
        if any(p["merr"] for t in cs["topics"] for p in t["parts"]):
            for mv in (1, 6, MAXVERS["metadata"]):
                C.add_job(csi_of[name], dict(MAXVERS, metadata=mv), q_readpartitions(csi_of[name], cs) + q_metadata(csi_of[name], cs))
    if not thorough:
        # a slice of the exhaustive (partition, timestamp) subsets on the 2x2 cluster, with and without a failing partition
        for name in ("c22", "c22-lerr"):
            csi = csi_of[name]
            allq = q_listoffsets_pairs_exhaustive(csi, C.states[csi - 1], (-2, -1, 15))
            C.add_job(csi, vsets[1], rng.sample(allq, 150))
    return C


# ---------------------------------------------------------------------------------------------
# driver + TLC judge
# ---------------------------------------------------------------------------------------------
def sanity(ctx):
    r = ctx.tlc(ENGINE, "Offsets", "Offsets.cfg", workers=1, timeout=120, tag="anchors")
    if r["error"] or r["violated"] or r["timeout"] or "Assumption" in r["out"] and "is false" in r["out"]:
        raise Inconclusive("anchor cases of Offsets.tla failed: " + r["out"][-1500:])
    return len(re.findall(r"^ASSUME", open(os.path.join(ctx.specdir(ENGINE), "Offsets.tla")).read(), re.M))


def run_driver(ctx, jobs, tag="jobs"):
    jp = os.path.join(ctx.work, "off-%s.ndjson" % tag)
    ap = os.path.join(ctx.work, "off-%s-answers.ndjson" % tag)
    write_ndjson(jp, jobs)
    p = ctx.run_vh(["offsets", "-jobs", jp, "-out", ap, "-par", "16"], timeout=1500)
    if p.returncode != 0:
        raise Inconclusive("vh offsets failed: " + (p.stderr or p.stdout)[-2000:])
    rows = read_ndjson(ap)
    n = sum(len(j["queries"]) for j in jobs)
    if len(rows) != n:
        raise Inconclusive("driver answered %d of %d queries" % (len(rows), n))
    return rows


def settle(ctx, rows, jobs_by_id):
    """A watchdog expiry or a time-out of the harness' own (generous) deadlines may be the machine's load and not
    the library: such queries are run again alone; what they answer then is what TLC judges (a hang that
    reproduces stays a hang and is rejected by the judge)."""
    again = [i for i, r in enumerate(rows) if r["a"].get("hang") or "time-out" in r["a"].get("drivererr", "")]
    if again:
        if len(again) > 40:
            raise Inconclusive("%d queries hung or timed out (machine overloaded?), e.g. %s" % (len(again), rows[again[0]]["id"]))
        ctx.notes.append("%d queries hung or timed out in the parallel run and were repeated alone" % len(again))
        for i in again:
            job = jobs_by_id[rows[i]["id"]]
            r2 = run_driver(ctx, [job], tag="retry")
            r2[0]["csi"] = rows[i]["csi"]
            rows[i] = r2[0]
    for r in rows:
        if "drivererr" in r["a"]:
            raise Inconclusive("driver error on %s: %s" % (r["id"], r["a"]["drivererr"]))
    return rows


def judge_shard(ctx, k, rows, csfile, mode, results):
    cf = os.path.join(ctx.work, "off-cases-%d.ndjson" % k)
    write_ndjson(cf, rows)
    try:
        # no trace-explorer spec files: the shards share one spec directory
        results[k] = ctx.tlc(ENGINE, "OffsetsCheck", "OffsetsCheck.cfg", workers=1, timeout=1500, tag="judge-%s-%d" % (mode, k),
                             env={"CASES": cf, "CSFILE": csfile, "MODE": mode}, extra=["-noGenerateSpecTE"])
    except Exception as e:       # reported by the caller as inconclusive
        results[k] = {"error": "judge thread failed: %r" % (e,), "timeout": False, "violated": None, "out": "", "distinct": 0, "generated": 0}


def judge(ctx, rows, states, nshards, mode="strict"):
    csfile = os.path.join(ctx.work, "off-cs.ndjson")
    write_ndjson(csfile, states)
    ctx.specdir(ENGINE)
    nshards = max(1, min(nshards, len(rows)))
    size = (len(rows) + nshards - 1) // nshards
    shards = [rows[i:i + size] for i in range(0, len(rows), size)]
    results = [None] * len(shards)
    ths = [threading.Thread(target=judge_shard, args=(ctx, k, sh, csfile, mode, results)) for k, sh in enumerate(shards)]
    for t in ths:
        t.start()
    for t in ths:
        t.join()
    return shards, results


def mismatches(out):
    """MISMATCH lines printed by OffsetsCheck in report mode -> [(case id, [fields])]"""
    res = []
    for m in re.finditer(r'<<\s*"MISMATCH",\s*"([^"]*)",\s*\{([^}]*)\}\s*>>', out.replace("\n", " ")):
        res.append((m.group(1), re.findall(r'"([^"]*)"', m.group(2))))
    return res


def check(ctx, rows, states, nshards, jobs_by_id, maxreport=12):
    """TLC judges all rows; returns (accepted, failing [(row, fields)], distinct, generated)"""
    shards, results = judge(ctx, rows, states, nshards)
    distinct = generated = 0
    failing = []
    for k, (sh, r) in enumerate(zip(shards, results)):
        if r["error"] or r["timeout"] or (r["violated"] and r["violated"] != "AnswersExact"):
            raise Inconclusive("judge run failed: " + (r["error"] or r["out"][-2000:]))
        distinct += r["distinct"]
        generated += r["generated"]
        if r["violated"]:
            # list every failing case of this shard (TLC again, printing instead of stopping)
            _, rr = judge(ctx, sh, states, 1, mode="report")
            r2 = rr[0]
            if r2["error"] or r2["timeout"] or r2["violated"]:
                raise Inconclusive("judge report run failed: " + (r2["error"] or r2["out"][-2000:]))
            mm = mismatches(r2["out"])
            if not mm:
                raise Inconclusive("AnswersExact violated but no MISMATCH line was found")
            byid = {row["id"]: row for row in sh}
            for cid, fields in mm:
                failing.append((byid[cid], fields))
    accepted = len(rows) - len(failing)
    reported = 0
    for row, fields in failing:
        if reported >= maxreport:
            break
        reported += 1
        job = jobs_by_id.get(row["id"])
        rep = ctx.save_replay(re.sub(r"[^A-Za-z0-9_.=+-]", "_", row["id"])[:150], [
            ("case.json", json.dumps(row, indent=1)),
            ("cs.json", json.dumps(states[row["csi"] - 1], indent=1)),
            ("job.json", json.dumps(job)),
            ("verdict.txt", "TLC (OffsetsCheck!Judge) rejects fields: %s\n" % ", ".join(fields))])
        for f in fields:
            ctx.violation("%s: answer of the real code differs from the cluster state in field '%s' (case %s, answer %s)" %
                          (row["api"], f, row["id"], json.dumps(row["a"])[:400]), rep, key="%s %s %s" % (row["api"], row["id"], f))
    if len(failing) > reported:
        ctx.notes.append("%d failing cases, only the first %d were reported one by one" % (len(failing), reported))
    return accepted, failing, distinct, generated


def corrupt(row):
    """a copy of an accepted case with one field of the answer falsified (None when the case has no such field)"""
    r = json.loads(json.dumps(row))
    a, api = r["a"], r["api"]
    if api == "seek" and a["steps"]:
        a["steps"][-1]["aoff"] += 1
    elif api == "readoffset" and a["err"] == 0:
        a["off"] += 1
        a["first"] += 1
    elif api == "readpartitions" and a["err"] == 0 and a["parts"]:
        a["parts"][0]["isr"] = a["parts"][0]["isr"][1:] + [{"id": 9, "host": "b9", "port": 9092}]
    elif api == "metadata" and a["err"] == 0 and any(t["parts"] for t in a["topics"]):
        t = next(t for t in a["topics"] if t["parts"])
        t["parts"][0]["leader"] = {"id": 9, "host": "b9", "port": 9092}
    elif api == "listoffsets" and a["err"] == 0 and any(p["err"] == 0 for p in a["parts"]):
        p = next(p for p in a["parts"] if p["err"] == 0)
        p["last"] += 1
    elif api == "offsetfetch" and a["err"] == 0 and a["parts"]:
        a["parts"][-1]["off"] += 1
    elif api == "commit" and a["cerr"] == 0 and a["co"]["offs"]:
        a["co"]["offs"][0][1] += 1
    else:
        return None
    r["id"] = "falsified:" + r["id"]
    return r


def vacuity_guard(ctx, rows, states, failing_ids):
    """the judge must reject falsified answers: a few accepted cases per API with one field changed"""
    bad = []
    per = {}
    for r in rows:
        if r["id"] in failing_ids or per.get(r["api"], 0) >= 4:
            continue
        c = corrupt(r)
        if c:
            per[r["api"]] = per.get(r["api"], 0) + 1
            bad.append(c)
    _, rr = judge(ctx, bad, states, 1, mode="report")
    r = rr[0]
    if r["error"] or r["timeout"] or r["violated"]:
        raise Inconclusive("vacuity guard run failed: " + (r["error"] or r["out"][-1500:]))
    rejected = {cid for cid, _ in mismatches(r["out"])}
    missed = [c["id"] for c in bad if c["id"] not in rejected]
    if missed or (not failing_ids and len(per) < 7):
        raise Inconclusive("vacuity guard: the judge accepted falsified answers %s (APIs covered: %s)" % (missed[:5], sorted(per)))
    return len(bad)


def single_jobs(C):
    """case id -> a one-query job that reproduces the case"""
    out = {}
    for j in C.jobs:
        for q in j["queries"]:
            out[q["id"]] = {"csi": 1, "cs": j["cs"], "versions": j["versions"], "queries": [q]}
    return out


def run(ctx):
    nassume = sanity(ctx)
    ctx.log("Offsets.tla anchors ok (%d ASSUMEs)" % nassume)
    C = enumerate_cases(ctx.tier, ctx.seed)
    ctx.log("%d cluster states, %d jobs, %d cases" % (len(C.states), len(C.jobs), C.n))
    singles = single_jobs(C)
    rows = settle(ctx, run_driver(ctx, C.jobs), singles)
    ctx.log("driver answered %d queries" % len(rows))
    nshards = 6 if ctx.tier == "quick" else 16
    accepted, failing, distinct, generated = check(ctx, rows, C.states, nshards, singles)
    nguard = vacuity_guard(ctx, rows, C.states, {r["id"] for r, _ in failing})
    per_api, per_api_fail = {}, {}
    for r in rows:
        per_api[r["api"]] = per_api.get(r["api"], 0) + 1
    for r, _ in failing:
        per_api_fail[r["api"]] = per_api_fail.get(r["api"], 0) + 1
    seeks = [r for r in rows if r["api"] == "seek"]
    whence_cov = sorted({(s["whence"], s["off"], s["dc"]) for r in seeks for s in r["q"]["steps"]})
    lo = [r for r in rows if r["api"] == "listoffsets"]
    versions = sorted({json.dumps(j["versions"], sort_keys=True) for j in C.jobs})
    faults = {"lerr": sum(1 for s in C.states if any(p["lerr"] for t in s["topics"] for p in t["parts"])),
              "merr": sum(1 for s in C.states if any(p["merr"] for t in s["topics"] for p in t["parts"])),
              "down": sum(1 for s in C.states if s["down"])}
    seen_versions = {}
    for r in rows:
        for api, v in (r.get("v") or {}).items():
            seen_versions.setdefault(api, set()).add(v)
    pick = lambda api: next((r for r in rows if r["api"] == api), None)
    samples = [x for x in (pick("seek"), pick("listoffsets"), pick("commit"), rows[len(rows) // 2]) if x]
    return {"engine": ENGINE, "states": distinct, "transitions": generated,
            "traces_validated_against_impl": accepted, "cases": len(rows), "cases_rejected": len(failing),
            "cluster_states": len(C.states), "clusters_built": len(C.jobs), "states_with_fault": faults,
            "per_api": per_api, "per_api_rejected": per_api_fail, "anchor_assumes": nassume,
            "falsified_answers_rejected_by_judge": nguard,
            "seek_steps": sum(len(r["q"]["steps"]) for r in seeks), "seek_whence_off_dc_combinations": len(whence_cov),
            "listoffsets_requests_entries_max": max([len(r["q"]["reqs"]) for r in lo] or [0]),
            "listoffsets_with_failing_partition": sum(1 for r in lo if any(p["err"] != 0 for p in r["a"].get("parts", []))),
            "api_version_sets": [json.loads(v) for v in versions][:12], "api_version_sets_count": len(versions),
            "api_versions_received_by_brokers": {k: sorted(v) for k, v in sorted(seen_versions.items())},
            "samples": [{"id": s["id"], "q": s["q"], "a": s["a"], "cs": C.states[s["csi"] - 1]} for s in samples[:4]]}


def replay(ctx, path):
    job = json.load(open(os.path.join(path, "job.json")))
    rows = settle(ctx, run_driver(ctx, [job], tag="replay"), {job["queries"][0]["id"]: job})
    accepted, failing, _, _ = check(ctx, rows, [job["cs"]], 1, {rows[0]["id"]: job})
    print("replay: %d accepted, %d rejected" % (accepted, len(failing)))
    return 1 if ctx.violations else 0
