"""Engine E12 (C19): offset and metadata queries report exactly the brokers' state.

spec/offsets/Offsets.tla defines Seek's arithmetic (from its documentation) and the query answers as
projections of an abstract cluster state; this module enumerates cluster states x queries, has the real
kafka.Conn / kafka.Client + Transport answer them against fake clusters built from those states
(harness/offdrv), and lets TLC (spec/offsets/OffsetsCheck.tla) judge every answer field by field."""
import itertools, json, os, random, re, threading
from vlib import Inconclusive, read_ndjson, write_ndjson

ENGINE = "offsets"
PROPS = {"C19": "model_checking"}
ASSUMPTIONS = {"C19": [
    "fake brokers (harness/fakekafka) stand for real ones: ListOffsets -1/-2/timestamp semantics, NotLeaderForPartition from non-leaders, "
    "offset -1 for a timestamp after the last record, committed offset -1 when none",
    "isolation level as brokers implement it (Partition.fetchOffsetForTimestamp): under read_committed the last stable offset takes the place "
    "of the high watermark for timestamp -1 and bounds the look-ups by timestamp; ListOffsets v0/v1 have no isolation level",
    "a coordinator that refuses a group (GroupLoadInProgress, NotCoordinatorForGroup, CoordinatorNotAvailable, GroupAuthorizationFailed) answers "
    "as brokers do per version: OffsetFetch v0/v1 and OffsetCommit repeat the code in every partition entry, OffsetFetch v2+ answer the "
    "top-level error code with an empty topic list",
    "offsets and timestamps are small integers (TLC integers are 32-bit); 64-bit extremes are not exercised here",
    "cluster states are static while they are queried (except the OffsetCommit under test)",
]}

TOPICS = ("ta", "tb")
MAXVERS = {"listoffsets": 5, "offsetfetch": 5, "offsetcommit": 7, "metadata": 8}
MINVERS = {"listoffsets": 1, "offsetfetch": 0, "offsetcommit": 0, "metadata": 1}
TS_PROBES = [-2, -1, 0, 5, 10, 15, 20, 25]
GROUP_ERRS = [14, 16, 15, 30]   # GroupLoadInProgress, NotCoordinatorForGroup, GroupCoordinatorNotAvailable, GroupAuthorizationFailed
# Client.ConsumerOffsets after a commit the coordinator refused: asked only when this switch is set (see q_commit)
CO_ON_REFUSED_GROUP = os.environ.get("VERIF_C19_CO_REFUSED", "1") == "1"


def broker(i):
    return {"id": i, "host": "b%d" % i, "port": 9092}


def ts_pattern(end, kind):
    """timestamps of the records at offsets 0..end-1 with 0-2 distinct values"""
    if kind == 0:
        return [10] * end
    if kind == 1:
        return [20] * end
    if kind == 2:
        return [10] * (end // 2) + [20] * (end - end // 2)
    return [10] * ((end + 1) // 2) + [20] * (end // 2)


def make_part(pid, leader, nb, start, end, tskind=2, isr_short=False, leader_last=False, lso=None):
    replicas = [leader] if nb == 1 else [leader, leader % nb + 1]
    if leader_last:
        replicas.reverse()     # the leader need not be the first replica
    return {"id": pid, "leader": leader, "replicas": replicas, "isr": [leader] if isr_short else list(replicas),
            "start": start, "end": end, "lso": end if lso is None else lso, "ts": ts_pattern(end, tskind), "lerr": 0, "merr": 0, "lerrt": 0}


def make_cs(nb, shapes, ranges, tskinds=None, committed=None, isr_short=(), controller=1, coord=None, leader_last=(), lsos=None, gerr=None):
    """shapes: partitions per topic; ranges[(t, p)] = (start, end); lsos[(t, p)] = last stable offset (default: end);
    gerr[g] = error code the coordinator answers for the whole group"""
    topics = []
    for ti, (name, n) in enumerate(zip(TOPICS, shapes)):
        parts = []
        for p in range(n):
            leader = (p + ti) % nb + 1
            st, en = ranges.get((name, p), (0, 3))
            parts.append(make_part(p, leader, nb, st, en, (tskinds or {}).get((name, p), 2), (name, p) in isr_short, (name, p) in leader_last,
                                   (lsos or {}).get((name, p))))
        topics.append({"name": name, "parts": parts})
    groups = []
    for gi, g in enumerate(("g1", "g2")):
        cm = [{"t": t, "p": p, "off": off} for (gg, t, p), off in sorted((committed or {}).items()) if gg == g]
        groups.append({"id": g, "coord": (coord or {}).get(g, 1), "gerr": (gerr or {}).get(g, 0), "committed": cm})
    return {"brokers": [broker(i) for i in range(1, nb + 1)], "controller": controller, "down": [], "downMode": "refuse",
            "topics": topics, "groups": groups}


def all_tps(cs):
    return [(t["name"], p["id"]) for t in cs["topics"] for p in t["parts"]]


def part_of(cs, t, p):
    for tt in cs["topics"]:
        if tt["name"] == t:
            for pp in tt["parts"]:
                if pp["id"] == p:
                    return pp
    return None


def with_fault(cs, fault):
    cs = json.loads(json.dumps(cs))
    kind = fault[0]
    if kind == "lerr":
        part_of(cs, fault[1], fault[2])["lerr"] = fault[3]
    elif kind == "merr":
        part_of(cs, fault[1], fault[2])["merr"] = fault[3]
    elif kind == "lerrt":
        part_of(cs, fault[1], fault[2])["lerrt"] = fault[3]
    elif kind == "lso":
        part_of(cs, fault[1], fault[2])["lso"] = fault[3]
    elif kind == "gerr":
        for g in cs["groups"]:
            if g["id"] == fault[1]:
                g["gerr"] = fault[2]
    elif kind == "down":
        cs["down"] = [fault[1]]
        cs["downMode"] = fault[2] if len(fault) > 2 else "refuse"
        for g in cs["groups"]:
            if g["coord"] == fault[1]:
                g["coord"] = 1
    return cs


def random_cs(rng, nb=None, shapes=None):
    nb = nb or rng.choice([2, 3])
    shapes = shapes or (rng.randint(1, 3), rng.randint(1, 3))
    ranges, tsk, com, short, llast, lsos, gerr = {}, {}, {}, set(), set(), {}, {}
    for ti, name in enumerate(TOPICS):
        for p in range(shapes[ti]):
            st = rng.randint(0, 4)
            ranges[(name, p)] = (st, rng.randint(st, 4))
            tsk[(name, p)] = rng.randrange(4)
            if rng.random() < 0.5:      # an open transaction at the tail
                lsos[(name, p)] = rng.randint(st, ranges[(name, p)][1])
            if rng.random() < 0.3:
                short.add((name, p))
            if rng.random() < 0.4:
                llast.add((name, p))
            for g in ("g1", "g2"):
                if rng.random() < 0.6:
                    com[(g, name, p)] = rng.randint(0, 4)
    for g in ("g1", "g2"):
        if rng.random() < 0.25:
            gerr[g] = rng.choice(GROUP_ERRS)
    return make_cs(nb, shapes, ranges, tsk, com, short, controller=rng.randint(1, nb),
                   coord={"g1": rng.randint(1, nb), "g2": rng.randint(1, nb)}, leader_last=llast, lsos=lsos, gerr=gerr)


def random_fault(rng, cs):
    tps = all_tps(cs)
    r = rng.random()
    t, p = rng.choice(tps)
    if r < 0.35:
        return ("lerr", t, p, rng.choice([6, 5, 7, 9, 3]))
    if r < 0.6:
        return ("merr", t, p, rng.choice([5, 9]))
    if r < 0.9 and len(cs["brokers"]) > 1:
        return ("down", rng.randint(2, len(cs["brokers"])))
    return None


# ---------------------------------------------------------------------------------------------
# queries
# ---------------------------------------------------------------------------------------------
class Cases:
    def __init__(self):
        self.states = []     # cluster states (csi = index + 1)
        self.jobs = []       # (csi, versions, [queries])
        self.n = 0
        self.ids = set()

    def add_state(self, cs):
        self.states.append(cs)
        return len(self.states)

    def add_job(self, csi, versions, queries, chunk=150):
        uniq = []
        for q in queries:      # case ids are unique: the same query put again (other API versions) gets a suffix
            n, qid = 1, q["id"]
            while qid in self.ids:
                n += 1
                qid = "%s#%d" % (q["id"], n)
            self.ids.add(qid)
            if q["api"] == "listoffsets":
                # part of the question: the highest ListOffsets version the brokers of this job speak (the isolation
                # level exists from v2 on)
                q = dict(q, q=dict(q["q"], bv=versions["listoffsets"]))
            uniq.append(dict(q, id=qid))
        queries = uniq
        for k in range(0, len(queries), chunk):
            qs = queries[k:k + chunk]
            if qs:
                self.jobs.append({"csi": csi, "cs": self.states[csi - 1], "versions": versions, "queries": qs})
                self.n += len(qs)


def up_leader(cs, t, p):
    return part_of(cs, t, p)["leader"] not in cs["down"]


def q_seek(csi, t, p, brk, steps, tag):
    return {"id": "seek/cs%d/%s-%d/b%d/%s" % (csi, t, p, brk, tag), "api": "seek",
            "q": {"t": t, "p": p, "broker": brk, "steps": steps}}


def step(off, whence, dc):
    return {"off": off, "whence": whence, "dc": bool(dc)}


def seek_positions(first, last):
    """current positions a seek starts from: fresh connection (FirstOffset), the LastOffset symbol, and absolute ones
    inside, at the borders of and outside [first, last]"""
    out = [("fresh", None), ("cur-1", -1)]
    for c in sorted({first, last, (first + last) // 2, last + 2}):
        out.append(("cur%d" % c, c))
    return out


def seek_grid(csi, cs, t, p, brk, whences=(0, 1, 2, 3), offs=range(-1, 6), positions=None):
    part = part_of(cs, t, p)
    out = []
    for (ptag, c) in (positions or seek_positions(part["start"], part["end"])):
        setup = [] if c is None else [step(c, 1, True)]
        for w in whences:
            for off in offs:
                for dc in (0, 1):
                    out.append(q_seek(csi, t, p, brk, setup + [step(off, w, dc)], "%s/w%d/off%d/dc%d" % (ptag, w, off, dc)))
        for w in (4, 9):
            for dc in (0, 1):
                out.append(q_seek(csi, t, p, brk, setup + [step(1, w, dc)], "%s/w%d/off1/dc%d" % (ptag, w, dc)))
    return out


def seek_chains(rng, csi, cs, t, p, brk, n):
    out = []
    for k in range(n):
        steps = []
        for _ in range(rng.randint(3, 6)):
            steps.append(step(rng.randint(-1, 5), rng.choice([0, 1, 2, 3, 3, 1]), rng.random() < 0.3))
        out.append(q_seek(csi, t, p, brk, steps, "chain%d" % k))
    return out


def q_readoffsets(csi, cs, brokers_other=True):
    out = []
    nb = len(cs["brokers"])
    for (t, p) in all_tps(cs):
        part = part_of(cs, t, p)
        targets = []
        if part["leader"] not in cs["down"]:
            targets.append(part["leader"])
        other = part["leader"] % nb + 1
        if brokers_other and other != part["leader"] and other not in cs["down"]:
            targets.append(other)
        for brk in targets:
            kinds = [("first", 0), ("last", 0), ("offsets", 0)] + [("time", ts) for ts in TS_PROBES]
            if brk != part["leader"]:
                kinds = [("first", 0), ("offsets", 0), ("time", 10)]
            for kind, ts in kinds:
                out.append({"id": "readoffset/cs%d/%s-%d/b%d/%s%s" % (csi, t, p, brk, kind, ("@%d" % ts) if kind == "time" else ""),
                            "api": "readoffset", "q": {"t": t, "p": p, "broker": brk, "kind": kind, "ts": ts}})
    return out


def q_readpartitions(csi, cs):
    out = []
    variants = [("ta", []), ("", []), ("tb", ["ta"]), ("", ["tb", "ta"]), ("ta", ["tb", "nope"]), ("", ["nope"]),
                ("ta", ["ta", "nope"]), ("nope", []), ("tb", ["tb"])]
    up = [b["id"] for b in cs["brokers"] if b["id"] not in cs["down"]]
    for k, (ct, topics) in enumerate(variants):
        brk = up[k % len(up)]
        out.append({"id": "readpartitions/cs%d/b%d/conn=%s/topics=%s" % (csi, brk, ct or "-", "+".join(topics) or "-"),
                    "api": "readpartitions", "q": {"broker": brk, "ctopic": ct, "topics": topics}})
    return out


def q_metadata(csi, cs):
    out = []
    for all_, topics in [(True, []), (False, ["ta"]), (False, ["tb", "ta"]), (False, ["ta", "nope"]), (False, ["nope"]), (False, ["tb"])]:
        out.append({"id": "metadata/cs%d/%s" % (csi, "all" if all_ else "+".join(topics)), "api": "metadata",
                    "q": {"all": all_, "topics": topics}})
    return out


def q_listoffsets_one(csi, reqs, tag, iso=0):
    """iso: ListOffsetsRequest.IsolationLevel (0 ReadUncommitted, 1 ReadCommitted)"""
    return {"id": "listoffsets/cs%d/%s%s" % (csi, tag, "/rc" if iso else ""), "api": "listoffsets",
            "q": {"reqs": [{"t": t, "p": p, "ts": ts} for (t, p, ts) in reqs], "iso": iso}}


def req_tag(reqs):
    by = {}
    for (t, p, ts) in reqs:
        by.setdefault("%s%d" % (t[1], p), []).append({-2: "F", -1: "L"}.get(ts, str(ts)))
    return ",".join("%s:%s" % (k, "".join(v) if all(len(x) == 1 for x in v) else ".".join(v)) for k, v in by.items()) or "none"


def q_listoffsets_uniform(csi, cs, tsets, isos=(0,)):
    """every subset of the partitions x the given sets of timestamps (the same set for every chosen partition) x isolation levels"""
    tps = all_tps(cs)
    out = []
    for r in range(0, len(tps) + 1):
        for sub in itertools.combinations(tps, r):
            for tset in (tsets if sub else tsets[:1]):
                reqs = [(t, p, ts) for (t, p) in sub for ts in tset]
                for iso in isos:
                    out.append(q_listoffsets_one(csi, reqs, "u/" + req_tag(reqs), iso))
    return out


def q_listoffsets_pairs_exhaustive(csi, cs, tss, iso=0):
    """every subset of {partitions} x tss in one request"""
    pairs = [(t, p, ts) for (t, p) in all_tps(cs) for ts in tss]
    out = []
    for mask in range(1 << len(pairs)):
        reqs = [pairs[i] for i in range(len(pairs)) if mask >> i & 1]
        out.append(q_listoffsets_one(csi, reqs, "x%d/%s" % (mask, req_tag(reqs)), iso))
    return out


def q_listoffsets_random(rng, csi, cs, n, extra_unknown=True):
    pairs = [(t, p, ts) for (t, p) in all_tps(cs) for ts in TS_PROBES]
    if extra_unknown:
        pairs += [("ta", 7, -1), ("nope", 0, -2)]
    out = []
    for k in range(n):
        m = rng.randint(1, min(10, len(pairs)))
        reqs = rng.sample(pairs, m)
        out.append(q_listoffsets_one(csi, reqs, "r%d/%s" % (k, req_tag(reqs)), 1 if rng.random() < 0.4 else 0))
    return out


def tplist(tps):
    by = {}
    for (t, p) in tps:
        by.setdefault(t, []).append(p)
    return [{"t": t, "parts": ps} for t, ps in by.items()]


def q_offsetfetch(csi, cs, rng=None, limit=None):
    tps = all_tps(cs)
    subs = [s for r in range(1, len(tps) + 1) for s in itertools.combinations(tps, r)]
    if limit and len(subs) > limit:
        subs = rng.sample(subs, limit)
    out = []
    for g in ("g1", "g2", "gx"):
        for sub in subs:
            out.append({"id": "offsetfetch/cs%d/%s/%s" % (csi, g, ",".join("%s%d" % (t[1], p) for t, p in sub)), "api": "offsetfetch",
                        "q": {"group": g, "topics": tplist(sub)}})
    return out


def q_commit(rng, csi, cs, n, refused=0.0):
    """OffsetCommit on a case-private group, then OffsetFetch and ConsumerOffsets.  refused: share of the cases whose
    coordinator refuses the group (q.gerr).  ConsumerOffsets is not asked about a refused group unless
    VERIF_C19_CO_REFUSED=1: it drops the refusal (nil error, empty map or -1 offsets), a finding reported apart."""
    tps = all_tps(cs)
    up = [b["id"] for b in cs["brokers"] if b["id"] not in cs["down"]]
    out = []
    for k in range(n):
        init = [{"t": t, "p": p, "off": rng.randint(0, 4)} for (t, p) in tps if rng.random() < 0.5]
        sub = rng.sample(tps, rng.randint(1, len(tps)))
        commits = [{"t": t, "p": p, "off": rng.randint(0, 4)} for (t, p) in sub]
        gerr = rng.choice(GROUP_ERRS) if rng.random() < refused else 0
        out.append({"id": "commit/cs%d/k%d/%s%s" % (csi, k, ",".join("%s%d=%d" % (c["t"][1], c["p"], c["off"]) for c in commits),
                                                  "/refused%d" % gerr if gerr else ""), "api": "commit",
                    "q": {"group": "gc-%d-%d" % (csi, k), "coord": rng.choice(up), "init": init, "commits": commits,
                          "fetch": tplist(tps), "ctopic": rng.choice(TOPICS), "gerr": gerr, "co": gerr == 0 or CO_ON_REFUSED_GROUP}})
    return out


def version_sets(rng, n):
    out = [dict(MAXVERS), dict(MINVERS), {"listoffsets": 3, "offsetfetch": 2, "offsetcommit": 3, "metadata": 6}]
    if n >= 11:
        # every version of every API the client and the fake brokers share is the negotiated one in some set
        out += [{"listoffsets": 1 + i % 5, "offsetfetch": i % 6, "offsetcommit": i % 8, "metadata": 1 + i % 8} for i in range(8)]
    while len(out) < n:
        out.append({k: rng.randint(MINVERS[k], MAXVERS[k]) for k in MAXVERS})
    return out[:n]


def enumerate_cases(tier, seed):
    rng = random.Random(seed * 7919 + 19)
    C = Cases()
    thorough = tier == "thorough"
    vsets = version_sets(rng, 12 if thorough else 4)

    # --- Seek: every whence x offsets -1..5 x with/without SeekDontCheck x current positions, per (first, last)
    ranges = [(f, l) for f in range(0, 5) for l in range(f, 5)]
    if not thorough:
        ranges = [(0, 0), (0, 3), (1, 4), (2, 2)] + rng.sample([r for r in ranges if r not in ((0, 0), (0, 3), (1, 4), (2, 2))], 1)
    for k, (f, l) in enumerate(ranges):
        cs = make_cs(2, (2, 1), {("ta", 0): (f, l), ("ta", 1): (l - f, 4), ("tb", 0): (0, f)}, tskinds={("ta", 0): k % 4})
        csi = C.add_state(cs)
        qs = seek_grid(csi, cs, "ta", 0, 1)
        qs += seek_chains(rng, csi, cs, "ta", 0, 1, 40 if thorough else 12)
        if thorough or k == 1:
            qs += seek_grid(csi, cs, "ta", 1, 2, positions=[("fresh", None), ("cur2", 2)])
        C.add_job(csi, vsets[k % len(vsets)], qs)
    # Seek when the broker answers an error for the partition, and on a connection to a non-leader
    base = make_cs(2, (2, 2), {("ta", 0): (1, 4), ("ta", 1): (0, 2), ("tb", 0): (2, 3), ("tb", 1): (0, 0)})
    for code in ([6, 7] if thorough else [6]):
        cs = with_fault(base, ("lerr", "ta", 0, code))
        csi = C.add_state(cs)
        qs = seek_grid(csi, cs, "ta", 0, 1, positions=[("fresh", None), ("cur2", 2)])
        qs += seek_grid(csi, cs, "ta", 1, 2, positions=[("cur1", 1)])           # healthy neighbour
        qs += seek_grid(csi, cs, "tb", 0, 1, positions=[("cur2", 2)], offs=(0, 1))  # connection to a non-leader
        C.add_job(csi, vsets[0], qs)
    # Seek / Offset on a partition with an open transaction at the tail: the Conn has no isolation level, its bounds are
    # the log start and log end offsets whatever the last stable offset is
    cs = with_fault(with_fault(base, ("lso", "ta", 0, 2)), ("lso", "ta", 1, 0))
    csi = C.add_state(cs)
    C.add_job(csi, vsets[0], seek_grid(csi, cs, "ta", 0, 1, positions=[("fresh", None), ("cur2", 2)]) +
              seek_grid(csi, cs, "ta", 1, 2, positions=[("cur-1", -1)], offs=(0, 1, 2)))

    # --- cluster states for the query APIs
    states = []
    c22 = make_cs(2, (2, 2), {("ta", 0): (1, 4), ("ta", 1): (0, 2), ("tb", 0): (2, 3), ("tb", 1): (0, 0)},
                  tskinds={("ta", 0): 2, ("ta", 1): 0, ("tb", 0): 3},
                  committed={("g1", "ta", 0): 3, ("g1", "tb", 1): 0, ("g2", "ta", 1): 2, ("g2", "ta", 0): 4}, isr_short={("ta", 1)},
                  coord={"g1": 1, "g2": 2}, leader_last={("tb", 1), ("ta", 1)}, controller=2)
    states.append(("c22", c22))
    states.append(("c22-lerr", with_fault(c22, ("lerr", "ta", 1, 6))))
    states.append(("c22-down", with_fault(c22, ("down", 2))))
    states.append(("c22-merr", with_fault(c22, ("merr", "tb", 0, 9))))
    # lookups by timestamp fail on one partition (e.g. UnsupportedForMessageFormat) while first/last succeed: one call that
    # asks for several timestamps of that partition gets the error AND the offsets that could be answered
    states.append(("c22-lerrt", with_fault(c22, ("lerrt", "ta", 0, 43))))
    # open transactions at the tail: last stable offset below the high watermark on ta/0 (1 <= 2 < 4), ta/1 (0 <= 1 < 2) and
    # tb/0 (2 <= 2 < 3); equal to it on tb/1 (empty log)
    c22lso = with_fault(with_fault(with_fault(c22, ("lso", "ta", 0, 2)), ("lso", "ta", 1, 1)), ("lso", "tb", 0, 2))
    states.append(("c22-lso", c22lso))
    # a coordinator that refuses one group and serves the other
    refused = [("c22-refused14", with_fault(c22, ("gerr", "g1", 14))), ("c22-refused16", with_fault(c22, ("gerr", "g2", 16)))]
    if thorough:
        refused += [("c22-refused15", with_fault(c22, ("gerr", "g2", 15))), ("c22-refused30", with_fault(with_fault(c22, ("gerr", "g1", 30)), ("gerr", "g2", 14)))]
    states += refused
    nrand = 72 if thorough else 4
    for k in range(nrand):
        cs = random_cs(rng)
        f = random_fault(rng, cs) if k % 2 == 0 else None
        if f:
            cs = with_fault(cs, f)
        states.append(("r%d" % k, cs))
    if thorough:
        c3 = random_cs(rng, nb=3, shapes=(3, 3))
        states.append(("c33-blackhole", with_fault(c3, ("down", 3, "blackhole"))))

    csi_of = {}
    for k, (name, cs) in enumerate(states):
        csi = C.add_state(cs)
        csi_of[name] = csi
        vs = vsets[k % len(vsets)]
        qs = []
        qs += q_readoffsets(csi, cs)
        qs += q_readpartitions(csi, cs)
        qs += q_metadata(csi, cs)
        ntp = len(all_tps(cs))
        if name.startswith("c22"):
            tsets = [(-2,), (-1,), (10,), (-2, -1), (-2, -1, 15), (10, 20), (-2, -1, 0, 10, 20, 25)]
            qs += q_listoffsets_uniform(csi, cs, tsets if thorough or name in ("c22", "c22-lerr", "c22-lerrt") else tsets[3:5],
                                        isos=(0, 1) if name == "c22-lso" else (0,))
            qs += q_listoffsets_random(rng, csi, cs, 150 if thorough else (60 if name in ("c22", "c22-lerr", "c22-down") else 20))
            qs += q_offsetfetch(csi, cs)
            qs += q_commit(rng, csi, cs, 60 if thorough else 25, refused=0.2)
        elif name.endswith("blackhole"):
            # a dial to a black-holed leader lasts the whole dial time-out (15 s, generous so that load never
            # becomes an answer): few requests, exactly one entry on the unreachable leader, one cluster each
            tps = all_tps(cs)
            bad = [(t, p) for (t, p) in tps if not up_leader(cs, t, p)]
            good = [(t, p) for (t, p) in tps if up_leader(cs, t, p)]
            for j in range(6):
                reqs = [(t, p, rng.choice(TS_PROBES)) for (t, p) in rng.sample(good, rng.randint(1, len(good)))]
                reqs.insert(rng.randint(0, len(reqs)), bad[j % len(bad)] + (rng.choice([-2, -1, 10]),))
                C.add_job(csi, vsets[j % len(vsets)], [q_listoffsets_one(csi, reqs, "bh%d/%s" % (j, req_tag(reqs)))])
            qs += q_offsetfetch(csi, cs, rng, 10)
        else:
            qs += q_listoffsets_random(rng, csi, cs, 120 if thorough else 30)
            qs += q_offsetfetch(csi, cs, rng, 40 if thorough else 10)
            qs += q_commit(rng, csi, cs, 30 if thorough else 8, refused=0.25)
        C.add_job(csi, vs, qs)
        if thorough and name.startswith("c22") and name != "c22-merr":
            # every subset of {4 partitions} x {first, last, one time} in one request
            C.add_job(csi, vsets[(k + 1) % len(vsets)], q_listoffsets_pairs_exhaustive(csi, cs, (-2, -1, 15)), chunk=400)
        if thorough and not name.endswith("blackhole"):
            # the same state seen through other API versions
            for j in range(2):
                C.add_job(csi, vsets[(k + 3 + 5 * j) % len(vsets)],
                          q_metadata(csi, cs) + q_readpartitions(csi, cs) + q_listoffsets_random(rng, csi, cs, 25) +
                          q_offsetfetch(csi, cs, rng, 8) + q_commit(rng, csi, cs, 8, refused=0.25))
    # partition-level metadata errors through every metadata decoder of the Conn (v1 and v6+) and of the Client
    for name, cs in states:
        if any(p["merr"] for t in cs["topics"] for p in t["parts"]):
            for mv in (1, 6, MAXVERS["metadata"]):
                C.add_job(csi_of[name], dict(MAXVERS, metadata=mv), q_readpartitions(csi_of[name], cs) + q_metadata(csi_of[name], cs))
    # last stable offsets below the high watermark, asked with both isolation levels through the ListOffsets version that has no
    # isolation level (1: the value is ignored), the first that has one (2) and the later ones
    csi = csi_of["c22-lso"]
    cs = C.states[csi - 1]
    lso_tsets = [(-1,), (-2, -1), (-2, -1, 15), (10, 20), (-2, -1, 0, 10, 20, 25)]
    for lv in ((1, 2, 3, 4, 5) if thorough else (1, 2, 5)):
        C.add_job(csi, dict(MAXVERS, listoffsets=lv), q_listoffsets_uniform(csi, cs, lso_tsets, isos=(0, 1)) +
                  q_listoffsets_random(rng, csi, cs, 80 if thorough else 30))
        if thorough and lv in (2, 5):
            C.add_job(csi, dict(MINVERS, listoffsets=lv), q_listoffsets_pairs_exhaustive(csi, cs, (-2, -1, 15), iso=1), chunk=400)
    # a refused group through every OffsetFetch version (0/1: the code comes back on every partition, 2: the first version with a
    # group-level error code, 3..5) and every OffsetCommit version (0..7)
    for name, cs in refused:
        csi = csi_of[name]
        for i in range(8):
            C.add_job(csi, dict(MAXVERS, offsetfetch=i % 6, offsetcommit=i),
                      q_offsetfetch(csi, cs) + q_commit(rng, csi, cs, 16 if thorough else 8, refused=0.75))
    if not thorough:
        # a slice of the exhaustive (partition, timestamp) subsets on the 2x2 cluster, with and without a failing partition
        for name in ("c22", "c22-lerr"):
            csi = csi_of[name]
            allq = q_listoffsets_pairs_exhaustive(csi, C.states[csi - 1], (-2, -1, 15))
            C.add_job(csi, vsets[1], rng.sample(allq, 150))
    return C


# ---------------------------------------------------------------------------------------------
# driver + TLC judge
# ---------------------------------------------------------------------------------------------
def sanity(ctx):
    r = ctx.tlc(ENGINE, "Offsets", "Offsets.cfg", workers=1, timeout=120, tag="anchors")
    if r["error"] or r["violated"] or r["timeout"] or "Assumption" in r["out"] and "is false" in r["out"]:
        raise Inconclusive("anchor cases of Offsets.tla failed: " + r["out"][-1500:])
    return len(re.findall(r"^ASSUME", open(os.path.join(ctx.specdir(ENGINE), "Offsets.tla")).read(), re.M))


def run_driver(ctx, jobs, tag="jobs"):
    jp = os.path.join(ctx.work, "off-%s.ndjson" % tag)
    ap = os.path.join(ctx.work, "off-%s-answers.ndjson" % tag)
    write_ndjson(jp, jobs)
    p = ctx.run_vh(["offsets", "-jobs", jp, "-out", ap, "-par", "16"], timeout=1500)
    if p.returncode != 0:
        raise Inconclusive("vh offsets failed: " + (p.stderr or p.stdout)[-2000:])
    rows = read_ndjson(ap)
    n = sum(len(j["queries"]) for j in jobs)
    if len(rows) != n:
        raise Inconclusive("driver answered %d of %d queries" % (len(rows), n))
    return rows


def settle(ctx, rows, jobs_by_id):
    """A watchdog expiry or a time-out of the harness' own (generous) deadlines may be the machine's load and not
    the library: such queries are run again alone; what they answer then is what TLC judges (a hang that
    reproduces stays a hang and is rejected by the judge)."""
    again = [i for i, r in enumerate(rows) if r["a"].get("hang") or "time-out" in r["a"].get("drivererr", "")]
    if again:
        if len(again) > 40:
            raise Inconclusive("%d queries hung or timed out (machine overloaded?), e.g. %s" % (len(again), rows[again[0]]["id"]))
        ctx.notes.append("%d queries hung or timed out in the parallel run and were repeated alone" % len(again))
        for i in again:
            job = jobs_by_id[rows[i]["id"]]
            r2 = run_driver(ctx, [job], tag="retry")
            r2[0]["csi"] = rows[i]["csi"]
            rows[i] = r2[0]
    for r in rows:
        if "drivererr" in r["a"]:
            raise Inconclusive("driver error on %s: %s" % (r["id"], r["a"]["drivererr"]))
    return rows


def judge_shard(ctx, k, rows, csfile, mode, results):
    cf = os.path.join(ctx.work, "off-cases-%d.ndjson" % k)
    write_ndjson(cf, rows)
    try:
        # no trace-explorer spec files: the shards share one spec directory
        results[k] = ctx.tlc(ENGINE, "OffsetsCheck", "OffsetsCheck.cfg", workers=1, timeout=1500, tag="judge-%s-%d" % (mode, k),
                             env={"CASES": cf, "CSFILE": csfile, "MODE": mode}, extra=["-noGenerateSpecTE"])
    except Exception as e:       # reported by the caller as inconclusive
        results[k] = {"error": "judge thread failed: %r" % (e,), "timeout": False, "violated": None, "out": "", "distinct": 0, "generated": 0}


def judge(ctx, rows, states, nshards, mode="strict"):
    csfile = os.path.join(ctx.work, "off-cs.ndjson")
    write_ndjson(csfile, states)
    ctx.specdir(ENGINE)
    nshards = max(1, min(nshards, len(rows)))
    size = (len(rows) + nshards - 1) // nshards
    shards = [rows[i:i + size] for i in range(0, len(rows), size)]
    results = [None] * len(shards)
    ths = [threading.Thread(target=judge_shard, args=(ctx, k, sh, csfile, mode, results)) for k, sh in enumerate(shards)]
    for t in ths:
        t.start()
    for t in ths:
        t.join()
    return shards, results


def mismatches(out):
    """MISMATCH lines printed by OffsetsCheck in report mode -> [(case id, [fields])]"""
    res = []
    for m in re.finditer(r'<<\s*"MISMATCH",\s*"([^"]*)",\s*\{([^}]*)\}\s*>>', out.replace("\n", " ")):
        res.append((m.group(1), re.findall(r'"([^"]*)"', m.group(2))))
    return res


def check(ctx, rows, states, nshards, jobs_by_id, maxreport=12):
    """TLC judges all rows; returns (accepted, failing [(row, fields)], distinct, generated)"""
    shards, results = judge(ctx, rows, states, nshards)
    distinct = generated = 0
    failing = []
    for k, (sh, r) in enumerate(zip(shards, results)):
        if r["error"] or r["timeout"] or (r["violated"] and r["violated"] != "AnswersExact"):
            raise Inconclusive("judge run failed: " + (r["error"] or r["out"][-2000:]))
        distinct += r["distinct"]
        generated += r["generated"]
        if r["violated"]:
            # list every failing case of this shard (TLC again, printing instead of stopping)
            _, rr = judge(ctx, sh, states, 1, mode="report")
            r2 = rr[0]
            if r2["error"] or r2["timeout"] or r2["violated"]:
                raise Inconclusive("judge report run failed: " + (r2["error"] or r2["out"][-2000:]))
            mm = mismatches(r2["out"])
            if not mm:
                raise Inconclusive("AnswersExact violated but no MISMATCH line was found")
            byid = {row["id"]: row for row in sh}
            for cid, fields in mm:
                failing.append((byid[cid], fields))
    accepted = len(rows) - len(failing)
    reported = 0
    for row, fields in failing:
        if reported >= maxreport:
            break
        reported += 1
        job = jobs_by_id.get(row["id"])
        rep = ctx.save_replay(re.sub(r"[^A-Za-z0-9_.=+-]", "_", row["id"])[:150], [
            ("case.json", json.dumps(row, indent=1)),
            ("cs.json", json.dumps(states[row["csi"] - 1], indent=1)),
            ("job.json", json.dumps(job)),
            ("verdict.txt", "TLC (OffsetsCheck!Judge) rejects fields: %s\n" % ", ".join(fields))])
        for f in fields:
            ctx.violation("%s: answer of the real code differs from the cluster state in field '%s' (case %s, answer %s)" %
                          (row["api"], f, row["id"], json.dumps(row["a"])[:400]), rep, key="%s %s %s" % (row["api"], row["id"], f))
    if len(failing) > reported:
        ctx.notes.append("%d failing cases, only the first %d were reported one by one" % (len(failing), reported))
    return accepted, failing, distinct, generated


def group_err(cs, g):
    return next((x.get("gerr", 0) for x in cs["groups"] if x["id"] == g), 0)


def guard_class(row, cs):
    """the kind of case, for the vacuity guard: the API, and apart from the plain cases of an API those whose expected answer
    hangs on the last stable offset or on a refusal of the coordinator"""
    api, q = row["api"], row["q"]
    if api == "listoffsets" and q.get("iso") == 1 and q.get("bv", 0) >= 2 and any(
            r["ts"] == -1 and part_of(cs, r["t"], r["p"]) and part_of(cs, r["t"], r["p"])["lso"] < part_of(cs, r["t"], r["p"])["end"]
            for r in q["reqs"]):
        return "listoffsets:read_committed"
    if api == "offsetfetch" and group_err(cs, q["group"]):
        return "offsetfetch:refused"
    if api == "commit" and q.get("gerr"):
        return "commit:refused"
    return api


GUARD_CLASSES = {"seek", "readoffset", "readpartitions", "metadata", "listoffsets", "offsetfetch", "commit",
                 "listoffsets:read_committed", "offsetfetch:refused", "commit:refused"}


def corrupt(row, cs=None):
    """a copy of an accepted case with one field of the answer falsified (None when the case has no such field)"""
    r = json.loads(json.dumps(row))
    a, api = r["a"], r["api"]
    cls = guard_class(row, cs) if cs else api
    if cls == "listoffsets:read_committed":
        # the answer of a client that lost the isolation level: the high watermark in the place of the last stable offset
        hit = False
        for p in a.get("parts", []):
            part = part_of(cs, p["t"], p["p"])
            if p["err"] == 0 and part and p["last"] == part["lso"] < part["end"]:
                p["last"], hit = part["end"], True
                break
        if not hit:
            return None
    elif cls == "offsetfetch:refused":
        # the refusal dropped: no group-level error, no partition error
        if a["err"] != 0:
            return None
        a["gerr"] = 0
        for p in a["parts"]:
            p["err"] = 0
    elif cls == "commit:refused":
        if a["cerr"] != 0 or not a["cparts"]:
            return None
        a["cparts"][0]["err"] = 0
    elif api == "seek" and a["steps"]:
        a["steps"][-1]["aoff"] += 1
    elif api == "readoffset" and a["err"] == 0:
        a["off"] += 1
        a["first"] += 1
    elif api == "readpartitions" and a["err"] == 0 and a["parts"]:
        a["parts"][0]["isr"] = a["parts"][0]["isr"][1:] + [{"id": 9, "host": "b9", "port": 9092}]
    elif api == "metadata" and a["err"] == 0 and any(t["parts"] for t in a["topics"]):
        t = next(t for t in a["topics"] if t["parts"])
        t["parts"][0]["leader"] = {"id": 9, "host": "b9", "port": 9092}
    elif api == "listoffsets" and a["err"] == 0 and any(p["err"] == 0 for p in a["parts"]):
        p = next(p for p in a["parts"] if p["err"] == 0)
        p["last"] += 1
    elif api == "offsetfetch" and a["err"] == 0 and a["parts"]:
        a["parts"][-1]["off"] += 1
    elif api == "commit" and a["cerr"] == 0 and a["co"]["offs"]:
        a["co"]["offs"][0][1] += 1
    else:
        return None
    r["id"] = "falsified:" + r["id"]
    return r


def vacuity_guard(ctx, rows, states, failing_ids):
    """the judge must reject falsified answers: a few accepted cases per API with one field changed"""
    bad = []
    per = {}
    for r in rows:
        cs = states[r["csi"] - 1]
        cls = guard_class(r, cs)
        if r["id"] in failing_ids or per.get(cls, 0) >= 4:
            continue
        c = corrupt(r, cs)
        if c:
            per[cls] = per.get(cls, 0) + 1
            bad.append(c)
    _, rr = judge(ctx, bad, states, 1, mode="report")
    r = rr[0]
    if r["error"] or r["timeout"] or r["violated"]:
        raise Inconclusive("vacuity guard run failed: " + (r["error"] or r["out"][-1500:]))
    rejected = {cid for cid, _ in mismatches(r["out"])}
    missed = [c["id"] for c in bad if c["id"] not in rejected]
    if missed or (not failing_ids and not GUARD_CLASSES <= set(per)):
        raise Inconclusive("vacuity guard: the judge accepted falsified answers %s (kinds of cases covered: %s, wanted: %s)" %
                           (missed[:5], sorted(per), sorted(GUARD_CLASSES)))
    return len(bad)


def single_jobs(C):
    """case id -> a one-query job that reproduces the case"""
    out = {}
    for j in C.jobs:
        for q in j["queries"]:
            out[q["id"]] = {"csi": 1, "cs": j["cs"], "versions": j["versions"], "queries": [q]}
    return out


def run(ctx):
    nassume = sanity(ctx)
    ctx.log("Offsets.tla anchors ok (%d ASSUMEs)" % nassume)
    C = enumerate_cases(ctx.tier, ctx.seed)
    ctx.log("%d cluster states, %d jobs, %d cases" % (len(C.states), len(C.jobs), C.n))
    singles = single_jobs(C)
    rows = settle(ctx, run_driver(ctx, C.jobs), singles)
    ctx.log("driver answered %d queries" % len(rows))
    nshards = 6 if ctx.tier == "quick" else 16
    accepted, failing, distinct, generated = check(ctx, rows, C.states, nshards, singles)
    nguard = vacuity_guard(ctx, rows, C.states, {r["id"] for r, _ in failing})
    per_api, per_api_fail = {}, {}
    for r in rows:
        per_api[r["api"]] = per_api.get(r["api"], 0) + 1
    for r, _ in failing:
        per_api_fail[r["api"]] = per_api_fail.get(r["api"], 0) + 1
    seeks = [r for r in rows if r["api"] == "seek"]
    whence_cov = sorted({(s["whence"], s["off"], s["dc"]) for r in seeks for s in r["q"]["steps"]})
    lo = [r for r in rows if r["api"] == "listoffsets"]
    versions = sorted({json.dumps(j["versions"], sort_keys=True) for j in C.jobs})
    faults = {"lerr": sum(1 for s in C.states if any(p["lerr"] for t in s["topics"] for p in t["parts"])),
              "merr": sum(1 for s in C.states if any(p["merr"] for t in s["topics"] for p in t["parts"])),
              "down": sum(1 for s in C.states if s["down"]),
              "lso_below_high_watermark": sum(1 for s in C.states if any(p["lso"] < p["end"] for t in s["topics"] for p in t["parts"])),
              "refused_group": sum(1 for s in C.states if any(g["gerr"] for g in s["groups"]))}
    cls_of = [guard_class(r, C.states[r["csi"] - 1]) for r in rows]

    def by_version(cls, api):
        out = {}
        for r, c in zip(rows, cls_of):
            if c == cls:
                v = "v%s" % (r.get("v") or {}).get(api, "?")
                out[v] = out.get(v, 0) + 1
        return dict(sorted(out.items()))
    seen_versions = {}
    for r in rows:
        for api, v in (r.get("v") or {}).items():
            seen_versions.setdefault(api, set()).add(v)
    # the two dimensions below must not silently drop out of the enumeration
    need = {"offsetfetch:refused/OffsetFetch": {"v%d" % v for v in range(6)}, "commit:refused/OffsetCommit": {"v%d" % v for v in range(8)},
            "listoffsets:read_committed/ListOffsets": {"v2", "v5"}}
    for key, want in need.items():
        cls, api = key.split("/")
        if not failing and not want <= set(by_version(cls, api)):
            raise Inconclusive("coverage lost: %s cases reached the brokers with %s versions %s, wanted %s" %
                               (cls, api, sorted(by_version(cls, api)), sorted(want)))
    pick = lambda api: next((r for r in rows if r["api"] == api), None)
    pick_cls = lambda cls: next((r for r, c in zip(rows, cls_of) if c == cls), None)
    samples = [x for x in (pick("seek"), pick("listoffsets"), pick("commit"), rows[len(rows) // 2],
                           pick_cls("listoffsets:read_committed"), pick_cls("offsetfetch:refused")) if x]
    return {"engine": ENGINE, "states": distinct, "transitions": generated,
            "traces_validated_against_impl": accepted, "cases": len(rows), "cases_rejected": len(failing),
            "cluster_states": len(C.states), "clusters_built": len(C.jobs), "states_with_fault": faults,
            "per_api": per_api, "per_api_rejected": per_api_fail, "anchor_assumes": nassume,
            "falsified_answers_rejected_by_judge": nguard,
            "seek_steps": sum(len(r["q"]["steps"]) for r in seeks), "seek_whence_off_dc_combinations": len(whence_cov),
            "listoffsets_requests_entries_max": max([len(r["q"]["reqs"]) for r in lo] or [0]),
            "listoffsets_with_failing_partition": sum(1 for r in lo if any(p["err"] != 0 for p in r["a"].get("parts", []))),
            "listoffsets_read_committed": sum(1 for r in lo if r["q"]["iso"] == 1),
            "listoffsets_by_broker_max_version_and_isolation": {"v%d/iso%d" % (v, i): sum(1 for r in lo if r["q"]["bv"] == v and r["q"]["iso"] == i)
                                                                for v in sorted({r["q"]["bv"] for r in lo}) for i in (0, 1)},
            "listoffsets_read_committed_last_below_high_watermark_by_version": by_version("listoffsets:read_committed", "ListOffsets"),
            # the same question where the brokers speak ListOffsets v1 at most: the isolation level must be ignored
            "listoffsets_read_committed_last_below_high_watermark_brokers_v1": sum(
                1 for r in lo if r["q"]["iso"] == 1 and r["q"]["bv"] < 2 and any(
                    x["ts"] == -1 and part_of(C.states[r["csi"] - 1], x["t"], x["p"]) and
                    part_of(C.states[r["csi"] - 1], x["t"], x["p"])["lso"] < part_of(C.states[r["csi"] - 1], x["t"], x["p"])["end"] for x in r["q"]["reqs"])),
            "offsetfetch_of_refused_group_by_version": by_version("offsetfetch:refused", "OffsetFetch"),
            "commit_to_refusing_coordinator_by_offsetcommit_version": by_version("commit:refused", "OffsetCommit"),
            "commit_to_refusing_coordinator_by_offsetfetch_version": by_version("commit:refused", "OffsetFetch"),
            "consumeroffsets_asked_of_refused_group": CO_ON_REFUSED_GROUP,
            "api_version_sets": [json.loads(v) for v in versions][:12], "api_version_sets_count": len(versions),
            "api_versions_received_by_brokers": {k: sorted(v) for k, v in sorted(seen_versions.items())},
            "samples": [{"id": s["id"], "q": s["q"], "a": s["a"], "cs": C.states[s["csi"] - 1]} for s in samples[:6]]}


def replay(ctx, path):
    job = json.load(open(os.path.join(path, "job.json")))
    rows = settle(ctx, run_driver(ctx, [job], tag="replay"), {job["queries"][0]["id"]: job})
    accepted, failing, _, _ = check(ctx, rows, [job["cs"]], 1, {rows[0]["id"]: job})
    print("replay: %d accepted, %d rejected" % (accepted, len(failing)))
    return 1 if ctx.violations else 0
