"""C17 (crash points) is assembled from the Conn part and, later, the Transport/Reader/Writer parts."""
from engines import conn

PROPS = {"C17": "fault_enumeration"}


def run(ctx):
    import os
    keep = ["conn.go", "writer.go"]
    if os.path.exists(os.path.join(os.path.dirname(__file__), "transport.py")):
        keep.append("transport.go")
    ctx.vh_keep = keep
    cov = conn.run_part(ctx, "C17")
    n = cov.get("cut_points", 0)
    cov.update({"evaluations": n, "distinct_nontrivial": n,
                "rule": "one case per (response type, version, codec, cut position k): the fake broker delivers exactly k bytes of the response frame and closes; every k of every frame in thorough, every k of the first 100 bytes plus a seeded sample in quick; non-trivial = k < frame length",
                "exhaustive": ctx.tier == "thorough"})
    return cov
