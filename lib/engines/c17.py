"""C17 (crash points) is assembled from the Conn part and, later, the Transport/Reader/Writer parts."""
from engines import conn, writer, transport, reader

PROPS = {"C17": "fault_enumeration"}


def run(ctx):
    import os
    keep = ["conn.go", "writer.go", "reader.go"]
    if os.path.exists(os.path.join(os.path.dirname(__file__), "transport.py")):
        keep.append("transport.go")
    ctx.vh_keep = keep
    cov = conn.run_part(ctx, "C17")
    # Writer on the real Transport: the produce acknowledgement cut at every byte position (v2, v3, v7); the Writer goes on
    # on a new connection, nothing is lost, duplicated beyond C01's retry rule, or reordered
    w = writer.real_part(ctx, writer.PROP_INVS["C01"] + writer.PROP_INVS["C07"] + ["C08_NoStuckCall", "C09w_CloseReturns"], [], cuts=True)
    w.pop("divergences_full", None)
    cov["writer_continuation"] = w
    cov["traces_validated_against_impl"] = (cov.get("traces_validated_against_impl") or 0) + w["traces_validated_against_impl"]
    # Reader: fetch responses cut at record / header / payload positions, then continued on a new connection
    cov["reader_continuation"] = reader.cut_part(ctx)
    cov["traces_validated_against_impl"] += cov["reader_continuation"]["traces_monitored"]
    # every response type read through the Transport, cut at every byte
    t = transport.run_part(ctx, "C17")
    cov["transport"] = {k: t.get(k) for k in t if k not in ("samples", "frames")}
    cov["traces_validated_against_impl"] += t.get("traces_validated_against_impl") or 0
    n = cov.get("cut_points", 0) + w["ack_cut_positions"] * 3 + (t.get("cut_points") or 0)
    cov.update({"evaluations": n, "distinct_nontrivial": n,
                "rule": "one case per (response type, version, codec, cut position k): the fake broker delivers exactly k bytes of the response frame and closes; every k of every frame in thorough, every k of the first 100 bytes plus a seeded sample in quick; non-trivial = k < frame length; the Conn part also cuts, at every k in both tiers, Fetch v2/v5/v10 responses that carry a partition-level error code (1, 6, 3) and Fetch v10 responses with a response-level error code (with and without partition data behind it), each followed by a second operation on the same Conn",
                "exhaustive": ctx.tier == "thorough"})
    return cov


def replay(ctx, path):
    from engines import replayer
    return replayer.replay(ctx, path)
