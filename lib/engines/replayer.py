"""Generic `bin/check <id> <tier> --replay <dir>` for the script-driven engines: the saved script is run again on the code
built from /repo's CURRENT working tree and the resulting trace is judged by the engine's TLC monitor with every invariant
the engine has.  Prints REPRODUCED + VIOLATION (exit 1) or NOT-REPRODUCED (exit 0)."""
import json, os


def which(script):
    if "cfg" in script and "steps" in script:
        return "writer"
    if "log" in script and "fetchVersion" in script:
        return "reader"
    if "mode" in script and "topics" in script:
        return "group"
    if "ops" in script and "versions" in script or script.get("kind") == "pool":
        return "conn"
    if "brokers" in script and "steps" in script:
        return "transport"
    return None


def replay(ctx, path):
    sp = os.path.join(path, "script.json")
    if not os.path.exists(sp):
        print("no script.json in %s" % path)
        return 2
    script = json.load(open(sp))
    eng = which(script)
    if eng == "writer":
        from engines import writer as m
        invs = sorted({i for v in m.PROP_INVS.values() for i in v} | {i for v in m.MON_EXTRA.values() for i in v})
        traces = m.run_scripts(ctx, [script], "replay")
        m.monitor(ctx, [script], traces, invs, [])
    elif eng == "reader":
        from engines import reader as m
        traces = m.run_scripts(ctx, [script], "replay")
        m.monitor(ctx, [script], traces, m.INVS + ["C09r_CloseReturns"])
    elif eng == "group":
        from engines import group as m
        invs = sorted({i for v in m.PROP_INVS.values() for i in v})
        traces = m.run_scripts(ctx, [script], "replay")
        m.monitor(ctx, [script], traces, invs)
    elif eng == "conn":
        from engines import conn as m
        invs = sorted({i for v in m.PROP_INVS.values() for i in v})
        scripts = [script]
        traces = m.run_scripts(ctx, scripts, "replay")
        m.monitor(ctx, scripts, traces, invs)
    elif eng == "transport":
        from engines import transport as m
        return _transport(ctx, m, script)
    else:
        print("cannot tell which engine wrote %s" % sp)
        return 2
    if ctx.violations:
        print("REPRODUCED on the current tree: %d violation(s)" % len(ctx.violations))
        return 1
    print("NOT-REPRODUCED on the current tree (script %s)" % script.get("id"))
    return 0


def _transport(ctx, m, script):
    traces = m.run_scripts(ctx, [script], "replay")
    invs = sorted({i for v in getattr(m, "PROP_INVS", {}).values() for i in v}) or None
    if invs is None:
        print("transport engine has no invariant table")
        return 2
    m.monitor(ctx, [script], traces, invs)
    if ctx.violations:
        print("REPRODUCED on the current tree: %d violation(s)" % len(ctx.violations))
        return 1
    print("NOT-REPRODUCED on the current tree (script %s)" % script.get("id"))
    return 0
