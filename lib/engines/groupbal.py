"""Engine E10: consumer-group balancers (C14).

Pattern "code computes, spec judges": the inputs are enumerated here (exhaustively in small scope plus
seeded random larger groups), the Go driver (vh groupbal) calls the REAL AssignGroups of /repo on each and
writes (balancer, input, output) lines, and TLC evaluates the clauses of C14 defined in
spec/groupbal/GroupBalancers.tla on every line (spec/groupbal/GroupBalCheck.tla, one invariant per clause,
a line counter identifies the failing line).  Nothing in this file decides whether an output is right."""
import itertools, json, os, random, re, threading, time
from concurrent.futures import ThreadPoolExecutor
from vlib import Inconclusive, read_ndjson, write_ndjson

ENGINE = "groupbal"
PROPS = {"C14": "model_checking"}
ASSUMPTIONS = {"C14": [
    "inputs have distinct member ids, no topic twice in one subscription, no (topic, partition) listed twice, and every member "
    "subscribes to at least one topic (what a JoinGroup response and a metadata response give); checked by TLC (Internal_InputOK)",
    "member ids are ordered bytewise as Go orders strings; GroupBalancers.tla lists the ids used (a..d, m000..m199) in that order",
    "map iteration order of RackAffinityGroupBalancer is explored by calling it several times per input (8 in small scope), "
    "not by enumerating every iteration order",
    "the rack bound is checked for named racks; members and leaders with the empty rack are counted separately (rackNoRack), not judged",
    "GroupJoin.tla abstracts the balancer to 'some Balanced assignment of the partitions the leader saw'; its coordinator keeps the leader while it "
    "is a member and completes a round when every known member rejoined (Kafka's rules, which the fake coordinator implements); the JoinGroup "
    "response is an unobserved step of the trace specification",
    "leader path: partitions are numbered from 0; a subscribed topic may be missing from the cluster (error 3 in the metadata answer); the fake coordinator elects the "
    "scripted leader and lists the members in the scripted order (a real coordinator elects and lists as it likes); partitions are "
    "listed in ascending id order per topic",
    "the Go driver serialises the returned map faithfully (entries sorted by member and topic); a panic in AssignGroups is a line with panic text",
]}

CLAUSES = ["C14_Computed", "C14_ExactlyOnce", "C14_OnlySubscribers", "C14_Even", "C14_OrderFree", "C14_RangeShape",
           "C14_RRShape", "C14_RackBound"]
APPLIES = {"range": ["C14_Computed", "C14_ExactlyOnce", "C14_OnlySubscribers", "C14_Even", "C14_OrderFree", "C14_RangeShape"],
           "roundrobin": ["C14_Computed", "C14_ExactlyOnce", "C14_OnlySubscribers", "C14_Even", "C14_OrderFree", "C14_RRShape"],
           "rack": ["C14_Computed", "C14_ExactlyOnce", "C14_OnlySubscribers", "C14_Even", "C14_RackBound"]}
IDS = ["a", "b", "c", "d"]
SUBS = [["t"], ["u"], ["t", "u"]]
RACKS = ["", "r1", "r2"]
MAX_REPORTED = 8           # violations reported per run (each with its own replay directory)
JVM_OPTS = "-XX:ActiveProcessorCount=2 -Xmx4g"   # 16 judges run side by side: keep each JVM's GC/JIT thread pools small
ROUNDS_PER_SHARD = 2       # after a violated line the rest of the shard is judged again, this many times


# ------------------------------------------------------------------------------------------- inputs
def plist(counts, order, rng, racks=None):
    """Partitions of the topics in `counts` ({topic: n}), ids 0..n-1, listed topic by topic ("ordered") or shuffled."""
    ps = []
    for t in sorted(counts):
        for k in range(counts[t]):
            ps.append({"topic": t, "id": k, "rack": (racks[t][k] if racks else "")})
    if order == "shuffled":
        rng.shuffle(ps)
    return ps


def listing_orders(ids, tier, rng):
    ids = sorted(ids)
    if tier == "thorough":
        return [list(p) for p in itertools.permutations(ids)]
    out = [ids]
    if len(ids) > 1:
        out.append(ids[::-1])
    if len(ids) > 2:
        k = rng.randrange(1, len(ids))
        rot = ids[k:] + ids[:k]
        if rot in out:                      # cannot happen for a proper rotation of >2 sorted ids, kept for safety
            rot = [ids[1], ids[0]] + ids[2:]
        out.append(rot)
    return out


def small_range_rr(tier, rng):
    """Range/RoundRobin, small scope: members from {a,b,c,d}, topics {t,u}, 0..5 partitions per topic."""
    if tier == "thorough":
        sets = [list(s) for k in range(1, 5) for s in itertools.combinations(IDS, k)]
        counts = [(nt, nu) for nt in range(6) for nu in range(6)]
    else:
        sets = [["a"], ["a", "b"], ["b", "d"], ["a", "b", "c"], ["a", "c", "d"], ["a", "b", "c", "d"]]
        # every partition count of t against three counts of u (one of them drawn per seed)
        nus = sorted({0, 3, rng.choice([1, 2, 4, 5])})
        counts = [(nt, nu) for nt in range(6) for nu in nus]
    for bal in ("range", "roundrobin"):
        for s in sets:
            for order in listing_orders(s, tier, rng):
                for subs in itertools.product(SUBS, repeat=len(order)):
                    subd = dict(zip(sorted(s), subs))      # the subscription belongs to the member, not to its position
                    for (nt, nu) in counts:
                        for po in ("ordered", "shuffled"):
                            if po == "shuffled" and nt + nu < 2:
                                continue
                            if tier == "quick" and po == "shuffled" and len(s) == 4 and (nt + nu) % 2 == 0:
                                continue
                            members = [{"id": m, "topics": (subd[m] if order == sorted(s) else subd[m][::-1]), "rack": ""}
                                       for m in order]
                            yield {"balancer": bal, "members": members, "partitions": plist({"t": nt, "u": nu}, po, rng),
                                   "scope": "small"}


def small_rack(tier, rng):
    """RackAffinity, small scope: one topic, <=3 members, <=5 partitions, racks of members and leaders from {"", r1, r2}."""
    for k in ((1, 2, 3, 4) if tier == "thorough" else (1, 2, 3)):
        ids = IDS[:k]
        orders = listing_orders(ids, "thorough" if tier == "thorough" else "quick", rng)
        if tier == "quick":
            orders = orders[:2]
        if k == 4:                          # beyond the scope of DESIGN 6.12: four members, two listing orders, <=4 partitions
            orders = [ids, ids[::-1]]
        for order in orders:
            for mr in itertools.product(RACKS, repeat=k):
                mrd = dict(zip(ids, mr))
                for n in range(5 if k == 4 else 6):
                    allpr = list(itertools.product(RACKS, repeat=n))
                    if tier == "quick" and len(allpr) > 27:
                        allpr = rng.sample(allpr, 27 if n == 4 else 40)
                    for pr in allpr:
                        parts = plist({"t": n}, "ordered", rng, racks={"t": pr})
                        if tier == "thorough" and n >= 2 and order != sorted(ids):
                            rng.shuffle(parts)
                        yield {"balancer": "rack", "members": [{"id": m, "topics": ["t"], "rack": mrd[m]} for m in order],
                               "partitions": parts, "scope": "small"}
    # two topics: a subscribed topic without partitions, a topic with partitions and no subscriber, mixed subscriptions
    n2 = 150 if tier == "quick" else 3000
    for _ in range(n2):
        k = rng.randint(1, 3)
        ids = rng.sample(IDS, k)
        members = [{"id": m, "topics": rng.choice(SUBS + [["u", "t"]]), "rack": rng.choice(RACKS)} for m in ids]
        counts = {"t": rng.randint(0, 5), "u": rng.choice([0, 0, 1, 2, 3, 5])}
        racks = {t: [rng.choice(RACKS) for _ in range(c)] for t, c in counts.items()}
        yield {"balancer": "rack", "members": members,
               "partitions": plist(counts, rng.choice(["ordered", "shuffled"]), rng, racks=racks), "scope": "small2"}


def random_large(tier, rng):
    """Seeded larger groups: <=40 members, <=200 partitions, 1..4 topics, racks from {"", r1, r2, r3}."""
    n = 60 if tier == "quick" else 2400
    topics_pool = ["t", "u", "v", "w"]
    for i in range(n):
        bal = ("range", "roundrobin", "rack")[i % 3]
        nm = rng.randint(2, 40) if rng.random() < 0.8 else rng.randint(1, 6)
        ids = ["m%03d" % x for x in rng.sample(range(200), nm)]
        topics = topics_pool[:rng.randint(1, 4)]
        racks = ["", "r1", "r2", "r3"][:rng.randint(1, 4)] if bal == "rack" else [""]
        if bal == "rack" and rng.random() < 0.5:
            racks = [r for r in racks if r] or ["r1"]
        members = []
        for m in ids:
            k = rng.randint(1, len(topics))
            members.append({"id": m, "topics": rng.sample(topics, k), "rack": rng.choice(racks)})
        budget = 200
        parts = []
        for t in topics:
            c = rng.choice([0, rng.randint(1, 12), rng.randint(1, max(1, budget // len(topics))), rng.randint(1, max(1, budget // len(topics)))])
            c = min(c, budget)
            budget -= c
            pids = list(range(c)) if rng.random() < 0.7 else sorted(rng.sample(range(3 * c + 1), c))
            for p in pids:
                parts.append({"topic": t, "id": p, "rack": rng.choice(racks)})
        if rng.random() < 0.5:
            rng.shuffle(parts)
        if rng.random() < 0.15:            # a topic nobody subscribes to
            parts += [{"topic": "z", "id": p, "rack": ""} for p in range(rng.randint(1, 4))]
        yield {"balancer": bal, "members": members, "partitions": parts, "scope": "large"}


def leader_path(tier, rng):
    """Leader path: real ConsumerGroups with their own subscriptions form a group against a fake cluster; every member in turn
    is the elected leader.  Topics {t,u,v} with 1..4 partitions numbered from 0 (what a broker has), racks on the brokers."""
    subs3 = [["t"], ["u"], ["t", "u"], ["u", "v"], ["t", "u", "v"], ["v"]]
    n = 0
    cases = []
    for k in (1, 2, 3):
        ids = IDS[:k] if k < 3 else ["a", "c", "d"]
        for subs in itertools.product(subs3, repeat=k):
            cases.append((ids, subs))
    if tier == "quick":
        # every heterogeneous pair, a seeded third of the triples
        cases = [c for c in cases if len(c[0]) < 3] + rng.sample([c for c in cases if len(c[0]) == 3], 40)
    for ids, subs in cases:
        for li, leader in enumerate(ids):
            if tier == "quick" and len(ids) == 3 and (n + li) % 3 != 0:
                continue
            n += 1
            bal = ("range", "roundrobin", "rack")[n % 3]
            racks = RACKS if bal == "rack" else [""]
            counts = {"t": rng.randint(1, 4), "u": rng.randint(1, 4), "v": rng.randint(1, 3)}
            used = {t for s in subs for t in s}
            if rng.random() < 0.4:
                # a topic that does not exist on the cluster; in half of these cases even when a member subscribes to it (the
                # broker then answers UnknownTopicOrPartition for that topic and the others must still be assigned)
                gone = rng.choice(["t", "u", "v"])
                if gone not in used or (len(used) > 1 and rng.random() < 0.5):
                    del counts[gone]
            order = list(ids) if n % 2 else list(ids)[::-1]
            sd = dict(zip(ids, subs))
            members = [{"id": m, "topics": sd[m], "rack": rng.choice(racks)} for m in order]
            pr = {t: [rng.choice(racks) for _ in range(c)] for t, c in counts.items()}
            x = {"balancer": bal, "members": members, "partitions": plist(counts, "ordered", rng, racks=pr),
                 "leader": leader, "scope": "leader"}
            # a second generation for a third of the groups: one member joins late, or the leader leaves
            others = [m for m in members if m["id"] != leader]
            if others and n % 3 == 1:
                late = others[-1]
                x["members"] = [m for m in members if m["id"] != late["id"]]
                x["late"] = [late]
            elif others and n % 3 == 2:
                x["leave"] = [leader]
                x["leader2"] = others[0]["id"]
            yield x


def gen_inputs(tier, seed):
    rng = random.Random(seed * 104729 + 14)
    ins = list(small_range_rr(tier, rng)) + list(small_rack(tier, rng)) + list(random_large(tier, rng))
    ins += list(leader_path(tier, random.Random(seed * 7907 + 5)))
    for n, x in enumerate(ins, 1):
        x["n"] = n
    return ins


# ------------------------------------------------------------------------------------------- judging
def key_of(clause, line):
    mem = ",".join("%s:%s:%s" % (m["id"], "+".join(m["topics"]), m["rack"]) for m in line["in"]["members"])
    par = ",".join("%s/%d@%s" % (p["topic"], p["id"], p["rack"]) for p in line["in"]["parts"])
    via = (" path=leader leader=%s%s" % (line.get("leader"), " generation=2" if line.get("phase") == 2 else "")) if line.get("path") == "leader" else ""
    return "%s bal=%s%s members=[%s] parts=[%s]" % (clause, line["bal"], via, mem, par)


def judge_shard(ctx, sid, lines, state):
    """Runs TLC over the lines of one shard; on a violated clause records it and judges the remaining lines again.
    Returns (accepted, generated, distinct, stats, violations[(clause, line, tlc_out)], unjudged)."""
    d = ctx.specdir(ENGINE)
    accepted = gen = dist = 0
    stats = {}
    viols = []
    remaining = lines
    rounds = 0
    while remaining:
        if rounds >= ROUNDS_PER_SHARD or state["stop"]:
            break
        rounds += 1
        f = os.path.join(ctx.work, "gb-shard-%03d-%d.ndjson" % (sid, rounds))
        write_ndjson(f, remaining)
        for attempt in (1, 2, 3):
            r = ctx.tlc(ENGINE, "GroupBalCheck", "GroupBalCheck.cfg", workers=1, timeout=state["timeout"],
                        env={"GBLINES": f, "JAVA_TOOL_OPTIONS": JVM_OPTS}, extra=["-noGenerateSpecTE"],
                        tag="gb-%03d-%d-%d" % (sid, rounds, attempt))
            if r["violated"] or not (r["error"] or r["timeout"]):
                break
            # a JVM that died without a verdict (killed, resource shortage) is run again; the verdict is never guessed
            ctx.log("TLC run of shard %d ended without a verdict (rc=%s), attempt %d" % (sid, r["rc"], attempt))
            state["tlc_retries"] += 1
        state["tlc_runs"] += 1
        state["tlc_wall"] += r["wall"]
        gen += r["generated"]
        dist += r["distinct"]
        if r["violated"]:
            if r["violated"].startswith("Internal_") or r["violated"] not in CLAUSES:
                raise Inconclusive("judge invariant %s failed (generator/driver format problem): %s" % (r["violated"], r["out"][-1500:]))
            m = re.findall(r"/\\ i = (\d+)", r["out"])
            if not m:
                raise Inconclusive("TLC reported %s but the failing line could not be identified: %s" % (r["violated"], r["out"][-1500:]))
            k = int(m[-1])
            if not (1 <= k <= len(remaining)):
                raise Inconclusive("TLC reported line %d of %d" % (k, len(remaining)))
            accepted += k - 1
            viols.append((r["violated"], remaining[k - 1], r["out"][-6000:]))
            with state["lock"]:
                state["nviol"] += 1
                if state["nviol"] >= 2 * MAX_REPORTED:
                    state["stop"] = True
            remaining = remaining[k:]
            continue
        if r["error"] or r["timeout"] or r["postcondition_failed"]:
            raise Inconclusive("TLC judge run failed (shard %d, rc=%s): %s" % (sid, r["rc"], (r["error"] or r["out"])[-1500:]))
        m = re.search(r'"GBSTATS",\s*\[(.*?)\]', r["out"], re.S)
        if not m:
            raise Inconclusive("TLC judge run printed no GBSTATS (shard %d): %s" % (sid, r["out"][-1500:]))
        st = {k: int(v) for k, v in re.findall(r"(\w+) \|-> (\d+)", m.group(1))}
        if st.get("lines") != len(remaining):
            raise Inconclusive("TLC judged %s lines of %d (shard %d)" % (st.get("lines"), len(remaining), sid))
        for k, v in st.items():
            stats[k] = stats.get(k, 0) + v
        accepted += len(remaining)
        remaining = []
    return accepted, gen, dist, stats, viols, len(remaining)


def selftest(ctx):
    """The judge must reject hand-written wrong outputs with exactly the expected clauses (spec/groupbal/selftest.ndjson)."""
    d = ctx.specdir(ENGINE)
    f = os.path.join(d, "selftest.ndjson")
    n = len(read_ndjson(f))
    r = ctx.tlc(ENGINE, "GroupBalCheck", "GroupBalSelfTest.cfg", workers=1, timeout=120, env={"GBLINES": f}, tag="gb-selftest")
    if r["violated"] or r["error"] or r["timeout"] or r["distinct"] != n + 1:
        raise Inconclusive("self-test of the TLA+ judge failed (%s): %s" % (r["violated"] or "error", r["out"][-1500:]))
    return n


def model_check_join(ctx):
    """GroupJoin.tla: the membership protocol around the balancer.  Every environment of two members / two topics / 0..2 partitions
    (three members in the thorough tier), the two defect switches as vacuity guards, settling under fairness."""
    jobs = [("MCGroupJoin.cfg", "hold"), ("MCGroupJoin_guard_own.cfg", "Complete"), ("MCGroupJoin_guard_drop.cfg", "Complete"),
            ("MCGroupJoin_live.cfg", "hold")]
    if ctx.tier == "thorough":
        jobs.append(("MCGroupJoin3.cfg", "hold"))
    ctx.specdir(ENGINE)
    out = {}

    def one(job):
        cfg, want = job
        r = ctx.tlc(ENGINE, "MCGroupJoin", cfg, workers=(8 if cfg == "MCGroupJoin3.cfg" else 2), timeout=1500,
                    env={"JAVA_TOOL_OPTIONS": "-XX:ActiveProcessorCount=8 -Xmx6g" if cfg == "MCGroupJoin3.cfg" else JVM_OPTS},
                    extra=["-noGenerateSpecTE"], tag="gj-" + cfg)
        return cfg, want, r
    with ThreadPoolExecutor(max_workers=5) as ex:
        for cfg, want, r in ex.map(one, jobs):
            if want == "hold":
                if r["violated"] or r["error"] or r["timeout"]:
                    raise Inconclusive("GroupJoin model check %s: %s" % (cfg, (r["violated"] or r["error"] or "timeout") + r["out"][-1200:]))
            elif r["violated"] != want:
                raise Inconclusive("vacuity guard %s: expected invariant %s to be violated, got %s" % (cfg, want, r["violated"] or r["error"] or "no violation"))
            out[cfg] = {"distinct": r["distinct"], "generated": r["generated"], "result": "holds" if want == "hold" else "rejected: " + want}
    return out


def validate_traces(ctx, tpath, byin):
    """Trace validation of the leader-path runs against GroupJoin.tla (GroupJoinTrace.tla), in chunks of runs.  A rejected run is a
    divergence note; an invariant of GroupJoin that is false in a state of a validated behaviour is a violation."""
    evs = read_ndjson(tpath) if os.path.exists(tpath) else []
    runs = []
    for e in evs:
        if e["ev"] == "cfg":
            runs.append([])
        runs[-1].append(e)
    chunks = [runs[i:i + 24] for i in range(0, len(runs), 24)]
    res = {"runs": len(runs), "events": len(evs), "accepted_runs": 0, "states": 0, "diverged": [], "violations": []}

    def one(job):
        k, chunk = job
        acc, states, div, vio = 0, 0, [], []
        todo = list(chunk)
        rounds = 0
        while todo and rounds < 6:
            rounds += 1
            f = os.path.join(ctx.work, "gj-trace-%03d-%d.ndjson" % (k, rounds))
            write_ndjson(f, [e for r in todo for e in r])
            r = ctx.tlc(ENGINE, "GroupJoinTrace", "GroupJoinTrace.cfg", workers=1, timeout=300,
                        env={"GJTRACE": f, "JAVA_TOOL_OPTIONS": JVM_OPTS}, extra=["-noGenerateSpecTE"], tag="gjt-%03d-%d" % (k, rounds))
            states += r["distinct"]
            line = None
            if r["violated"]:
                m = re.findall(r"/\\ l = (\d+)", r["out"])
                line = int(m[-1]) if m else None
            elif r["postcondition_failed"] or "DIVERGED_AT_LINE" in r["out"]:
                m = re.search(r'"DIVERGED_AT_LINE",\s*(\d+)', r["out"])
                line = int(m.group(1)) if m else None
            elif r["error"] or r["timeout"]:
                raise Inconclusive("GroupJoinTrace run failed: " + (r["error"] or "timeout") + r["out"][-1200:])
            else:
                acc += len(todo)
                break
            if line is None:
                raise Inconclusive("GroupJoinTrace: rejected without a line: " + r["out"][-1500:])
            # the run that contains the line
            pos, idx = 0, None
            for i, rr in enumerate(todo):
                if pos < line <= pos + len(rr) or (i == len(todo) - 1):
                    idx = i
                    break
                pos += len(rr)
            bad = todo[idx]
            acc += idx
            ev = bad[min(max(line - pos - 1, 0), len(bad) - 1)]
            if r["violated"]:
                vio.append((r["violated"], bad, ev, r["out"][-4000:]))
            else:
                div.append((bad[0].get("n"), ev))
            todo = todo[idx + 1:]
        return acc, states, div, vio
    with ThreadPoolExecutor(max_workers=8) as ex:
        for acc, states, div, vio in ex.map(one, list(enumerate(chunks))):
            res["accepted_runs"] += acc
            res["states"] += states
            res["diverged"] += div
            res["violations"] += vio
    return res


def compact(l):
    out = {}
    for e in l["out"]:
        out.setdefault(e["m"], {})[e["t"]] = e["ps"]
    return {"balancer": l["bal"],
            "members_as_listed": ["%s subscribes %s%s" % (m["id"], "+".join(m["topics"]), (" rack=" + m["rack"]) if l["bal"] == "rack" else "")
                                  for m in l["in"]["members"]],
            "partitions_as_listed": ["%s/%d%s" % (p["topic"], p["id"], ("@" + p["rack"]) if l["bal"] == "rack" else "") for p in l["in"]["parts"]],
            "output_of_AssignGroups": out, "calls_with_this_output": l["reps"]}


def _guarded(f, ctx):
    try:
        return {"ok": f(ctx)}
    except Inconclusive as e:
        return {"err": e}


def run(ctx):
    tier, seed = ctx.tier, ctx.seed
    t0 = time.time()
    nself = selftest(ctx)
    ctx.log("judge self-test: %d hand-written lines classified as expected" % nself)
    inputs = gen_inputs(tier, seed)
    ip = os.path.join(ctx.work, "gb-inputs.ndjson")
    op = os.path.join(ctx.work, "gb-lines.ndjson")
    write_ndjson(ip, [{k: v for k, v in x.items() if k != "scope"} for x in inputs])
    ctx.log("generated %d inputs in %.1fs" % (len(inputs), time.time() - t0))
    reps = 8
    tp = os.path.join(ctx.work, "gb-leader-trace.ndjson")
    mcj = {}
    mc_thread = threading.Thread(target=lambda: mcj.update(_guarded(model_check_join, ctx)))
    mc_thread.start()
    p = ctx.run_vh(["groupbal", "-in", ip, "-out", op, "-reps", str(reps), "-trace", tp], timeout=900)
    if p.returncode != 0:
        raise Inconclusive("vh groupbal failed: " + (p.stderr or p.stdout)[-2000:])
    try:
        drv = json.loads(p.stdout.strip().splitlines()[-1])
    except Exception:
        raise Inconclusive("vh groupbal printed no summary: " + p.stdout[-500:])
    lines = read_ndjson(op)
    if drv.get("inputs") != len(inputs) or drv.get("lines") != len(lines) or {l["n"] for l in lines} != {x["n"] for x in inputs}:
        raise Inconclusive("driver handled %s inputs / wrote %s lines for %d inputs, %d lines read" % (
            drv.get("inputs"), drv.get("lines"), len(inputs), len(lines)))
    ctx.log("driver: %d inputs, %d AssignGroups calls, %d distinct (input, output) lines" % (len(inputs), drv["calls"], len(lines)))
    bad = [l for l in lines if l.get("path") == "leader" and l.get("err")]
    if bad:
        raise Inconclusive("leader path: %d group(s) did not form as scripted, e.g. input %d: %s" % (len(bad), bad[0]["n"], bad[0]["err"]))

    # shards of roughly equal cost (large lines are far more expensive for TLC than small ones)
    def cost(l):
        return 1 + (len(l["in"]["parts"]) ** 2) / 40.0 + len(l["in"]["members"]) * len(l["in"]["parts"]) / 20.0
    nshards = 16 if tier == "quick" else 48
    order = sorted(range(len(lines)), key=lambda k: -cost(lines[k]))
    shards = [[] for _ in range(nshards)]
    load = [0.0] * nshards
    for k in order:
        j = load.index(min(load))
        shards[j].append(k)
        load[j] += cost(lines[k])
    shards = [[lines[k] for k in sorted(s)] for s in shards if s]
    state = {"lock": threading.Lock(), "nviol": 0, "stop": False, "tlc_runs": 0, "tlc_retries": 0, "tlc_wall": 0.0,
             "timeout": 300 if tier == "quick" else 1500}
    ctx.specdir(ENGINE)            # create the scratch copy before the threads start
    tj = time.time()
    with ThreadPoolExecutor(max_workers=16) as ex:
        futs = [ex.submit(judge_shard, ctx, sid, sh, state) for sid, sh in enumerate(shards)]
        results = []
        err = None
        for f in futs:
            try:
                results.append(f.result())
            except Inconclusive as e:
                err = err or e
        if err:
            raise err
    accepted = sum(r[0] for r in results)
    gen = sum(r[1] for r in results)
    dist = sum(r[2] for r in results)
    stats = {}
    for r in results:
        for k, v in r[3].items():
            stats[k] = stats.get(k, 0) + v
    viols = [v for r in results for v in r[4]]
    unjudged = sum(r[5] for r in results)
    ctx.log("TLC judged %d lines in %d runs (%.1fs wall, %.1fs summed TLC time): %d accepted, %d violated, %d not judged" % (
        len(lines) - unjudged, state["tlc_runs"], time.time() - tj, state["tlc_wall"], accepted, len(viols), unjudged))

    byin = {x["n"]: x for x in inputs}
    per_clause = {}
    for clause, line, out in viols:
        per_clause[clause] = per_clause.get(clause, 0) + 1
    # report the smallest failing input of every (clause, balancer) first, MAX_REPORTED in all
    size = lambda v: (len(v[1]["in"]["members"]) + len(v[1]["in"]["parts"]), v[1]["n"])
    firsts, rest, seen = [], [], set()
    for v in sorted(viols, key=size):
        k = (v[0], v[1]["bal"])
        (rest if k in seen else firsts).append(v)
        seen.add(k)
    for clause, line, out in (firsts + rest)[:MAX_REPORTED]:
        key = key_of(clause, line)
        inp = {k: v for k, v in byin[line["n"]].items() if k != "scope"}
        rep = ctx.save_replay("%s-%s-n%d" % (clause, line["bal"], line["n"]), [
            ("input.ndjson", json.dumps(inp, separators=(",", ":")) + "\n"),
            ("line.ndjson", json.dumps(line, separators=(",", ":")) + "\n"),
            ("tlc.txt", out),
            ("README.txt", "vh groupbal -in input.ndjson -out lines.ndjson; GBLINES=lines.ndjson tlc -config GroupBalCheck.cfg GroupBalCheck.tla\n"
                           "clause %s is false on line.ndjson (output of the real AssignGroups)\n" % clause)])
        what = "%s is false for the output of the real %s balancer: %s -> %s" % (
            clause, line["bal"], key[len(clause) + 1:][:600],
            ("panic: " + line["panic"]) if line["panic"] else json.dumps(line["out"], separators=(",", ":"))[:600])
        ctx.violation(what, rep, key=key)
    if unjudged and not viols:
        raise Inconclusive("%d lines were not judged" % unjudged)

    # the leader-path runs as behaviours of GroupJoin.tla
    tv = validate_traces(ctx, tp, byin)
    for n, ev in tv["diverged"][:10]:
        print("DIVERGENCE property=%s first=%s" % (ctx.prop, json.dumps(ev, separators=(",", ":"))[:300]), flush=True)
        ctx.notes.append("leader-path run of input %s left GroupJoin.tla at event %s" % (n, json.dumps(ev, separators=(",", ":"))[:300]))
    for inv, run_events, ev, out in tv["violations"][:MAX_REPORTED]:
        n = run_events[0].get("n")
        inp = {k: v for k, v in byin[n].items() if k != "scope"} if n in byin else {}
        rep = ctx.save_replay("GroupJoin-%s-n%s" % (inv, n), [
            ("input.ndjson", json.dumps(inp, separators=(",", ":")) + "\n"),
            ("trace.ndjson", "".join(json.dumps(e, separators=(",", ":")) + "\n" for e in run_events)),
            ("tlc.txt", out),
            ("README.txt", "vh groupbal -in input.ndjson -out lines.ndjson -trace trace.ndjson; GJTRACE=trace.ndjson tlc -config GroupJoinTrace.cfg GroupJoinTrace.tla\n"
                           "invariant %s of GroupJoin.tla is false in a state of the recorded run\n" % inv)])
        ctx.violation("invariant %s of GroupJoin.tla is false on a recorded run of real ConsumerGroups (input %s, at event %s)" % (
            inv, n, json.dumps(ev, separators=(",", ":"))[:300]), rep, key="C14_Protocol_%s bal=%s n=%s" % (inv, run_events[0].get("bal"), n))
    mc_thread.join()
    if "err" in mcj:
        raise mcj["err"]

    # coverage, all measured
    per_bal = {}
    per_scope = {}
    for x in inputs:
        per_bal[x["balancer"]] = per_bal.get(x["balancer"], 0) + 1
        per_scope[x["scope"]] = per_scope.get(x["scope"], 0) + 1
    lines_per_bal = {}
    evals = {c: 0 for c in CLAUSES}
    multi = 0
    seen_n = {}
    for l in lines:
        lines_per_bal[l["bal"]] = lines_per_bal.get(l["bal"], 0) + 1
        seen_n[l["n"]] = seen_n.get(l["n"], 0) + 1
    multi = sum(1 for n, v in seen_n.items() if v > 1 and byin[n]["scope"] != "leader")
    # clause evaluations = lines TLC went through, per clause that applies to the line's balancer
    judged_per_bal = {"range": stats.get("rangeLines", 0), "roundrobin": stats.get("rrLines", 0), "rack": stats.get("rackLines", 0)}
    for b, cl in APPLIES.items():
        for c in cl:
            evals[c] += judged_per_bal[b]
    large = [l for l in lines if byin[l["n"]]["scope"] == "large"]
    samples = []
    for b in ("range", "roundrobin", "rack"):
        c = [l for l in lines if l["bal"] == b and len(l["in"]["members"]) == 3 and 4 <= len(l["in"]["parts"]) <= 7
             and len({m["rack"] for m in l["in"]["members"]}) >= (2 if b == "rack" else 1)
             and sum(1 for e in l["out"] if e["ps"]) >= 3]
        if c:
            samples.append(compact(c[(seed * 7919) % len(c)]))
    if large:
        l = large[seed % len(large)]
        samples.append({"balancer": l["bal"], "scope": "large", "members": len(l["in"]["members"]), "partitions": len(l["in"]["parts"]),
                        "topics": sorted({p["topic"] for p in l["in"]["parts"]}), "output_head": l["out"][:2]})
    lead = [l for l in lines if l.get("path") == "leader"]
    lead_partial = [l for l in lead if any(set(m["topics"]) - set(next(x for x in l["in"]["members"] if x["id"] == l["leader"])["topics"])
                                           for m in l["in"]["members"])]
    if lead_partial:
        l = lead_partial[seed % len(lead_partial)]
        c = compact(l)
        c.update({"path": "real ConsumerGroups, leader " + l["leader"], "topics_the_leader_asked_the_broker_for": l["asked"],
                  "output_of_AssignGroups": None, "assignments_received_by_the_members": c["output_of_AssignGroups"]})
        del c["output_of_AssignGroups"]
        samples.append(c)
    if not samples:
        samples.append(compact(lines[0]))
    cov = {
        "engine": ENGINE, "judge_selftest_lines": nself,
        "states": dist, "transitions": gen,
        "traces_validated_against_impl": accepted,
        "samples": samples,
        "inputs": len(inputs), "inputs_per_balancer": per_bal, "inputs_per_scope": per_scope,
        "assigngroups_calls": drv["calls"], "rack_repetitions_per_input": reps,
        "lines_judged": len(lines) - unjudged, "lines_per_balancer": lines_per_bal,
        "leader_path_groups_formed": len(lead), "leader_path_groups_whose_leader_lacks_a_topic_of_another_member": len(lead_partial),
        "leader_path_members": sum(len(l["in"]["members"]) for l in lead),
        "leader_path_second_generations": sum(1 for l in lead if l.get("phase") == 2),
        "leader_path_trace_validation": {"runs": tv["runs"], "events": tv["events"], "runs_accepted_by_GroupJoin": tv["accepted_runs"],
                                         "states": tv["states"], "divergence_count": len(tv["diverged"])},
        "group_join_model_check": mcj.get("ok"),
        "rack_inputs_with_several_distinct_outputs": multi,
        "panics": sum(1 for l in lines if l["panic"]),
        "largest_input": {"members": max(len(l["in"]["members"]) for l in lines), "partitions": max(len(l["in"]["parts"]) for l in lines)},
        "clause_evaluations_on_accepted_runs": evals,
        "violated_lines_found_per_clause": per_clause, "violations_reported": min(len(viols), MAX_REPORTED),
        "exact_rule_counts_not_judged": stats,
        "tlc_runs": state["tlc_runs"], "tlc_runs_repeated_after_jvm_failure": state["tlc_retries"], "tlc_seconds_summed": round(state["tlc_wall"], 1),
        "exhaustive_small_scope": tier == "thorough",
        "rule": ("thorough: every non-empty member set of {a,b,c,d} in every listing order x every subscription map over {t,u} x 0..5 partitions per "
                 "topic x {ordered, shuffled} for range and roundrobin; rack: 1..3 members in every listing order x racks {'',r1,r2}^members x "
                 "racks^partitions for 0..5 partitions (4 members: two listing orders, 0..4 partitions), 8 calls each; plus seeded two-topic rack cases and seeded large groups. "
                 "quick: a seeded subset of the same space (see inputs_per_scope)"),
    }
    if stats.get("rangeLines") and stats.get("rangeKafka", 0) < stats.get("rangeLines", 0):
        ex = [l for l in lines if l["bal"] == "range" and not l["panic"] and len(l["in"]["members"]) == 2
              and all(m["topics"] == ["t"] for m in l["in"]["members"])
              and [(q["topic"], q["id"]) for q in l["in"]["parts"]] == [("t", k) for k in range(5)]]
        shown = ""
        if ex:
            shown = "; for the doc comment's example (5 partitions, 2 consumers: 'C0 [0,1,2], C1 [3,4]') the code returned %s" % json.dumps(
                compact(ex[0])["output_of_AssignGroups"], separators=(",", ":"))
        ctx.notes.append("not a violation of C14 (which promises contiguous runs with loads differing by at most one): RangeGroupBalancer's output "
                         "equals the floor rule [i*n/k, (i+1)*n/k) on %d of %d judged lines and the rule of its doc comment (Kafka's range assignor, "
                         "the first n%%k members get the extra partition) on %d%s" % (
                             stats.get("rangeFloor", 0), stats["rangeLines"], stats.get("rangeKafka", 0), shown))
    if stats.get("rrRank", 0) < stats.get("rrLines", 0) or stats.get("rangeFloor", 0) < stats.get("rangeLines", 0):
        ctx.notes.append("not a verdict: %d of %d roundrobin lines start member i (by ascending id) at listed position i, %d of %d range lines "
                         "follow the floor rule; C14 does not fix which member gets which run / start" % (
                             stats.get("rrRank", 0), stats.get("rrLines", 0), stats.get("rangeFloor", 0), stats.get("rangeLines", 0)))
    return cov


def replay(ctx, path):
    """bin/check C14 quick --replay <dir>: runs the real AssignGroups again on <dir>/input.ndjson and lets TLC judge the lines."""
    ip = os.path.join(path, "input.ndjson")
    if not os.path.exists(ip):
        raise Inconclusive("no input.ndjson in " + path)
    op = os.path.join(ctx.work, "gb-replay-lines.ndjson")
    p = ctx.run_vh(["groupbal", "-in", ip, "-out", op, "-reps", "64"], timeout=300)
    if p.returncode != 0:
        raise Inconclusive("vh groupbal failed: " + (p.stderr or p.stdout)[-2000:])
    lines = read_ndjson(op)
    state = {"lock": threading.Lock(), "nviol": 0, "stop": False, "tlc_runs": 0, "tlc_retries": 0, "tlc_wall": 0.0, "timeout": 300}
    accepted, gen, dist, stats, viols, unjudged = judge_shard(ctx, 0, lines, state)
    for clause, line, out in viols:
        print("VIOLATION property=%s replay=%s" % (ctx.prop, path), flush=True)
        print("  detail: %s is false: %s -> %s" % (clause, key_of(clause, line)[len(clause) + 1:][:600],
                                                  ("panic: " + line["panic"]) if line["panic"] else json.dumps(line["out"], separators=(",", ":"))[:600]), flush=True)
    if not viols:
        print("replay: %d line(s) of the real AssignGroups accepted by every clause of C14" % accepted, flush=True)
    return 1 if viols else 0
