"""Engine E7 `wire`: the Kafka wire format (C04) and hostile length fields (C20).

C04: TLC (WireGen.tla) enumerates boundary values per (message, version) from spec/wire/schemas/*.json and computes the
canonical Kafka frame with Wire.tla; driver A (harness/wiredrv, built twice: default and -tags unsafe) runs
protocol.WriteRequest/WriteResponse and ReadRequest/ReadResponse; TLC (WireCheck.tla) compares and names failing vectors.
C04, driver B (the hand-written Conn codec): harness/connwire makes real kafka.Conn values (directly, through kafka.ConsumerGroup and
through Dialer.SASLMechanism) talk to the fake brokers and captures the raw client->broker byte stream of every connection together with
the version ranges the broker advertised; TLC (WireConnCheck.tla) splits every stream by size prefix and judges framing, request header
(api key, version not above the advertised one, increasing correlation ids, client id) and body (SafeDecode with the schema of
(api key, version) consumes exactly the frame; Encode of the decoded value gives back the bytes) of every frame.
C20: TLC (WireFuzz.tla) enumerates (length field, value class) mutations of well-formed response frames; the driver
runs protocol.ReadResponse on each in child processes; TLC judges every outcome line.

Violation keys (what known_findings.json `match` regexes see):
  C04: "C04 api=<Api> kind=<request|response> clause=<failed clauses joined by +> field=<first differing field> cause=<diagnosis>
        v=<versions, comma separated> builds=<default|unsafe|default+unsafe>"      (one per message and failure shape; field, cause and the
        version list are diagnostics derived from the first failing vector, so they may vary with the seed: match loosely)
  C04: "C04 conn api=<Api> v=<n> clause=<failed clauses joined by +>"   (driver B, one per api, version and failure shape; a frame whose
        announced size is not the number of bytes that follow is reported as clause=frame-size for the frame that announced it)
  C20: "C20 kind=<fieldKind> class=<valueClass> outcome=<panic|fatal|hang|alloc> api=<Api> v=<n> field=<path>[ records=<v0|v1|v2>][ build=unsafe]"
        (one per violating case)"""
import concurrent.futures, glob, json, os, random, re, subprocess, shutil
from vlib import Inconclusive, read_ndjson, write_ndjson, GOENV, SPEC

ENGINE = "wire"
PROPS = {"C04": "model_checking", "C20": "fault_enumeration"}
ASSUMPTIONS = {
    "C04": ["the message definitions in spec/wire/schemas (provenance kafka) are transcribed from the Apache Kafka protocol by hand, without network access",
            "Go view of values: a Go string holds null and \"\" as one value (null at nullable fields), a nil slice is null; record sets are empty or null here (record encoding is C05)",
            "tagged fields: kafka-go declares none, so canonical frames carry none in the round-trip direction; decode-only vectors carry Kafka's tagged fields and unknown ones",
            "driver B (requests written by the hand-written Conn codec) covers what is reachable from outside the package: Conn's exported methods, kafka.ConsumerGroup "
            "(group APIs) and Dialer.SASLMechanism PLAIN (SASL APIs), against fake brokers advertising version ranges with lowest version 0; Conn.listGroups "
            "(ListGroups v1) has no exported caller and the Conn codec has no DescribeGroups writer, so these two are not exercised; brokers advertising less than "
            "the Conn implements (or not advertising the API) are exercised for the APIs whose version the Conn negotiates (Produce, Fetch, Metadata via ReadPartitions, "
            "JoinGroup), not for the versions it hard-codes (ListOffsets v1, Metadata v1 of Brokers/Controller, OffsetCommit v2, OffsetFetch v1, the v0-only group APIs) "
            "nor for unadvertised APIs whose lowest implemented version is 0 (CreateTopics, DeleteTopics, SaslHandshake): VERIF_C04_PROBE=1 adds those as a diagnostic; record sets inside Produce "
            "requests are opaque blobs with a checked length prefix (their content is C05); the bare token after a SaslHandshake v0 is judged for framing only"],
    "C20": ["allocation is measured as the growth of runtime.MemStats.TotalAlloc around protocol.ReadResponse in a child process under GOMEMLIMIT and an address-space limit",
            "the bound is 64 x (bytes received) + 512 KiB (well-formed frames of these sizes stay below 160 KiB: 64 KiB buffer pages)"],
}
PRIMS = {"bool", "int8", "int16", "int32", "int64", "float64", "uuid", "string", "bytes", "records", "uint16", "uint32"}
BIG = 32767
CORE = ["ApiVersions", "Metadata", "Produce", "Fetch", "ListOffsets", "FindCoordinator", "JoinGroup", "SyncGroup", "Heartbeat", "LeaveGroup",
        "OffsetCommit", "OffsetFetch", "SaslHandshake", "SaslAuthenticate", "CreateTopics", "DeleteTopics", "InitProducerId", "AddPartitionsToTxn",
        "AddOffsetsToTxn", "EndTxn", "TxnOffsetCommit", "ListGroups", "DescribeGroups"]
MAXVIOL = 50
JOPTS = "-Xmx2g -Xss512m -XX:ParallelGCThreads=2 -XX:TieredStopAtLevel=4"


# ---------------------------------------------------------------------------------------------- schemas
def vrange(s):
    if s is None or s == "none":
        return (1, 0)
    s = str(s)
    if s.endswith("+"):
        return (int(s[:-1]), BIG)
    if "-" in s:
        a, b = s.split("-")
        return (int(a), int(b))
    return (int(s), int(s))


def nfield(f):
    t = f["type"]
    arr = t.startswith("[]")
    if arr:
        t = t[2:]
    vlo, vhi = vrange(f["versions"])
    nlo, nhi = vrange(f.get("nullableVersions"))
    tlo, thi = vrange(f.get("taggedVersions"))
    return {"name": f["name"], "t": t if t in PRIMS else "struct", "arr": arr, "vlo": vlo, "vhi": vhi, "nlo": nlo, "nhi": nhi,
            "tlo": tlo, "thi": thi, "tag": f.get("tag", -1), "fields": [nfield(x) for x in f.get("fields", [])]}


def normalise(schemadir):
    """Kafka-shaped message definitions -> records with numeric version ranges (what Wire.tla and the driver read)."""
    out = []
    for p in sorted(glob.glob(os.path.join(schemadir, "*.json"))):
        d = json.load(open(p))
        lo, hi = vrange(d["validVersions"])
        flo, fhi = vrange(d["flexibleVersions"])
        kind, name = d["type"], d["name"]
        api = name[:-len("Request")] if kind == "request" else name[:-len("Response")]
        out.append({"name": name, "api": api, "apiKey": d["apiKey"], "kind": kind, "lo": lo, "hi": hi, "flo": flo, "fhi": fhi,
                    "prov": d.get("provenance", "kafka"), "fields": [nfield(x) for x in d["fields"]]})
    return out


# ---------------------------------------------------------------------------------------------- building
def build_unsafe(ctx):
    """Second driver binary: the same harness with kafka-go's `unsafe` build tag (protocol/reflect_unsafe.go)."""
    ctx.vh()
    hdir = os.path.join(ctx.work, "harness")
    out = os.path.join(ctx.work, "vh-unsafe")
    if not os.path.exists(out):
        p = subprocess.run(["go", "build", "-tags", "verif unsafe", "-o", out, "./cmd/vh"], cwd=hdir, env=GOENV, capture_output=True, text=True)
        if p.returncode != 0:
            raise Inconclusive("harness build with -tags unsafe failed:\n" + p.stdout + p.stderr)
    return out


def library_ranges(ctx):
    p = ctx.run_vh(["wire", "-mode", "info"], timeout=60)
    if p.returncode != 0:
        raise Inconclusive("vh wire -mode info failed: " + p.stderr[-1000:])
    return {d["api"]: (d["min"], d["max"]) for d in (json.loads(l) for l in p.stdout.splitlines() if l.strip())}


def targets_of(msgs, lib, apis=None):
    """(message index, version) pairs to check = schema's vouched range ∩ the library's range; plus what is not covered."""
    tg, uncovered = [], []
    have = set()
    for i, m in enumerate(msgs):
        have.add(m["api"])
        if m["api"] not in lib or (apis is not None and m["api"] not in apis):
            continue
        lmin, lmax = lib[m["api"]]
        for v in range(lmin, lmax + 1):
            if m["lo"] <= v <= m["hi"]:
                tg.append((i, v))
            else:
                uncovered.append("%s v%d" % (m["name"], v))
    for api in sorted(lib):
        if api not in have:
            uncovered.append("%s v%d-v%d (no schema)" % (api, lib[api][0], lib[api][1]))
    return tg, uncovered


# ---------------------------------------------------------------------------------------------- C04
def hexs(a):
    return bytes(a).hex()


def run_shard(ctx, d, k, schemas_path, shard_targets, salt, vh, vhu):
    """WireGen -> both drivers -> WireCheck for one shard of the targets; returns dict."""
    tp = os.path.join(d, "targets-%d.ndjson" % k)
    vp = os.path.join(d, "vectors-%d.ndjson" % k)
    r1 = os.path.join(d, "results-default-%d.ndjson" % k)
    r2 = os.path.join(d, "results-unsafe-%d.ndjson" % k)
    write_ndjson(tp, shard_targets)
    g = ctx.tlc(ENGINE, "WireGen", "WireGen.cfg", workers=1, timeout=1500, tag="gen%d" % k,
                env={"SCHEMAS": schemas_path, "TARGETS": tp, "SALT": str(salt), "OUT": vp, "JAVA_TOOL_OPTIONS": JOPTS})
    if g["error"] or g["timeout"] or g["violated"] or not os.path.exists(vp):
        raise Inconclusive("WireGen failed (shard %d): %s" % (k, (g["error"] or g["out"])[-1500:]))
    mg = re.search(r'<<"WIREGEN", (\d+), (\d+)>>', g["out"])
    if not mg or mg.group(1) != mg.group(2):
        # a model-only defect: Wire.tla's Encode and WireDecode.tla's SafeDecode disagree on a generated value
        raise Inconclusive("specification inconsistent: SafeDecode(Encode(x)) # x for some generated value (shard %d): %s" % (k, mg.group(0) if mg else g["out"][-800:]))
    for binary, outp, label in ((vh, r1, "default"), (vhu, r2, "unsafe")):
        p = subprocess.run([binary, "wire", "-mode", "vectors", "-schemas", schemas_path, "-in", vp, "-out", outp, "-build", label, "-par", "4"],
                           capture_output=True, text=True, timeout=1500)
        if p.returncode != 0:
            raise Inconclusive("driver (%s) failed on shard %d: %s" % (label, k, p.stderr[-1500:]))
    c = ctx.tlc(ENGINE, "WireCheck", "WireCheck.cfg", workers=1, timeout=1500, tag="chk%d" % k,
                env={"SCHEMAS": schemas_path, "VECTORS": vp, "RESULTS1": r1, "RESULTS2": r2, "JAVA_TOOL_OPTIONS": JOPTS})
    m = re.search(r'<<"WIRECHECK", (\d+), (\d+)>>', c["out"])
    if c["timeout"] or not m or (c["error"] and not c["postcondition_failed"]):
        raise Inconclusive("WireCheck failed (shard %d): %s" % (k, (c["error"] or c["out"])[-1500:]))
    n, nbad = int(m.group(1)), int(m.group(2))
    flat = re.sub(r"\s+", " ", c["out"])
    mism = []
    for mm in re.finditer(r'<< ?"MISMATCH", "([^"]+)", "default", \{([^}]*)\}, "unsafe", \{([^}]*)\} ?>>', flat):
        mism.append({"id": mm.group(1), "default": sorted(re.findall(r'"([^"]+)"', mm.group(2))), "unsafe": sorted(re.findall(r'"([^"]+)"', mm.group(3)))})
    if len(mism) != nbad or c["postcondition_failed"] != (nbad > 0):
        raise Inconclusive("WireCheck output inconsistent on shard %d (%d MISMATCH lines, count %d)" % (k, len(mism), nbad))
    return {"k": k, "n": n, "bad": mism, "gen": g, "chk": c, "vectors": vp, "r1": r1, "r2": r2, "spec_rt": int(mg.group(2))}


def layouts_of(ctx, d, schemas_path, msgs, items):
    """Layout maps (offset, length, kind, path of every token) of the frames of the given vectors, computed by TLC: WireGen is
    re-run with LAYOUT=1 for exactly those (message, version, row, mode); used only to NAME the field at a differing byte."""
    out = {}
    by_salt = {}
    for vec, salt in items:
        by_salt.setdefault(salt, []).append(vec)
    for salt, vecs in by_salt.items():
        tp = os.path.join(d, "explain-targets-%d.ndjson" % salt)
        vp = os.path.join(d, "explain-vectors-%d.ndjson" % salt)
        idx = {m["name"]: i for i, m in enumerate(msgs)}
        write_ndjson(tp, [{"m": idx[v["msg"]] + 1, "v": v["v"], "rt": [v["row"]] if v["mode"] == "rt" else [],
                           "dec": [v["row"]] if v["mode"] == "dec" else [], "nil": [v["row"]] if v["mode"] == "nil" else []} for v in vecs])
        g = ctx.tlc(ENGINE, "WireGen", "WireGen.cfg", workers=1, timeout=600, tag="explain%d" % salt,
                    env={"SCHEMAS": schemas_path, "TARGETS": tp, "SALT": str(salt), "OUT": vp, "LAYOUT": "1"})
        if g["error"] or not os.path.exists(vp):
            continue
        for x in read_ndjson(vp):
            out[x["id"]] = x
    return out


def first_diff_field(vec, lay, enc):
    """The field whose token contains the first byte at which the library's frame differs from the specification's."""
    def common(a, b):
        # the frame size (first 4 bytes) differs whenever the lengths do: look for the first difference behind it
        return next((i for i in range(4, min(len(a), len(b))) if a[i] != b[i]), min(len(a), len(b)))
    off = common(vec["frame"], enc)
    layout = lay.get("layout", []) if lay else []
    if vec.get("frameAlt") and common(vec["frameAlt"], enc) > off:
        # the alternative frame differs from `frame` only inside the client id; offsets after it shift by 2 at most
        off2 = common(vec["frameAlt"], enc)
        delta = len(vec["frame"]) - len(vec["frameAlt"])
        off = off2 + delta
    for t in layout:
        if t["len"] > 0 and t["off"] <= off < t["off"] + t["len"]:
            cause = "bytes-differ"
            if t["x"] == -1 and t["k"] not in ("fix", "data"):
                # the specification wrote null here; did the library write the empty value instead?
                got = enc[t["off"]:t["off"] + t["len"]]
                empty = {"string-len": [0, 0], "bytes-len": [0, 0, 0, 0], "array-count": [0, 0, 0, 0], "record-set-size": [0, 0, 0, 0]}.get(t["k"], [1])
                cause = "null-written-as-empty" if got == empty else "null-differs"
            elif t["k"] not in ("fix", "data") and t["x"] == 0 and (set(enc[t["off"]:t["off"] + t["len"]]) <= {255} or enc[t["off"]:t["off"] + t["len"]] == [0]):
                cause = "empty-written-as-null"
            return (re.sub(r"\[\d+\]", "", t["p"]) or t["k"]), cause
    return "trailing-bytes" if len(enc) > len(vec["frame"]) else "?", "length-differs"


def diff_value(fields, v, val, got, path=""):
    """Diagnostic only (the verdict is WireCheck's): path of the first field whose decoded Go view differs from the value."""
    if not isinstance(val, dict):
        val = {}
    if not isinstance(got, dict):
        return path or "?"
    for f in fields:
        p = (path + "." if path else "") + f["name"]
        if not (f["vlo"] <= v <= f["vhi"]):
            continue
        if f["name"] in got.get("$unmapped", []) or (f["tlo"] <= v <= f["thi"]):
            continue
        x, y = val.get(f["name"]), got.get(f["name"])
        if f["t"] == "records":
            continue
        if x is None:
            if y not in (None, []):
                return p
            continue
        if f["arr"]:
            if y is None:
                if x != []:
                    return p
                continue
            if len(x) != len(y):
                return p
            for a, b in zip(x, y):
                if f["t"] == "struct":
                    r = diff_value(f["fields"], v, a, b, p)
                    if r:
                        return r
                elif a != b:
                    return p
        elif f["t"] == "struct":
            r = diff_value(f["fields"], v, x, y, p)
            if r:
                return r
        elif x != y and not (y is None and x == []):
            return p
    return None


# ---------------------------------------------------------------------------------------------- C04 driver B (Conn codec)
# (api key, version) pairs the scenarios are built to produce: every request type the Conn codec can write that is reachable from
# outside the package, at every version it negotiates.  -2 stands for the bare SASL token that follows a SaslHandshake v0.
CONN_EXPECT = [(0, 2), (0, 3), (0, 7), (1, 2), (1, 5), (1, 10), (2, 1), (3, 1), (3, 6), (8, 2), (9, 1), (10, 0), (11, 1), (11, 2), (12, 0),
               (13, 0), (14, 0), (17, 0), (17, 1), (18, 0), (19, 0), (19, 1), (19, 2), (20, 0), (20, 1), (36, 0), (-2, 0)]
CONN_UNREACHABLE = ["ListGroups v1 (Conn.listGroups has no exported caller: not reachable from outside the package)",
                    "DescribeGroups (the Conn codec has no writer for it; Client.DescribeGroups uses the protocol package)"]
# clauses that mean "these bytes are not a frame": the size announced by the PRECEDING frame is not the number of bytes that followed it
CONN_DESYNC = {"header-truncated", "api-key-unknown", "version-unknown", "stray-bytes", "frame-exceeds-stream"}


def conn_drive(ctx, d, tier, tag, only=None):
    cp, lp = os.path.join(d, "conns-%s.ndjson" % tag), os.path.join(d, "connlog-%s.ndjson" % tag)
    args = ["connwire", "-tier", tier, "-out", cp, "-log", lp, "-par", "8"] + (["-only", only] if only else [])
    # the probe scenarios (the versions the Conn hard-codes instead of negotiating, against a broker that advertises less) are part
    # of the check; what they show on the unchanged tree is known finding K6 (keys end in " site=hardcoded")
    args.append("-probe")
    p = ctx.run_vh(args, timeout=900)
    if p.returncode != 0:
        raise Inconclusive("vh connwire failed: " + (p.stderr or p.stdout)[-1500:])
    return read_ndjson(cp), read_ndjson(lp)


def conn_judge_shard(ctx, d, req_path, k, part, tag):
    cp = os.path.join(d, "connshard-%s-%d.ndjson" % (tag, k))
    write_ndjson(cp, part)
    jtmp = os.path.join(ctx.work, "jtmp")
    c = ctx.tlc(ENGINE, "WireConnCheck", "WireConnCheck.cfg", workers=1, timeout=1500, tag="conn%s%d" % (tag, k),
                env={"SCHEMAS": req_path, "CONNS": cp, "JAVA_TOOL_OPTIONS": JOPTS + " -Djava.io.tmpdir=" + jtmp})
    m = re.search(r'<<"WIRECONNCHECK", (\d+), (\d+), (\d+), (\d+)>>', c["out"])
    if c["timeout"] or not m or (c["error"] and not c["postcondition_failed"]):
        raise Inconclusive("WireConnCheck failed (shard %d): %s" % (k, (c["error"] or c["out"])[-1500:]))
    n, nframes, nbad = int(m.group(1)), int(m.group(2)), int(m.group(3))
    flat = re.sub(r"\s+", " ", c["out"])
    frames = {}
    for mm in re.finditer(r'<< ?"CONNFRAMES", "([^"]*)", (\d+)((?:, <<-?\d+, -?\d+>>)*) ?>>', flat):
        frames[(mm.group(1), int(mm.group(2)))] = [(int(a), int(b)) for a, b in re.findall(r"<<(-?\d+), (-?\d+)>>", mm.group(3))]
    bad = []
    for mm in re.finditer(r'<< ?"MISMATCH", "([^"]*)", (\d+), (\d+), (\d+), (-?\d+), (-?\d+), \{([^}]*)\} ?>>', flat):
        bad.append({"scenario": mm.group(1), "conn": int(mm.group(2)), "idx": int(mm.group(3)), "off": int(mm.group(4)), "k": int(mm.group(5)),
                    "v": int(mm.group(6)), "clauses": sorted(re.findall(r'"([^"]+)"', mm.group(7)))})
    if n != len(part) or len(frames) != n or len(bad) != nbad or sum(len(f) for f in frames.values()) != nframes or c["postcondition_failed"] != (nbad > 0):
        raise Inconclusive("WireConnCheck output inconsistent on shard %d (%d connections, %d CONNFRAMES lines, %d MISMATCH lines, counts %s)"
                           % (k, len(part), len(frames), len(bad), m.group(0)))
    return {"frames": frames, "bad": bad, "chk": c}


def conn_judge(ctx, d, req_path, conns, nshards, tag):
    # shards balanced by stream length
    order = sorted(range(len(conns)), key=lambda i: -len(conns[i]["stream"]))
    parts, load = [[] for _ in range(nshards)], [0] * nshards
    for i in order:
        j = load.index(min(load))
        parts[j].append(conns[i])
        load[j] += len(conns[i]["stream"]) + 200
    parts = [p for p in parts if p]
    with concurrent.futures.ThreadPoolExecutor(max_workers=len(parts) or 1) as ex:
        futs = [ex.submit(conn_judge_shard, ctx, d, req_path, k, part, tag) for k, part in enumerate(parts)]
        return [f.result() for f in futs]


def conn_frames_of(stream):
    """Diagnostic only: the stream split by size prefix (offset, announced size)."""
    out, pos = [], 0
    while pos + 4 <= len(stream):
        n = int.from_bytes(bytes(stream[pos:pos + 4]), "big", signed=True)
        out.append((pos, n))
        if n < 0 or pos + 4 + n > len(stream):
            break
        pos += 4 + n
    return out


def ref_consumer(typ, v):
    """Canonical Kafka encoding of the consumer-protocol values of wiredrv/marshal.go (hand-written here, independent of the library)."""
    import struct
    i16 = lambda x: struct.pack(">h", x)
    i32 = lambda x: struct.pack(">i", x)
    st = lambda x: i16(len(x)) + x.encode()
    by = lambda b: i32(-1) if b is None else i32(len(b)) + bytes(b)
    tps = lambda l: i32(len(l)) + b"".join(st(t) + i32(len(ps)) + b"".join(i32(p) for p in ps) for (t, ps) in l)
    vals = [("Subscription", 0, i16(0) + i32(1) + st("t") + by(None)),
            ("Subscription", 1, i16(1) + i32(3) + st("a") + st("bb") + st("") + by([1, 2, 3]) + tps([("a", [0, 2, 2147483647]), ("bb", [])])),
            ("Assignment", 0, i16(0) + tps([("t", [0, 1])]) + by(None)),
            ("Assignment", 1, i16(1) + tps([("x", [5]), ("y", [1, 2, 3])]) + by(b"user"))]
    for (t, ver, b) in vals:
        if (t, ver) == (typ, v):
            return b.hex()
    return None


def run_marshal(ctx, d, binaries):
    """protocol.Marshal / Unmarshal after failed uses of the pooled decoder (both builds): the encoding is the canonical one and
    decoding it gives the value back whatever the decoder was used for before."""
    n = bad = 0
    for label, binary in binaries:
        if not binary:
            continue
        outp = os.path.join(d, "marshal-%s.ndjson" % label)
        p = subprocess.run([binary, "wire", "-mode", "marshal", "-out", outp], capture_output=True, text=True, timeout=300)
        if p.returncode != 0:
            raise Inconclusive("vh wire -mode marshal failed (%s): %s" % (label, (p.stderr or p.stdout)[-800:]))
        for r in read_ndjson(outp):
            n += 1
            why = None
            if not r["ok"]:
                why = r["detail"]
            elif r["hex"] != ref_consumer(r["type"], r["v"]):
                why = "Marshal wrote %s, the canonical encoding is %s" % (r["hex"], ref_consumer(r["type"], r["v"]))
            if why:
                bad += 1
                if bad <= 6:
                    key = "C04 marshal type=%s v=%d after=%s build=%s" % (r["type"], r["v"], r["pre"], label)
                    rep = ctx.save_replay("marshal-%s-v%d-%s-%s" % (r["type"], r["v"], r["pre"], label), [("result.json", json.dumps(r, indent=1))])
                    ctx.violation("%s | consumer protocol %s v%d, after an earlier use of the pooled decoder that %s: %s" % (
                        key, r["type"], r["v"], {"none": "did not happen"}.get(r["pre"], "failed (" + r["pre"] + " input)"), why), rep, key=key)
    return {"cases": n, "failed": bad}


def run_conn_codec(ctx, d, msgs, tier):
    """Driver B: returns (coverage dict, number of frames TLC accepted, TLC states, TLC transitions); reports violations."""
    apiname = {m["apiKey"]: m["api"] for m in msgs if m["kind"] == "request"}
    apiname[-2] = "RawSaslToken"
    req_path = os.path.join(d, "reqschemas.ndjson")
    write_ndjson(req_path, [m for m in msgs if m["kind"] == "request"])
    attempts, conns, logs, results = 0, [], [], []
    while True:
        attempts += 1
        conns, logs = conn_drive(ctx, d, tier, "a%d" % attempts)
        results = conn_judge(ctx, d, req_path, conns, 3 if tier == "quick" else 8, "a%d" % attempts)
        seen = {kv for r in results for f in r["frames"].values() for kv in f}
        missing = [kv for kv in CONN_EXPECT if kv not in seen]
        nbad = sum(len(r["bad"]) for r in results)
        if not missing or nbad or attempts >= 2:
            break
        ctx.log("C04 conn codec: not exercised in this run: %s; running the scenarios once more" % missing)
    frames = {}
    for r in results:
        frames.update(r["frames"])
    bad = [b for r in results for b in r["bad"]]
    nframes = sum(len(f) for f in frames.values())
    ctx.log("C04 conn codec: %d scenarios, %d connections, %d frames judged by TLC, %d with a failed clause" % (len(logs), len(conns), nframes, len(bad)))
    byconn = {(c["scenario"], c["conn"]): c for c in conns}
    groups = {}
    for b in bad:
        c = byconn[(b["scenario"], b["conn"])]
        fl = frames[(b["scenario"], b["conn"])]
        k, v, clauses, culprit = b["k"], b["v"], b["clauses"], b["idx"]
        if set(clauses) & CONN_DESYNC:
            # the bytes at this place are not a frame: the frame before announced a size that is not the number of bytes that followed it
            clauses = ["frame-size"]
            if b["idx"] > 0:
                culprit = b["idx"] - 1
                k, v = fl[culprit]
        api = apiname.get(k, "key%d" % k)
        if b["scenario"].startswith("probe-hardcoded"):
            api += " site=hardcoded"       # call sites that do not negotiate at all (Conn.ReadOffset, Brokers, Controller, group requests, ...)
        g = groups.setdefault((api, v, tuple(clauses)), {"n": 0, "first": None})
        g["n"] += 1
        if g["first"] is None:
            g["first"] = (b, c, culprit)
    nviol = 0
    viol_keys = []
    for (api, v, clauses) in sorted(groups):
        g = groups[(api, v, clauses)]
        b, c, culprit = g["first"]
        site = ""
        if api.endswith(" site=hardcoded"):
            api, site = api[:-len(" site=hardcoded")], " site=hardcoded"
        key = "C04 conn api=%s v=%d clause=%s%s" % (api, v, "+".join(clauses), site)
        viol_keys.append({"key": key, "frames": g["n"], "first": "%s conn %d frame %d" % (b["scenario"], b["conn"], culprit)})
        if len(viol_keys) > MAXVIOL:
            continue
        split = conn_frames_of(c["stream"])
        fr = [{"index": i, "offset": o, "announcedSize": n, "hex": hexs(c["stream"][o:o + 4 + max(n, 0)][:20000])} for i, (o, n) in enumerate(split)
              if culprit - 1 <= i <= culprit + 1]
        rep = ctx.save_replay("conn-%s-v%d-%s" % (api, v, "+".join(clauses)), [
            ("conn.json", json.dumps(c)), ("frames.json", json.dumps(fr, indent=1)),
            ("README.txt", "Scenario %s, connection %d (client->broker byte stream captured from a real kafka.Conn, harness/connwire).\n"
             "WireConnCheck: frame %d at offset %d: clause(s) %s false.\nReported for frame %d (%s v%d): %s; %d frames of this kind.\n"
             "Re-run: bin/check C04 --replay <this directory> (runs the scenario again on the current tree and judges it with TLC).\n"
             % (b["scenario"], b["conn"], b["idx"], b["off"], ", ".join(b["clauses"]), culprit, api, v, "+".join(clauses), g["n"]))])
        if clauses == ("frame-size",):
            why = "the size it announces is not the number of bytes written: what follows it (frame %d, offset %d) fails %s" % (b["idx"], b["off"], "+".join(b["clauses"]))
        else:
            why = "clause(s) %s false" % ", ".join(clauses)
        what = "%s | Conn codec, %s v%d request, scenario %s connection %d frame %d: %s (%d frames)" % (key, api, v, b["scenario"], b["conn"], culprit, why, g["n"])
        if ctx.violation(what, rep, key=key):
            nviol += 1
    if not bad and missing:
        raise Inconclusive("driver B did not make the Conn emit %s (scenario errors: %s)"
                           % (["%s v%d" % (apiname.get(k, k), v) for k, v in missing], [e for l in logs for e in l["errs"]][:8]))
    per = {}
    for f in frames.values():
        for (k, v) in f:
            if k >= 0 or k == -2:
                name = "%s v%d" % (apiname.get(k, "key%d" % k), v) if k >= 0 else "RawSaslToken (after SaslHandshake v0)"
                per[name] = per.get(name, 0) + 1
    werr = [("%s/%d" % (c["scenario"], c["conn"])) for c in conns if c["werr"]]
    if werr:
        ctx.notes.append("conn codec: the transport reported a failed Write on %s (an incomplete last frame is tolerated there)" % werr[:10])
    # samples: first frames of three different connections
    samples = []
    for c in (conns[0], conns[len(conns) // 2], conns[-1]):
        sp = conn_frames_of(c["stream"])
        fl = frames[(c["scenario"], c["conn"])]
        i = min(1, len(sp) - 1)
        if i >= 0:
            o, n = sp[i]
            samples.append({"scenario": c["scenario"], "conn": c["conn"], "frame": i, "api": apiname.get(fl[i][0], fl[i][0]), "v": fl[i][1],
                            "hex": hexs(c["stream"][o:o + 4 + n][:200]), "frames_on_connection": len(fl)})
    cov = {"scenarios": len(logs), "connections": len(conns), "frames": nframes, "frames_with_failed_clause": len(bad),
           "bytes": sum(len(c["stream"]) for c in conns), "frames_by_api_version": dict(sorted(per.items())),
           "library_calls": sum(l["calls"] for l in logs), "library_calls_returning_an_error": sum(l["nerr"] for l in logs),
           "advertised_maxima_per_scenario": "Produce 2..7, Fetch 2..10, Metadata 1..6, CreateTopics 0..2, DeleteTopics 0..1, JoinGroup 1..2, SaslHandshake 0..1 (lowest always 0)",
           # brokers that advertise, for an API whose version the Conn negotiates, less than the lowest version the Conn implements
           # (Produce 0/1, Fetch 0/1, Metadata 0, JoinGroup 0) or not at all: the calls must fail without writing a frame of that API
           "old_broker_scenarios": len([l for l in logs if l["scenario"].startswith("low-")]),
           "old_broker_calls_refused_by_the_client": sum(1 for l in logs if l["scenario"].startswith("low-") for e in l["errs"] if "no matching versions" in e),
           "not_exercised": CONN_UNREACHABLE + ["%s v%d" % (apiname.get(k, k), v) for k, v in missing], "driver_runs": attempts,
           "violation_groups": viol_keys, "samples": samples}
    return cov, nframes - len(bad), sum(r["chk"]["distinct"] for r in results), sum(r["chk"]["generated"] for r in results)


def run_c04(ctx):
    tier, seed = ctx.tier, ctx.seed
    d = ctx.specdir(ENGINE)
    msgs = normalise(os.path.join(d, "schemas"))
    schemas_path = os.path.join(d, "schemas.ndjson")
    write_ndjson(schemas_path, msgs)
    vh = ctx.vh()
    vhu = build_unsafe(ctx)
    lib = library_ranges(ctx)
    tg, uncovered = targets_of(msgs, lib)
    rng = random.Random(seed * 7919 + 13)
    if tier == "quick":
        nrt, ndec, nnil, salts = 20, 6, 4, [seed % 7]
    else:
        nrt, ndec, nnil, salts = 49, 21, 14, [(seed + i) % 7 for i in (0, 2, 3, 5)]
    jobs = []
    for salt in salts:
        tlist = []
        for (mi, v) in tg:
            rt = sorted(rng.sample(range(49), nrt))
            dec = sorted(rng.sample(range(49), ndec))
            tlist.append({"m": mi + 1, "v": v, "rt": rt, "dec": dec, "nil": sorted(rng.sample(rt, nnil))})
        nsh = 12 if tier == "quick" else 16
        for k in range(nsh):
            part = tlist[k::nsh]
            if part:
                jobs.append((len(jobs), part, salt))
    ctx.log("C04: %d (message, version) targets, %d shards, rows rt=%d dec=%d nil=%d" % (len(tg), len(jobs), nrt, ndec, nnil))
    results = []
    with concurrent.futures.ThreadPoolExecutor(max_workers=1) as exb, concurrent.futures.ThreadPoolExecutor(max_workers=8) as ex:
        # driver B (Conn codec) runs beside the shards of driver A; its violations are printed when it is done
        futb = exb.submit(run_conn_codec, ctx, d, msgs, tier)
        futs = [ex.submit(run_shard, ctx, d, k, schemas_path, part, salt, vh, vhu) for (k, part, salt) in jobs]
        for f in futs:
            results.append(f.result())
        conn_cov, conn_ok, conn_states, conn_trans = futb.result()
    states_b, trans_b = conn_states, conn_trans
    marshal_cov = run_marshal(ctx, d, [("default", vh), ("unsafe", vhu)])
    total = sum(r["n"] for r in results)
    states = sum(r["chk"]["distinct"] + r["gen"]["distinct"] for r in results)
    trans = sum(r["chk"]["generated"] + r["gen"]["generated"] for r in results)
    nbad = sum(len(r["bad"]) for r in results)
    ctx.log("C04: %d vectors judged by TLC, %d with a failed clause" % (total, nbad))
    # group failing vectors per (message, version); then merge the versions of a message that fail the same way
    per = {}
    nil_dup = 0
    for r in results:
        if not r["bad"]:
            continue
        vecs = {v["id"]: v for v in read_ndjson(r["vectors"])}
        res1 = {x["id"]: x for x in read_ndjson(r["r1"])}
        res2 = {x["id"]: x for x in read_ndjson(r["r2"])}
        salt = jobs[r["k"]][2]
        badids = {b["id"] for b in r["bad"]}
        for b in r["bad"]:
            vec = vecs[b["id"]]
            bucket = (vec["msg"], vec["v"])
            if vec["mode"] == "nil":
                # the same row is also a round-trip vector: a nil-mode failure is a finding of its own only if that one passes
                if b["id"].replace("/nil", "/rt") in badids:
                    nil_dup += 1
                    continue
                bucket = (vec["msg"], vec["v"], "nil")
            e = per.setdefault(bucket, {"clauses": set(), "builds": set(), "n": 0, "enc": None, "dec": None})
            e["clauses"] |= set(b["default"]) | set(b["unsafe"])
            e["builds"] |= {n for n in ("default", "unsafe") if b[n]}
            e["n"] += 1
            item = (vec, res1[b["id"]], res2[b["id"]], salt, b)
            if "encode" in (b["default"] + b["unsafe"]) and e["enc"] is None:
                e["enc"] = item
            if e["dec"] is None and (set(b["default"] + b["unsafe"]) - {"encode"}):
                e["dec"] = item
    lays = layouts_of(ctx, d, schemas_path, msgs, [(e["enc"][0], e["enc"][3]) for e in per.values() if e["enc"]]) if per else {}
    byname = {m["name"]: m for m in msgs}
    merged = {}
    for bk in sorted(per, key=lambda t: (t[0], t[1], len(t))):
        msg, v = bk[0], bk[1]
        e = per[bk]
        field, cause = "-", "-"
        if e["enc"]:
            vec, x1, x2, salt, b = e["enc"]
            res = x1 if "encode" in b["default"] else x2
            field, cause = first_diff_field(vec, lays.get(vec["id"]), res["enc"]) if res["encOk"] else ("encode-error", "encode-error")
        elif e["dec"]:
            vec, x1, x2, salt, b = e["dec"]
            res = x1 if b["default"] else x2
            bad = [dd for dd in res["decs"] if not dd["ok"]]
            field = "decode-error" if bad else (next((diff_value(byname[msg]["fields"], v, vec["value"], dd["value"]) for dd in res["decs"]
                                                       if diff_value(byname[msg]["fields"], v, vec["value"], dd["value"])), None) or "-")
        if len(bk) == 3 and cause == "empty-written-as-null":
            cause = "go-nil-written-as-null"      # mode "nil": a nil slice given for a field that is not nullable at this version
        gk = (msg, tuple(sorted(e["clauses"])), field, tuple(sorted(e["builds"])), cause)
        merged.setdefault(gk, []).append((v, e))
    nviol = 0
    viol_keys = []
    for gk in sorted(merged):
        msg, clauses, field, builds, cause = gk
        versions = [v for v, _ in merged[gk]]
        e = merged[gk][0][1]
        vec, x1, x2, salt, b = e["enc"] or e["dec"]
        nvec = sum(x["n"] for _, x in merged[gk])
        key = "C04 api=%s kind=%s clause=%s field=%s cause=%s v=%s builds=%s" % (vec["api"], vec["kind"], "+".join(clauses), field, cause,
                                                                               ",".join(str(v) for v in versions), "+".join(builds))
        viol_keys.append({"key": key, "vectors": nvec, "first": vec["id"]})
        if len(viol_keys) > MAXVIOL:
            continue
        detail = {"vector": vec["id"], "value": vec["value"], "expectedFrameHex": hexs(vec["frame"]),
                  "default": {"encOk": x1["encOk"], "encErr": x1["encErr"], "encodedHex": hexs(x1["enc"]), "decoded": x1["decs"]},
                  "unsafe": {"encOk": x2["encOk"], "encErr": x2["encErr"], "encodedHex": hexs(x2["enc"]), "decoded": x2["decs"]}}
        rep = ctx.save_replay("%s-%s-%s" % (msg, "+".join(clauses), re.sub(r"[^A-Za-z0-9]+", "_", field)), [
            ("vector.json", json.dumps(vec)), ("detail.json", json.dumps(detail, indent=1)),
            ("README.txt", "Vector %s (value + frame computed by TLC from Wire.tla and spec/wire/schemas/%s.json).\nFailed clauses: %s (builds: %s), versions %s; %d vectors of this group failed.\n"
             % (vec["id"], msg, ", ".join(clauses), ", ".join(builds), versions, nvec))])
        what = "%s | %s v%s: clause(s) %s false, e.g. vector %s (first differing field: %s, %s; %d vectors; builds %s)" % (
            key, msg, ",".join(str(v) for v in versions), ", ".join(clauses), vec["id"], field, cause, nvec, "+".join(builds))
        if ctx.violation(what, rep, key=key):
            nviol += 1
    if len(viol_keys) > MAXVIOL:
        ctx.notes.append("more than %d violation groups: only the first %d were printed (%d in all)" % (MAXVIOL, MAXVIOL, len(viol_keys)))
    covered = {}
    for (mi, v) in tg:
        covered.setdefault(msgs[mi]["name"], []).append(v)
    sample_src = read_ndjson(results[0]["vectors"])
    samples = []
    for s in (sample_src[0], sample_src[len(sample_src) // 2], sample_src[-1]):
        samples.append({"id": s["id"], "value": s["value"], "frameHex": hexs(s["frame"]), "bodyHex": hexs(s["frame"][s["hdr"]:]), "mode": s["mode"]})
    return {"engine": "wire", "states": states + states_b, "transitions": trans + trans_b, "traces_validated_against_impl": 2 * (total - nbad) + conn_ok,
            "conn_codec": conn_cov, "marshal_history": marshal_cov, "vectors": total, "vectors_with_failed_clause": nbad,
            # SafeDecode(Encode(value)) = value, evaluated by TLC on every generated vector (consistency of the specification itself)
            "spec_roundtrip_checked": sum(r["spec_rt"] for r in results), "builds": ["default", "unsafe"],
            "targets": len(tg), "rows_round_trip": nrt, "rows_decode_only": ndec, "rows_nil_as_empty": nnil, "salts": salts,
            "covered": {k: "v%d-v%d" % (min(v), max(v)) for k, v in sorted(covered.items())},
            "uncovered": uncovered, "provenance": {m["name"]: m["prov"] for m in msgs},
            "violation_groups": viol_keys, "samples": samples}


# ---------------------------------------------------------------------------------------------- C20
QUICK_FUZZ = ["Metadata", "Fetch", "Produce", "ApiVersions", "JoinGroup"]


def fuzz_shard(ctx, d, k, schemas_path, blobs_path, part, binaries, par):
    """WireFuzzGen -> driver (child processes) per build -> WireFuzzCheck per build, for one shard of the base frames."""
    tp = os.path.join(d, "ftargets-%d.ndjson" % k)
    cp = os.path.join(d, "fcases-%d.ndjson" % k)
    write_ndjson(tp, part)
    g = ctx.tlc(ENGINE, "WireFuzzGen", "WireFuzzGen.cfg", workers=1, timeout=1500, tag="fgen%d" % k,
                env={"SCHEMAS": schemas_path, "TARGETS": tp, "RECORDS": blobs_path, "OUT": cp, "JAVA_TOOL_OPTIONS": JOPTS})
    if g["error"] or g["timeout"] or g["violated"] or not os.path.exists(cp):
        raise Inconclusive("WireFuzzGen failed (shard %d): %s" % (k, (g["error"] or g["out"])[-1500:]))
    out = {"k": k, "cases": cp, "gen": g, "builds": {}}
    for label, binary in binaries:
        rp = os.path.join(d, "fresults-%s-%d.ndjson" % (label, k))
        p = subprocess.run([binary, "wire", "-mode", "fuzz", "-cases", cp, "-out", rp, "-par", str(par)], capture_output=True, text=True, timeout=3000)
        if p.returncode != 0:
            raise Inconclusive("fuzz driver (%s) failed on shard %d: %s" % (label, k, p.stderr[-1500:]))
        c = ctx.tlc(ENGINE, "WireFuzzCheck", "WireFuzzCheck.cfg", workers=1, timeout=1500, tag="fchk%s%d" % (label, k),
                    env={"CASES": cp, "RESULTS": rp, "JAVA_TOOL_OPTIONS": JOPTS})
        m = re.search(r'<<"WIREFUZZCHECK", (\d+), (\d+), (\d+)>>', c["out"])
        if c["timeout"] or not m or (c["error"] and not c["postcondition_failed"]):
            raise Inconclusive("WireFuzzCheck failed (shard %d, %s): %s" % (k, label, (c["error"] or c["out"])[-1500:]))
        n, nviol, lenient = int(m.group(1)), int(m.group(2)), int(m.group(3))
        flat = re.sub(r"\s+", " ", c["out"])
        viol = {mm.group(1): mm.group(2) for mm in re.finditer(r'<< ?"FUZZVIOL", "([^"]+)", "([^"]+)" ?>>', flat)}
        notes = [mm.group(1) for mm in re.finditer(r'<< ?"FUZZNOTE", "([^"]+)", "base-frame-rejected" ?>>', flat)]
        if len(viol) != nviol or c["postcondition_failed"] != (nviol > 0):
            raise Inconclusive("WireFuzzCheck output inconsistent on shard %d (%d FUZZVIOL lines, count %d)" % (k, len(viol), nviol))
        out["builds"][label] = {"n": n, "viol": viol, "lenient": lenient, "base_rejected": notes, "results": rp, "chk": c}
    return out


def run_c20(ctx):
    tier = ctx.tier
    d = ctx.specdir(ENGINE)
    msgs = normalise(os.path.join(d, "schemas"))
    schemas_path = os.path.join(d, "schemas.ndjson")
    write_ndjson(schemas_path, msgs)
    vh = ctx.vh()
    blobs_path = os.path.join(d, "blobs.ndjson")
    p = ctx.run_vh(["wire", "-mode", "records", "-out", blobs_path], timeout=60)
    if p.returncode != 0:
        raise Inconclusive("vh wire -mode records failed: " + p.stderr[-1000:])
    lib = library_ranges(ctx)
    apis = QUICK_FUZZ if tier == "quick" else None
    tg, uncovered = targets_of([m for m in msgs], lib, apis)
    targets = []
    for (mi, v) in tg:
        m = msgs[mi]
        if m["kind"] != "response":
            continue
        if m["api"] == "Fetch":
            # record batches (magic 2) are what brokers send for fetch v4+, message sets (magic 0/1) before
            blobs = ["v2"] if v >= 4 else ["v1"]
            if v in (0, 1):
                blobs.append("v0")
            if v in (4, 10, 11):
                blobs.append("v1")
            for b in blobs:
                targets.append({"m": mi + 1, "v": v, "recs": b})
        else:
            targets.append({"m": mi + 1, "v": v, "recs": ""})
    binaries = [("default", vh)] + ([("unsafe", build_unsafe(ctx))] if tier == "thorough" else [])
    nsh = 8
    jobs = [(k, targets[k::nsh]) for k in range(nsh) if targets[k::nsh]]
    ctx.log("C20: %d base frames (response type x version [x record format]), %d shards, builds %s" % (len(targets), len(jobs), [b[0] for b in binaries]))
    results = []
    with concurrent.futures.ThreadPoolExecutor(max_workers=nsh) as ex:
        futs = [ex.submit(fuzz_shard, ctx, d, k, schemas_path, blobs_path, part, binaries, 3) for (k, part) in jobs]
        for f in futs:
            results.append(f.result())
    total = sum(b["n"] for r in results for b in r["builds"].values())
    frames, base_frames = set(), set()
    outcomes = {}
    violating = []          # (key, case, result, verdict)
    kinds, classes = set(), set()
    for r in results:
        cases = read_ndjson(r["cases"])
        for label, b in r["builds"].items():
            res = read_ndjson(b["results"])
            for c, x in zip(cases, res):
                fr = bytes(c["frame"])
                frames.add(fr)
                if c["class"] == "exact":
                    base_frames.add(fr)
                kinds.add(c["kind"])
                classes.add(c["class"])
                verdict = b["viol"].get(c["id"])
                ok = (c["expect"], x["outcome"] if not verdict else verdict)
                outcomes[ok] = outcomes.get(ok, 0) + 1
                if verdict:
                    key = "C20 kind=%s class=%s outcome=%s api=%s v=%d field=%s" % (c["kind"], c["class"], verdict, c["api"], c["v"],
                                                                                   re.sub(r"\[\d+\]", "", c["path"]))
                    if c["recs"]:
                        key += " records=%s" % c["recs"]
                    if label != "default":
                        key += " build=%s" % label
                    violating.append((key, c, x, verdict))
    nviol_total = len(violating)
    ctx.log("C20: %d cases judged by TLC, %d violate (panic/fatal/hang/alloc)" % (total, nviol_total))
    base_rejected = [n for r in results for b in r["builds"].values() for n in b["base_rejected"]]
    if base_rejected:
        raise Inconclusive("the unmutated base frame was rejected by the decoder (class exact): %s" % base_rejected[:5])
    # one representative per (kind, class, outcome) first, so that the capped VIOLATION lines show every pattern
    seen, ordered, rest = set(), [], []
    for it in sorted(violating, key=lambda t: t[0]):
        g = (it[1]["kind"], it[1]["class"], it[3])
        (rest if g in seen else ordered).append(it)
        seen.add(g)
    import vlib
    printed, unknown, replays = 0, 0, {}
    groups = {}
    for it in ordered + rest:
        key, c, x, verdict = it
        g = "%s_%s_%s" % (c["kind"], c["class"].replace("^", ""), verdict)
        groups[g] = groups.get(g, 0) + 1
        known = vlib.match_known(ctx.prop, key) is not None
        if not known:
            unknown += 1
            if printed >= MAXVIOL:
                continue
            printed += 1
        if g not in replays:
            replays[g] = ctx.save_replay(g, [("case.json", json.dumps(c)), ("result.json", json.dumps(x)),
                                             ("README.txt", "frame (hex) %s\nfed to protocol.ReadResponse(apiKey=%d, version=%d) in a child process\nverdict of WireFuzz!Judge: %s\n%s\n"
                                              % (hexs(c["frame"]), c["apiKey"], c["v"], verdict, x.get("detail", "")))])
        what = "%s: %s (alloc=%d bytes for a %d-byte frame) %s" % (key, verdict, x["alloc"], c["received"], x.get("detail", "")[:160])
        ctx.violation(what, replays[g], key=key)
    if unknown > printed:
        ctx.notes.append("%d violating cases are not covered by known findings; %d VIOLATION lines printed, %d more not printed" % (unknown, printed, unknown - printed))
    nontrivial = len(frames - base_frames)
    s0 = results[0]
    c0, r0 = read_ndjson(s0["cases"]), read_ndjson(s0["builds"]["default"]["results"])
    samples = []
    for i in (0, len(c0) // 3, 2 * len(c0) // 3, len(c0) - 1):
        samples.append({"id": c0[i]["id"], "frameHex": hexs(c0[i]["frame"]), "put": c0[i]["put"], "model": c0[i]["expect"],
                        "outcome": r0[i]["outcome"], "alloc": r0[i]["alloc"], "detail": r0[i]["detail"][:120]})
    return {"engine": "wire", "evaluations": total, "distinct_nontrivial": nontrivial,
            "rule": "TLC (WireFuzzGen) enumerates, for one well-formed frame of every response type x version (x record format for Fetch), every "
                    "length/count field of the spec encoder's layout map x every value class; each case is run through protocol.ReadResponse in a child "
                    "process; TLC (WireFuzzCheck) judges every outcome line. distinct_nontrivial = distinct mutated frames that differ from every "
                    "unmutated base frame (counted over the frames' bytes)",
            "base_frames": len(targets), "field_kinds": sorted(kinds), "value_classes": sorted(classes),
            "violating_cases": nviol_total, "violating_not_known": unknown, "violation_lines_printed": printed,
            "violation_groups(kind_class_outcome)": dict(sorted(groups.items())),
            "model_vs_outcome": {"%s/%s" % k: v for k, v in sorted(outcomes.items())},
            "lenient_decodes(model Error, decoder decoded)": sum(b["lenient"] for r in results for b in r["builds"].values()),
            "builds": [b[0] for b in binaries],
            "tlc_states": sum(b["chk"]["distinct"] for r in results for b in r["builds"].values()), "uncovered": uncovered if tier != "quick" else "quick tier: " + ", ".join(QUICK_FUZZ) + " only",
            "alloc_bound": "64 * received + 512 KiB", "samples": samples}


def replay(ctx, path):
    """bin/check <id> --replay <dir>: re-runs the saved vector (C04) or case (C20) on the current tree; TLC judges again."""
    ctx.vh_keep = ["wire.go", "connwire.go"]
    d = ctx.specdir(ENGINE)
    msgs = normalise(os.path.join(d, "schemas"))
    schemas_path = os.path.join(d, "schemas.ndjson")
    write_ndjson(schemas_path, msgs)
    vh = ctx.vh()
    if os.path.exists(os.path.join(path, "conn.json")):
        # driver B: the scenario of the saved connection is run again on the current tree, all its connections are judged
        saved = json.load(open(os.path.join(path, "conn.json")))
        req_path = os.path.join(d, "reqschemas.ndjson")
        write_ndjson(req_path, [m for m in msgs if m["kind"] == "request"])
        conns = [c for c in conn_drive(ctx, d, ctx.tier, "replay", only=saved["scenario"])[0] if c["scenario"] == saved["scenario"]]
        if not conns:
            raise Inconclusive("scenario %s produced no connection" % saved["scenario"])
        res = conn_judge(ctx, d, req_path, conns, 1, "replay")
        bad = [b for r in res for b in r["bad"]]
        if bad:
            print("VIOLATION property=%s replay=%s" % (ctx.prop, path))
            print("  detail: %s" % bad[0])
            return 1
        print("replay: scenario %s: %d connections, %d frames accepted by WireConnCheck on the current tree"
              % (saved["scenario"], len(conns), sum(len(f) for r in res for f in r["frames"].values())))
        return 0
    if os.path.exists(os.path.join(path, "vector.json")):
        vec = json.load(open(os.path.join(path, "vector.json")))
        vp, r1, r2 = (os.path.join(d, n) for n in ("vectors-0.ndjson", "results-default-0.ndjson", "results-unsafe-0.ndjson"))
        write_ndjson(vp, [vec])
        for binary, outp, label in ((vh, r1, "default"), (build_unsafe(ctx), r2, "unsafe")):
            p = subprocess.run([binary, "wire", "-mode", "vectors", "-schemas", schemas_path, "-in", vp, "-out", outp, "-build", label, "-par", "1"],
                               capture_output=True, text=True, timeout=300)
            if p.returncode != 0:
                raise Inconclusive("driver failed: " + p.stderr[-1000:])
        c = ctx.tlc(ENGINE, "WireCheck", "WireCheck.cfg", workers=1, timeout=300, tag="replay",
                    env={"SCHEMAS": schemas_path, "VECTORS": vp, "RESULTS1": r1, "RESULTS2": r2, "JAVA_TOOL_OPTIONS": JOPTS})
        m = re.search(r'<<"WIRECHECK", (\d+), (\d+)>>', c["out"])
        if not m:
            raise Inconclusive("WireCheck failed: " + c["out"][-1000:])
        if int(m.group(2)) > 0:
            flat = re.sub(r"\s+", " ", c["out"])
            mm = re.search(r'<< ?"MISMATCH".*?>>', flat)
            print("VIOLATION property=%s replay=%s" % (ctx.prop, path))
            print("  detail: %s" % (mm.group(0) if mm else vec["id"]))
            return 1
        print("replay: vector %s accepted by WireCheck on the current tree" % vec["id"])
        return 0
    if os.path.exists(os.path.join(path, "case.json")):
        case = json.load(open(os.path.join(path, "case.json")))
        cp, rp = os.path.join(d, "fcases-0.ndjson"), os.path.join(d, "fresults-0.ndjson")
        write_ndjson(cp, [case])
        p = subprocess.run([vh, "wire", "-mode", "fuzz", "-cases", cp, "-out", rp, "-par", "1"], capture_output=True, text=True, timeout=300)
        if p.returncode != 0:
            raise Inconclusive("fuzz driver failed: " + p.stderr[-1000:])
        c = ctx.tlc(ENGINE, "WireFuzzCheck", "WireFuzzCheck.cfg", workers=1, timeout=300, tag="replay",
                    env={"CASES": cp, "RESULTS": rp, "JAVA_TOOL_OPTIONS": JOPTS})
        m = re.search(r'<<"WIREFUZZCHECK", (\d+), (\d+), (\d+)>>', c["out"])
        if not m:
            raise Inconclusive("WireFuzzCheck failed: " + c["out"][-1000:])
        if int(m.group(2)) > 0:
            print("VIOLATION property=%s replay=%s" % (ctx.prop, path))
            print("  detail: %s -> %s" % (case["id"], read_ndjson(rp)[0]))
            return 1
        print("replay: case %s accepted by WireFuzzCheck on the current tree (%s)" % (case["id"], read_ndjson(rp)[0]["outcome"]))
        return 0
    raise Inconclusive("no vector.json or case.json in " + path)


def run(ctx):
    ctx.vh_keep = ["wire.go", "connwire.go"]
    if ctx.prop == "C04":
        return run_c04(ctx)
    return run_c20(ctx)
