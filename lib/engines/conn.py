"""Engine E4: one kafka.Conn shared by several operations (C11; Conn parts of C06 and C17)."""
import json, os, random, re
from vlib import Inconclusive, read_ndjson, write_ndjson, split_traces

ENGINE = "connmux"
PROPS = {"C11": "model_checking"}

PROP_INVS = {
    "C11": ["C11_NextAsFresh", "C11_KafkaErrKeepsOpen", "C11_ErrorReported", "C11_FailedStaysFailed", "C11_NoSpuriousNoProgress",
            "C11_TransportErrorCloses", "C11_StallIsError", "C11_WrongIdIsError", "C17_NoPanicNoHang"],
    "C06": ["C06_OwnResponse", "C06_UniqueIds", "C06_SharedBuffersClean", "C17_NoPanicNoHang"],
    "C17": ["C17_CutIsError", "C17_NoPanicNoHang", "C11_FailedStaysFailed", "C06_OwnResponse", "C11_TransportErrorCloses"],
}
MC_INVS = {
    "C11": (["C11_OtherErrCloses", "C11_NeverMisaligned", "C11_NoSpuriousNoProgress"], ["C11_KafkaErrKeeps", "C11_ClosedStaysFailed"]),
    "C06": (["C06_OwnResponse"], []),
    "C17": (["C17_CutIsError", "C11_OtherErrCloses"], ["C11_ClosedStaysFailed"]),
}
CODES_ALL = [6, 1, 19, 3, 29, 10]
VERS = {"produce": 7, "fetch": 10, "metadata": 6, "createtopics": 2, "deletetopics": 1}


def vers(**kw):
    v = dict(VERS)
    v.update(kw)
    return v


def op1_variants():
    out = []
    for k, arg in (("lastOffset", 0), ("firstOffset", 0), ("offsetAt", 4)):
        out.append((k, arg, "partition", vers(), "listoffsets-v1"))
    for mv in (1, 6):
        out.append(("partitionsOwn", 0, "topic", vers(metadata=mv), "metadata-v%d-topic" % mv))
        out.append(("partitionsOwn", 0, "metapartition", vers(metadata=mv), "metadata-v%d-partition" % mv))
    for pv in (2, 3, 7):
        out.append(("produce", 0, "partition", vers(produce=pv), "produce-v%d" % pv))
    for fv in (2, 5, 10):
        out.append(("fetch", 2, "partition", vers(fetch=fv), "fetch-v%d" % fv))
    for cv in (0, 1, 2):
        out.append(("createTopics", 0, "topic", vers(createtopics=cv), "createtopics-v%d" % cv))
    for dv in (0, 1):
        out.append(("deleteTopics", 0, "topic", vers(deletetopics=dv), "deletetopics-v%d" % dv))
    out.append(("apiVersions", 0, "top", vers(), "apiversions-v0"))
    return out


OP2 = [("offsetAt", 5), ("partitions", 3), ("lastOffset", 0), ("produce", 0), ("fetch", 2), ("brokers", 0)]


def c11_scripts(tier):
    codes = [6, 3] if tier == "quick" else CODES_ALL
    op2s = OP2[:4] if tier == "quick" else OP2
    out = []
    for (k1, a1, field, vs, tag) in op1_variants():
        for code in codes:
            if k1 == "createTopics" and code == 36:
                continue
            for (k2, a2) in op2s:
                if k1 == k2 and k1 in ("produce", "fetch"):
                    pass
                fld = "partition" if field == "metapartition" else field
                sid = "c11-%s-e%d-%s%d" % (tag, code, k2, a2)
                ops = [{"o": 1, "g": 1, "kind": k1, "arg": a1, "fault": {"err": code, "field": fld, "report": field != "metapartition"}},
                       {"o": 2, "g": 1, "kind": k2, "arg": a2}]
                if k1 == k2:
                    # the same request signature twice: the fault applies to the first only, give the second its own arg
                    continue
                out.append({"id": sid, "kind": "c11", "versions": vs, "ops": ops, "report": field != "metapartition"})
    # the response stalls in the middle (after the size and correlation id were read) until the deadline expires,
    # then the rest arrives: the operation fails and the Conn is not used again
    for (k1, a1, field, vs, tag) in op1_variants():
        for stall in (8, 9, 14, 30, 100000):
            for (k2, a2), sl in (((("offsetAt", 5)), 0), (("partitions", 3), 250), (("lastOffset", 0), 250)):
                if k1 == k2:
                    continue
                out.append({"id": "c11-stall-%s-b%d-%s-s%d" % (tag, stall, k2, sl), "kind": "c11", "versions": vs, "report": False, "ops": [
                    {"o": 1, "g": 1, "kind": k1, "arg": a1, "deadlineMs": 40, "fault": {"stall": stall, "stallMs": 200}},
                    {"o": 2, "g": 1, "kind": k2, "arg": a2, "sleepMs": sl},
                    {"o": 3, "g": 1, "kind": "brokers", "arg": 0}]})
    # part of a fetch response left unread on purpose: the Conn stays usable and the next operation behaves as on a fresh one
    for fv in (2, 5, 10):
        for k1 in ("fetchShort", "fetchPartial", "fetchClose2"):
            for (k2, a2) in op2s:
                if k2 in ("fetch", "produce"):      # (a produced record would change what the probing fetch must return)
                    continue
                out.append({"id": "c11-%s-v%d-%s%d" % (k1, fv, k2, a2), "kind": "c11", "versions": vers(fetch=fv), "report": False, "ops": [
                    {"o": 1, "g": 1, "kind": k1, "arg": 2}, {"o": 2, "g": 1, "kind": k2, "arg": a2}, {"o": 3, "g": 1, "kind": "fetch", "arg": 5}]})
    # the same on compressed data: the batch is left while a decompressed message set is only partly consumed and more
    # batches follow in the response
    for codec in (1, 2, 3, 4):
        for fv in (2, 10):
            for k1 in ("fetchShort", "fetchPartial", "fetchClose2"):
                out.append({"id": "c11-%s-c%d-v%d" % (k1, codec, fv), "kind": "c11", "versions": vers(fetch=fv), "report": False, "codec": codec, "ops": [
                    {"o": 1, "g": 1, "kind": k1, "arg": 0}, {"o": 2, "g": 1, "kind": "lastOffset", "arg": 0}, {"o": 3, "g": 1, "kind": "fetch", "arg": 5}]})
    # an answer carrying a foreign correlation id (framing error): this and every later operation fail, none hangs
    for (k1, a1, field, vs, tag) in op1_variants():
        for delta in (1, 1000, -1):
            out.append({"id": "c11-wrongid-%s-d%d" % (tag, delta), "kind": "c11", "versions": vs, "report": False, "ops": [
                {"o": 1, "g": 1, "kind": k1, "arg": a1, "fault": {"corr": delta}}, {"o": 2, "g": 1, "kind": "offsetAt", "arg": 5},
                {"o": 3, "g": 1, "kind": "partitions", "arg": 3}]})
    # two broker errors in a row, then a probe
    for (k1, a1, field, vs, tag) in op1_variants():
        if k1 in ("produce", "fetch", "lastOffset"):
            out.append({"id": "c11-double-%s" % tag, "kind": "c11", "versions": vs, "report": True, "ops": [
                {"o": 1, "g": 1, "kind": k1, "arg": a1, "fault": {"err": 6, "field": "partition", "report": True}},
                {"o": 2, "g": 1, "kind": "offsetAt", "arg": 7, "fault": {"err": 3, "field": "partition", "report": True}},
                {"o": 3, "g": 1, "kind": "partitions", "arg": 2}]})
    return out


def c06_scripts(seed, n):
    rng = random.Random(seed * 104729 + 7)
    out = []
    for k in range(n):
        ops = []
        o = 0
        used = set()
        ng = rng.randint(2, 5)
        with_produce = rng.random() < 0.3
        for g in range(1, ng + 1):
            for _ in range(rng.randint(1, 3)):
                while True:
                    if with_produce:
                        kind = rng.choice(["offsetAt", "partitions", "brokers", "produce", "offsetAt", "partitions"])
                    else:
                        kind = rng.choice(["offsetAt", "partitions", "brokers", "lastOffset", "firstOffset", "fetch", "offsetAt", "partitions", "controller"])
                    arg = 0
                    if kind == "offsetAt":
                        arg = rng.randrange(12)
                    elif kind == "partitions":
                        arg = rng.randint(1, 6)
                    elif kind == "fetch":
                        arg = rng.randrange(11)
                    key = (kind, arg) if kind in ("offsetAt", "partitions") else (kind,)
                    if key in used:
                        continue
                    used.add(key)
                    break
                o += 1
                op = {"o": o, "g": g, "kind": kind, "arg": arg}
                r = rng.random()
                if r < 0.25:
                    op["fault"] = {"delayMs": rng.choice([2, 5, 15, 30])}
                elif r < 0.45:
                    op["fault"] = {"chunks": [rng.randint(1, 9) for _ in range(rng.randint(1, 4))]}
                elif r < 0.55:
                    op["fault"] = {"delayMs": 3, "chunks": [4, 4, rng.randint(1, 20)]}
                ops.append(op)
        # at most one hard fault per script
        r = rng.random()
        if r < 0.2:
            v = rng.choice(ops)
            v["fault"] = {"delayMs": 400}
            v["deadlineMs"] = 40
        elif r < 0.35:
            v = rng.choice(ops)
            v["fault"] = {"cut": rng.randint(0, 40)}
        elif r < 0.45:
            v = rng.choice([x for x in ops if x["kind"] in ("offsetAt", "lastOffset", "firstOffset", "fetch", "produce")] or ops)
            if v["kind"] in ("offsetAt", "lastOffset", "firstOffset", "fetch", "produce"):
                v["fault"] = {"err": rng.choice([6, 3, 1]), "field": "partition"}
        out.append({"id": "c06-%d-%d" % (seed, k), "kind": "c06", "versions": vers(produce=rng.choice([2, 3, 7]), fetch=rng.choice([2, 5, 10]), metadata=rng.choice([1, 6])),
                    "ops": ops, "report": False, "codec": rng.choice([0, 0, 1, 2, 3, 4])})
    # recycled buffers: a Batch closed twice, then two Conns reading compressed batches at the same time (every codec, fetch versions)
    for codec in (1, 2, 3, 4):
        for fv in (10, 5):
            out.append({"id": "c06-pool-c%d-v%d" % (codec, fv), "kind": "pool", "versions": vers(fetch=fv), "ops": [], "report": False, "codec": codec})
    # writers queueing up: one caller stays inside doRequest (write lock held) while the others arrive, so that
    # several are blocked on the write lock at once; answers are delayed differently
    for k in range(max(4, n // 8)):
        ng = rng.randint(3, 6)
        ops = [{"o": 1, "g": 1, "kind": "offsetAt", "arg": 11, "holdReqMs": rng.choice([20, 40])}]
        args = rng.sample(range(0, 11), ng)
        for g in range(2, ng + 1):
            kind = rng.choice(["offsetAt", "offsetAt", "partitions"])
            op = {"o": g, "g": g, "kind": kind, "arg": args[g - 2] if kind == "offsetAt" else (g % 6) + 1, "sleepMs": rng.choice([3, 5, 8])}
            if rng.random() < 0.5:
                op["fault"] = {"delayMs": rng.choice([2, 10, 25])}
            ops.append(op)
        out.append({"id": "c06-queue-%d-%d" % (seed, k), "kind": "c06", "versions": vers(metadata=rng.choice([1, 6])), "ops": ops, "report": False, "codec": 0})
    return out


C17_OPS = [("lastOffset", 0, vers(), "listoffsets-v1"), ("partitions", 3, vers(metadata=1), "metadata-v1"), ("partitions", 3, vers(), "metadata-v6"),
           ("brokers", 0, vers(), "brokers-v1"), ("produce", 0, vers(produce=2), "produce-v2"), ("produce", 0, vers(produce=3), "produce-v3"),
           ("produce", 0, vers(), "produce-v7"), ("fetch", 3, vers(fetch=2), "fetch-v2"), ("fetch", 3, vers(fetch=5), "fetch-v5"), ("fetch", 3, vers(), "fetch-v10"),
           ("createTopics", 0, vers(), "createtopics-v2"), ("deleteTopics", 0, vers(), "deletetopics-v1"), ("controller", 0, vers(), "controller")]


def c17_probe_scripts(tier):
    out = []
    for (k, a, vs, tag) in C17_OPS:
        for codec in ([0] if k != "fetch" else ([0, 2] if tier == "quick" else [0, 1, 2, 3, 4])):
            out.append({"id": "c17probe-%s-c%d" % (tag, codec), "kind": "c17", "versions": vs, "codec": codec, "report": False,
                        "ops": [{"o": 1, "g": 1, "kind": k, "arg": a}]})
    return out


def c17_scripts(tier, lens, seed):
    rng = random.Random(seed)
    out = []
    for (k, a, vs, tag) in C17_OPS:
        for codec in ([0] if k != "fetch" else ([0, 2] if tier == "quick" else [0, 1, 2, 3, 4])):
            flen = lens.get("c17probe-%s-c%d" % (tag, codec))
            if not flen:
                continue
            total = flen
            ks = list(range(0, total))
            if tier == "quick" and total > 140:
                # every position of the first 100 bytes, then a seeded sample of the rest (thorough takes all)
                ks = sorted(set(list(range(0, 100)) + rng.sample(range(100, total), min(60, total - 100)) + [total - 1]))
            for cut in ks:
                out.append({"id": "c17-%s-c%d-k%d" % (tag, codec, cut), "kind": "c17", "versions": vs, "codec": codec, "report": False,
                            "ops": [{"o": 1, "g": 1, "kind": k, "arg": a, "fault": {"cut": cut}},
                                    {"o": 2, "g": 1, "kind": "offsetAt", "arg": 6}]})
    return out


def c17_concurrent_scripts(tier):
    """Several requests in flight on one Conn when the connection is lost after k bytes of the first answer (k inside the size
    prefix, inside the correlation id, inside the body): every pending call returns an error, none stays blocked."""
    out = []
    cuts = list(range(0, 13)) + [16, 20, 30]
    for k in cuts:
        for ng in ((2, 3) if tier == "quick" else (2, 3, 4)):
            ops = [{"o": 1, "g": 1, "kind": "offsetAt", "arg": 1, "fault": {"cut": k, "delayMs": 40}}]
            for g in range(2, ng + 1):
                ops.append({"o": g, "g": g, "kind": ["partitions", "offsetAt", "lastOffset"][g % 3], "arg": g + 1, "sleepMs": 5})
            out.append({"id": "c17-conc-g%d-k%d" % (ng, k), "kind": "c06", "versions": vers(), "ops": ops, "report": False, "codec": 0})
    return out


def run_scripts(ctx, scripts, tag):
    ctx.vh_keep = getattr(ctx, "vh_keep", None) or ["writer.go", "conn.go"]
    sp = os.path.join(ctx.work, "cscripts-%s.ndjson" % tag)
    tp = os.path.join(ctx.work, "ctraces-%s.ndjson" % tag)
    write_ndjson(sp, scripts)
    # the recycled-buffer scenarios are run by themselves, one at a time on one P with the collector off: what sync.Pool hands
    # out is then a function of the scenario alone
    pool = [s for s in scripts if s.get("kind") == "pool"]
    rest = [s for s in scripts if s.get("kind") != "pool"]
    write_ndjson(sp, rest)
    p = ctx.run_vh(["conn", "-scripts", sp, "-out", tp, "-par", "24"], timeout=2400)
    if p.returncode != 0 and ("panic:" in p.stderr or "fatal error:" in p.stderr):
        traces = isolate(ctx, rest, tag, "conn", "a Conn")
    elif p.returncode != 0:
        raise Inconclusive("vh conn failed: " + p.stderr[-2000:])
    else:
        traces = split_traces(read_ndjson(tp))
    if pool:
        sp2, tp2 = sp + ".pool", tp + ".pool"
        write_ndjson(sp2, pool)
        p2 = ctx.run_vh(["conn", "-scripts", sp2, "-out", tp2, "-par", "1"], timeout=600, env={"GOMAXPROCS": "1", "GOGC": "off"})
        if p2.returncode != 0:
            raise Inconclusive("vh conn (pool scenarios) failed: " + p2.stderr[-2000:])
        traces += split_traces(read_ndjson(tp2))
    scripts[:] = rest + pool
    if len(traces) != len(scripts):
        raise Inconclusive("driver produced %d traces for %d scripts" % (len(traces), len(scripts)))
    return traces


def isolate(ctx, scripts, tag, sub, what):
    """Run every script in its own process; a script whose process dies with a panic of the library is a violation."""
    from concurrent.futures import ThreadPoolExecutor

    def one(k):
        sp = os.path.join(ctx.work, "iso-%s-%d.ndjson" % (tag, k))
        tp = os.path.join(ctx.work, "iso-%s-%d.t" % (tag, k))
        write_ndjson(sp, [scripts[k]])
        p = ctx.run_vh([sub, "-scripts", sp, "-out", tp, "-par", "1"], timeout=400)
        if p.returncode != 0:
            return k, None, p.stderr
        return k, read_ndjson(tp), ""

    with ThreadPoolExecutor(max_workers=16) as ex:
        res = list(ex.map(one, range(len(scripts))))
    keep_s, keep_t, died = [], [], 0
    for k, evs, err in res:
        if evs is not None:
            keep_s.append(scripts[k])
            keep_t.append(evs)
            continue
        if "panic:" not in err and "fatal error:" not in err:
            raise Inconclusive("vh %s failed on %s: %s" % (sub, scripts[k]["id"], err[-1500:]))
        died += 1
        first = [x for x in err.splitlines() if x.startswith("panic:") or x.startswith("fatal error:")][:1]
        if died <= 20:
            rep = ctx.save_replay("%s-panic" % scripts[k]["id"], [("script.json", json.dumps(scripts[k])), ("stderr.txt", err[-8000:])])
            ctx.violation("the library panicked while %s ran scenario %s: %s" % (what, scripts[k]["id"], first[0] if first else "panic"), rep,
                          key="panic scenario=%s %s" % (scripts[k]["id"], first[0] if first else ""))
    scripts[:] = keep_s
    return split_traces([e for t in keep_t for e in t])


def tid_of(out):
    m = re.findall(r'tid = "([^"]*)"', out)
    return m[-1] if m else None


def monitor(ctx, scripts, traces, invs, maxviol=40):
    d = ctx.specdir(ENGINE)
    cfg = "ConnMon_%s.cfg" % ctx.prop
    with open(os.path.join(d, cfg), "w") as f:
        f.write("SPECIFICATION Spec\nINVARIANTS " + " ".join(invs) + "\nPOSTCONDITION TraceAccepted\nCHECK_DEADLOCK FALSE\n")
    byid = {s["id"]: s for s in scripts}
    remaining = list(traces)
    checked = 0
    nviol = 0
    while remaining:
        tf = os.path.join(ctx.work, "cmon-in.ndjson")
        write_ndjson(tf, [e for t in remaining for e in t])
        r = ctx.tlc(ENGINE, "ConnMon", cfg, workers=1, timeout=1800, env={"TRACE": tf})
        if r["violated"]:
            tid = tid_of(r["out"])
            idx = next((i for i, t in enumerate(remaining) if t[0].get("id") == tid), None)
            if idx is None:
                raise Inconclusive("monitor reported %s but the trace could not be identified" % r["violated"])
            bad = remaining[idx]
            checked += idx + 1
            rep = ctx.save_replay("%s-%s" % (tid, r["violated"]), [
                ("script.json", json.dumps(byid.get(tid, {}))),
                ("trace.ndjson", "\n".join(json.dumps(e) for e in bad) + "\n"),
                ("tlc.txt", r["out"][-20000:])])
            ctx.violation("%s violated on a trace of the real Conn (scenario %s)" % (r["violated"], tid), rep,
                          key="%s scenario=%s" % (r["violated"], tid))
            nviol += 1
            remaining = remaining[idx + 1:]
            if nviol >= maxviol:
                ctx.notes.append("stopped after %d violations; %d traces not monitored" % (nviol, len(remaining)))
                break
            continue
        if r["postcondition_failed"] or r["error"] or r["timeout"]:
            raise Inconclusive("monitor run failed: " + (r["error"] or r["out"][-1500:]))
        checked += len(remaining)
        remaining = []
    return checked


def conformance(ctx, traces):
    divs = []
    remaining = list(traces)
    accepted = 0
    while remaining and len(divs) < 30:
        tf = os.path.join(ctx.work, "cconf-in.ndjson")
        write_ndjson(tf, [e for t in remaining for e in t])
        r = ctx.tlc(ENGINE, "ConnMuxTrace", "ConnMuxTrace.cfg", workers=1, timeout=1800, env={"TRACE": tf})
        if r["postcondition_failed"] or r["violated"]:
            m = re.search(r'"DIVERGED_AT_LINE",\s*(\d+)', r["out"])
            line = int(m.group(1)) if m else (r["depth"] or 1)
            n = 0
            for k, t in enumerate(remaining):
                if line <= n + len(t):
                    ev = t[line - n - 1] if 0 < line - n <= len(t) else {}
                    divs.append({"trace": t[0].get("id"), "event": ev})
                    accepted += k
                    remaining = remaining[k + 1:]
                    break
                n += len(t)
            else:
                raise Inconclusive("conformance failure could not be located")
            continue
        if r["error"] or r["timeout"]:
            raise Inconclusive("conformance run failed: " + (r["error"] or r["out"][-1500:]))
        accepted += len(remaining)
        remaining = []
    return accepted, divs


def model_check(ctx, prop, tier):
    d = ctx.specdir(ENGINE)
    invs, props = MC_INVS[prop]
    nops = "{1, 2, 3}" if tier == "quick" else "{1, 2, 3, 4}"
    cfg = "MC_%s.cfg" % prop
    with open(os.path.join(d, cfg), "w") as f:
        f.write("SPECIFICATION Spec\nCONSTANTS Ops = %s\n ConsumeAll = TRUE\n MaxCuts = 1\n MaxTimeouts = 1\n" % nops)
        f.write("INVARIANTS TypeOK " + " ".join(invs) + "\n")
        if props:
            f.write("PROPERTIES " + " ".join(props) + "\n")
        f.write("CHECK_DEADLOCK FALSE\n")
    r = ctx.tlc(ENGINE, "ConnMux", cfg, workers=16, timeout=1500)
    if r["violated"] or r["error"] or r["timeout"]:
        raise Inconclusive("model checking of ConnMux.tla did not pass: " + r["out"][-2000:])
    # vacuity guard: the defect class "frame not consumed on a Kafka error" must be visible to the model
    if prop == "C11":
        with open(os.path.join(d, "MC_defect.cfg"), "w") as f:
            f.write("SPECIFICATION Spec\nCONSTANTS Ops = {1, 2, 3}\n ConsumeAll = FALSE\n MaxCuts = 1\n MaxTimeouts = 1\nINVARIANTS C11_NeverMisaligned\nCHECK_DEADLOCK FALSE\n")
        r2 = ctx.tlc(ENGINE, "ConnMux", "MC_defect.cfg", workers=8, timeout=300)
        if r2["violated"] != "C11_NeverMisaligned":
            raise Inconclusive("vacuity guard failed: the defective model was not rejected")
        # second guard (finding F20): io.ErrNoProgress without closing the connection lets a frame with a foreign
        # correlation id be taken later by the operation whose id it carries
        with open(os.path.join(d, "MC_defect2.cfg"), "w") as f:
            f.write("SPECIFICATION Spec\nCONSTANT CloseOnNoProgress <- NoCloseOnNoProgress\nCONSTANTS Ops = {1, 2, 3}\n ConsumeAll = TRUE\n MaxCuts = 0\n MaxTimeouts = 0\n"
                    "INVARIANTS C11_NoSpuriousNoProgress\nCHECK_DEADLOCK FALSE\n")
        r3 = ctx.tlc(ENGINE, "ConnMux", "MC_defect2.cfg", workers=8, timeout=300)
        if r3["violated"] != "C11_NoSpuriousNoProgress":
            raise Inconclusive("vacuity guard failed: the model without close-on-ErrNoProgress was not rejected")
    return {"states": r["distinct"], "transitions": r["generated"], "mc_depth": r["depth"], "mc_ops": nops}


def run_part(ctx, prop):
    """Runs the Conn-level part for C11, C06 or C17 and returns a coverage dict."""
    tier, seed = ctx.tier, ctx.seed
    cov = {"engine": "connmux"}
    cov.update(model_check(ctx, prop, tier))
    ctx.log("ConnMux MC ok: %d distinct states" % cov["states"])
    if prop == "C11":
        scripts = c11_scripts(tier)
    elif prop == "C06":
        scripts = c06_scripts(seed, 200 if tier == "quick" else 3000)
    else:
        probes = c17_probe_scripts(tier)
        ptr = run_scripts(ctx, probes, "probe")
        lens = {}
        for s, t in zip(probes, ptr):
            for e in t:
                if e.get("ev") == "reply" and e.get("o") == 1:
                    lens[s["id"]] = e["len"]
        scripts = c17_scripts(tier, lens, seed) + c17_concurrent_scripts(tier)
        cov["cut_points"] = len(scripts)
        cov["frames"] = lens
    traces = run_scripts(ctx, scripts, "main")
    checked = monitor(ctx, scripts, traces, PROP_INVS[prop])
    accepted, divs = conformance(ctx, traces)
    cov.update({"traces_validated_against_impl": accepted, "traces_monitored": checked, "scenarios": len(scripts),
                "trace_events": sum(len(t) for t in traces), "divergence_count": len(divs), "divergences": divs[:10],
                "invariants": PROP_INVS[prop],
                "samples": [{"script": scripts[0]}, {"script": scripts[len(scripts) // 2]}, {"trace_tail": traces[-1][-8:]}]})
    if divs:
        ctx.notes.append("DIVERGENCE: %d trace(s) of the real Conn are not behaviours of ConnMux.tla" % len(divs))
        print("DIVERGENCE property=%s traces=%d first=%s" % (prop, len(divs), json.dumps(divs[0])[:300]), flush=True)
    return cov


def run(ctx):
    return run_part(ctx, ctx.prop)


def replay(ctx, path):
    from engines import replayer
    return replayer.replay(ctx, path)
