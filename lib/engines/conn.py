"""Engine E4: one kafka.Conn shared by several operations (C11; Conn parts of C06 and C17)."""
import json, os, random, re
from vlib import Inconclusive, read_ndjson, write_ndjson, split_traces

ENGINE = "connmux"
PROPS = {"C11": "model_checking"}

PROP_INVS = {
    "C11": ["C11_NextAsFresh", "C11_KafkaErrKeepsOpen", "C11_ErrorReported", "C11_FailedStaysFailed", "C11_NoSpuriousNoProgress",
            "C11_TransportErrorCloses", "C11_StallIsError", "C11_WrongIdIsError", "C11_FragmentsAsWhole", "C17_NoPanicNoHang"],
    "C06": ["C06_OwnResponse", "C06_UniqueIds", "C06_SharedBuffersClean", "C17_NoPanicNoHang"],
    "C17": ["C17_CutIsError", "C17_NoPanicNoHang", "C11_FailedStaysFailed", "C06_OwnResponse", "C11_TransportErrorCloses"],
}
MC_INVS = {
    "C11": (["C11_OtherErrCloses", "C11_NeverMisaligned", "C11_NoSpuriousNoProgress"], ["C11_KafkaErrKeeps", "C11_ClosedStaysFailed"]),
    "C06": (["C06_OwnResponse"], []),
    "C17": (["C17_CutIsError", "C11_OtherErrCloses"], ["C11_ClosedStaysFailed"]),
}
CODES_ALL = [6, 1, 19, 3, 29, 10]
VERS = {"produce": 7, "fetch": 10, "metadata": 6, "createtopics": 2, "deletetopics": 1}


def vers(**kw):
    v = dict(VERS)
    v.update(kw)
    return v


def op1_variants():
    out = []
    for k, arg in (("lastOffset", 0), ("firstOffset", 0), ("offsetAt", 4)):
        out.append((k, arg, "partition", vers(), "listoffsets-v1"))
    for mv in (1, 6):
        out.append(("partitionsOwn", 0, "topic", vers(metadata=mv), "metadata-v%d-topic" % mv))
        out.append(("partitionsOwn", 0, "metapartition", vers(metadata=mv), "metadata-v%d-partition" % mv))
    for pv in (2, 3, 7):
        out.append(("produce", 0, "partition", vers(produce=pv), "produce-v%d" % pv))
    for fv in (2, 5, 10):
        out.append(("fetch", 2, "partition", vers(fetch=fv), "fetch-v%d" % fv))
    for cv in (0, 1, 2):
        out.append(("createTopics", 0, "topic", vers(createtopics=cv), "createtopics-v%d" % cv))
    for dv in (0, 1):
        out.append(("deleteTopics", 0, "topic", vers(deletetopics=dv), "deletetopics-v%d" % dv))
    out.append(("apiVersions", 0, "top", vers(), "apiversions-v0"))
    return out


OP2 = [("offsetAt", 5), ("partitions", 3), ("lastOffset", 0), ("produce", 0), ("fetch", 2), ("brokers", 0)]


def c11_scripts(tier):
    codes = [6, 3] if tier == "quick" else CODES_ALL
    op2s = OP2[:4] if tier == "quick" else OP2
    out = []
    for (k1, a1, field, vs, tag) in op1_variants():
        for code in codes:
            if k1 == "createTopics" and code == 36:
                continue
            for (k2, a2) in op2s:
                if k1 == k2 and k1 in ("produce", "fetch"):
                    pass
                fld = "partition" if field == "metapartition" else field
                sid = "c11-%s-e%d-%s%d" % (tag, code, k2, a2)
                ops = [{"o": 1, "g": 1, "kind": k1, "arg": a1, "fault": {"err": code, "field": fld, "report": field != "metapartition"}},
                       {"o": 2, "g": 1, "kind": k2, "arg": a2}]
                if k1 == k2:
                    # the same request signature twice: the fault applies to the first only, give the second its own arg
                    continue
                out.append({"id": sid, "kind": "c11", "versions": vs, "ops": ops, "report": field != "metapartition"})
    # the response stalls in the middle (after the size and correlation id were read) until the deadline expires,
    # then the rest arrives: the operation fails and the Conn is not used again
    for (k1, a1, field, vs, tag) in op1_variants():
        for stall in (8, 9, 14, 30, 100000):
            for (k2, a2), sl in (((("offsetAt", 5)), 0), (("partitions", 3), 250), (("lastOffset", 0), 250)):
                if k1 == k2:
                    continue
                out.append({"id": "c11-stall-%s-b%d-%s-s%d" % (tag, stall, k2, sl), "kind": "c11", "versions": vs, "report": False, "ops": [
                    {"o": 1, "g": 1, "kind": k1, "arg": a1, "deadlineMs": 40, "fault": {"stall": stall, "stallMs": 200}},
                    {"o": 2, "g": 1, "kind": k2, "arg": a2, "sleepMs": sl},
                    {"o": 3, "g": 1, "kind": "brokers", "arg": 0}]})
    # part of a fetch response left unread on purpose: the Conn stays usable and the next operation behaves as on a fresh one
    for fv in (2, 5, 10):
        for k1 in ("fetchShort", "fetchPartial", "fetchClose2"):
            for (k2, a2) in op2s:
                if k2 in ("fetch", "produce"):      # (a produced record would change what the probing fetch must return)
                    continue
                out.append({"id": "c11-%s-v%d-%s%d" % (k1, fv, k2, a2), "kind": "c11", "versions": vers(fetch=fv), "report": False, "ops": [
                    {"o": 1, "g": 1, "kind": k1, "arg": 2}, {"o": 2, "g": 1, "kind": k2, "arg": a2}, {"o": 3, "g": 1, "kind": "fetch", "arg": 5}]})
    # the same on compressed data: the batch is left while a decompressed message set is only partly consumed and more
    # batches follow in the response
    for codec in (1, 2, 3, 4):
        for fv in (2, 10):
            for k1 in ("fetchShort", "fetchPartial", "fetchClose2"):
                out.append({"id": "c11-%s-c%d-v%d" % (k1, codec, fv), "kind": "c11", "versions": vers(fetch=fv), "report": False, "codec": codec, "ops": [
                    {"o": 1, "g": 1, "kind": k1, "arg": 0}, {"o": 2, "g": 1, "kind": "lastOffset", "arg": 0}, {"o": 3, "g": 1, "kind": "fetch", "arg": 5}]})
    # an answer carrying a foreign correlation id (framing error): this and every later operation fail, none hangs
    for (k1, a1, field, vs, tag) in op1_variants():
        for delta in (1, 1000, -1):
            out.append({"id": "c11-wrongid-%s-d%d" % (tag, delta), "kind": "c11", "versions": vs, "report": False, "ops": [
                {"o": 1, "g": 1, "kind": k1, "arg": a1, "fault": {"corr": delta}}, {"o": 2, "g": 1, "kind": "offsetAt", "arg": 5},
                {"o": 3, "g": 1, "kind": "partitions", "arg": 3}]})
    # two broker errors in a row, then a probe
    for (k1, a1, field, vs, tag) in op1_variants():
        if k1 in ("produce", "fetch", "lastOffset"):
            out.append({"id": "c11-double-%s" % tag, "kind": "c11", "versions": vs, "report": True, "ops": [
                {"o": 1, "g": 1, "kind": k1, "arg": a1, "fault": {"err": 6, "field": "partition", "report": True}},
                {"o": 2, "g": 1, "kind": "offsetAt", "arg": 7, "fault": {"err": 3, "field": "partition", "report": True}},
                {"o": 3, "g": 1, "kind": "partitions", "arg": 2}]})
    # the response-level error code of Fetch v7+ (the Conn negotiates v10): empty topic array behind it, or partition data
    for code in codes:
        for fld in ("top", "top+data"):
            for (k2, a2) in op2s:
                if k2 not in ("fetch", "produce"):
                    out.append({"id": "c11-fetch-v10-%s-e%d-%s%d" % (fld.replace("+", ""), code, k2, a2), "kind": "c11", "versions": vers(fetch=10), "report": True, "ops": [
                        {"o": 1, "g": 1, "kind": "fetch", "arg": 2, "fault": {"err": code, "field": fld, "report": True}},
                        {"o": 2, "g": 1, "kind": k2, "arg": a2}, {"o": 3, "g": 1, "kind": "fetch", "arg": 4}]})
    return out


# --- fragmented fetch responses ------------------------------------------------------------------------------------------
# Records whose fields need varints of two and three bytes (the default data has one-byte lengths only): lengths of
# records / keys / values / header keys / header values >= 64 and >= 8192, header counts >= 64, offset deltas >= 64 and
# >= 8192 (a compacted log; the timestamps follow the offsets, so their deltas take three and four bytes), null keys and
# values next to them.  One list per batch; a record is (offset, key length, value length[, headers, header key length,
# header value length]); -1 = null.
def _recs(*bs):
    return [[dict(zip(("off", "k", "v", "hn", "hk", "hv"), r)) for r in b] for b in bs]


SHAPES = {
    "v70": _recs([(0, -1, 70), (1, 2, 100)]),
    "k70": _recs([(0, 70, 5), (1, 64, -1), (2, 130, 63)]),
    "gap": _recs([(0, 2, 5), (70, 2, 5), (71, 2, 64), (9000, 2, 5)], [(9001, 3, 3), (9100, 3, 3)]),
    "hdr": _recs([(0, 2, 5, 2, 70, 200), (1, 2, 5, 70, 1, 1), (2, 1, 1, 1, 3, -1)]),
    "mix": _recs([(0, 5, 63), (1, 64, 64), (2, -1, 200), (3, 3, 7)], [(4, 3, 127), (5, 3, 128), (6, 200, 3), (7, 3, 300)],
                 [(8, 1, 1), (9, 70, 70), (10, 2, 2), (11, 2, 90)]),
    "v9k": _recs([(0, 2, 9000), (1, 2, 70)], [(2, 9, 8200), (3, 8200, 70, 1, 3, 8300)]),
}
SMALL = ("v70", "k70", "gap", "hdr")
FETCH_HDR = {2: 41, 5: 61, 10: 67}   # frame bytes before the record set (topic "t"): the record area starts here
PROBES2 = [("lastOffset", 0), ("offsetAt", 5), ("partitions", 3), ("firstOffset", 0)]


def frag_id(shape, codec, fv):
    return "c11fragprobe-%s-c%d-v%d" % (shape, codec, fv)


def c11_fragment_probe_scripts(tier):
    out = []
    for shape in SHAPES:
        for codec in (0, 1, 2, 3, 4):
            for fv in (2, 5, 10):
                out.append({"id": frag_id(shape, codec, fv), "kind": "c17", "versions": vers(fetch=fv), "codec": codec, "report": False,
                            "data": SHAPES[shape], "ops": [{"o": 1, "g": 1, "kind": "fetch", "arg": 0}]})
    return out


def c11_fragment_scripts(tier, seed, lens):
    """Fetch responses that arrive complete but in pieces, then the probe "the next operation behaves as on a fresh
    connection" -- by the same goroutine, and by a second one whose request is pipelined behind the fragmented response."""
    rng = random.Random(seed * 7919 + 11)
    quick = tier == "quick"
    out = []
    n = [0]

    def add(shape, codec, fv, fault, tag, k1="fetch", arg=0, pipelined=False):
        n[0] += 1
        k2, a2 = PROBES2[n[0] % len(PROBES2)]
        sid = "c11-frag-%s-c%d-v%d-%s%s%s" % (shape, codec, fv, tag, "" if k1 == "fetch" and arg == 0 else "-%s%d" % (k1, arg), "-pipe" if pipelined else "")
        base = {"id": sid, "versions": vers(fetch=fv), "codec": codec, "report": False, "data": SHAPES[shape]}
        if pipelined:
            f = dict(fault)
            f["holdRest"] = True
            base.update({"kind": "c11p", "ops": [{"o": 1, "g": 1, "kind": k1, "arg": arg, "fault": f},
                                                 {"o": 2, "g": 2, "kind": k2, "arg": a2, "afterPiece": 1},
                                                 {"o": 3, "g": 1, "kind": "brokers", "arg": 0}]})
        else:
            base.update({"kind": "c11", "ops": [{"o": 1, "g": 1, "kind": k1, "arg": arg, "fault": dict(fault)},
                                                {"o": 2, "g": 1, "kind": k2, "arg": a2},
                                                {"o": 3, "g": 1, "kind": "fetch", "arg": 0}]})
        for op in base["ops"]:
            # nothing here is meant to time out: a deadline far beyond any scheduling delay of a loaded machine (the
            # baseline on a fresh connection runs under the same one)
            op["deadlineMs"] = 3000
        out.append(base)

    for shape in SHAPES:
        for codec in (0, 1, 2, 3, 4):
            for fv in (2, 5, 10):
                total = lens.get(frag_id(shape, codec, fv))
                if not total:
                    continue
                start = FETCH_HDR[fv]
                area = list(range(start, total))
                small = shape in SMALL and codec == 0
                lead = fv == 10 or (fv == 2 and codec in (2, 4))      # quick: the other versions get a thin sample
                # one split.  thorough: every position of the record area of the small uncompressed responses, a seeded
                # sample of the others; quick: every position for one of them, seeded samples
                if not quick:
                    ks = area if small else sorted(rng.sample(area, min(len(area), 200 if codec == 0 else 30)))
                elif shape == "v70" and codec == 0 and fv == 10:
                    ks = area
                elif codec == 0:
                    ks = sorted(rng.sample(area, (20 if small else 8) if fv == 10 else 6))
                else:
                    ks = sorted(rng.sample(area, 2 if lead else 0))
                for j, k in enumerate(ks):
                    add(shape, codec, fv, {"splits": [k]}, "k%d" % k)
                    if (not quick and small and j % 2 == 0) or j % 4 == 1:
                        add(shape, codec, fv, {"splits": [k]}, "k%d" % k, pipelined=True)
                if quick and not lead:
                    continue
                # several splits; the whole record area (or the whole frame) in pieces of 1, 2, 3, ... bytes
                for r in range((2 if codec == 0 else 1) if quick else 6):
                    sp = sorted(rng.sample(area, min(len(area), rng.choice((2, 3, 5)))))
                    add(shape, codec, fv, {"splits": sp}, "s" + "_".join(map(str, sp)), pipelined=(r % 2 == 1))
                pieces = ((1, start), (2, start), (3, start + 1), (7, 0)) if total < 1500 else ((37, start), (1000, 0), (4096, 8), (4095, start + 2))
                for j, (pc, frm) in enumerate(pieces):
                    if quick and codec != 0 and j % 2 == 1:
                        continue
                    add(shape, codec, fv, {"piece": pc, "from": frm}, "p%df%d" % (pc, frm), pipelined=(j % 2 == 1 and codec == 0))
                # the batch left early (short buffer, one message, closed twice) and a fetch from inside the first batch
                if not quick or (codec == 0 and fv == 10):
                    for j, (k1, arg) in enumerate((("fetchPartial", 0), ("fetchShort", 0), ("fetchClose2", 0), ("fetch", 1))):
                        k = rng.choice(area)
                        add(shape, codec, fv, {"splits": [k]}, "k%d" % k, k1=k1, arg=arg, pipelined=(j == 3))
                        add(shape, codec, fv, {"piece": 1 if total < 1500 else 61, "from": start}, "p1", k1=k1, arg=arg)
    return out


def c06_scripts(seed, n):
    rng = random.Random(seed * 104729 + 7)
    out = []
    for k in range(n):
        ops = []
        o = 0
        used = set()
        ng = rng.randint(2, 5)
        with_produce = rng.random() < 0.3
        for g in range(1, ng + 1):
            for _ in range(rng.randint(1, 3)):
                while True:
                    if with_produce:
                        kind = rng.choice(["offsetAt", "partitions", "brokers", "produce", "offsetAt", "partitions"])
                    else:
                        kind = rng.choice(["offsetAt", "partitions", "brokers", "lastOffset", "firstOffset", "fetch", "offsetAt", "partitions", "controller"])
                    arg = 0
                    if kind == "offsetAt":
                        arg = rng.randrange(12)
                    elif kind == "partitions":
                        arg = rng.randint(1, 6)
                    elif kind == "fetch":
                        arg = rng.randrange(11)
                    key = (kind, arg) if kind in ("offsetAt", "partitions") else (kind,)
                    if key in used:
                        continue
                    used.add(key)
                    break
                o += 1
                op = {"o": o, "g": g, "kind": kind, "arg": arg}
                r = rng.random()
                if r < 0.25:
                    op["fault"] = {"delayMs": rng.choice([2, 5, 15, 30])}
                elif r < 0.45:
                    op["fault"] = {"chunks": [rng.randint(1, 9) for _ in range(rng.randint(1, 4))]}
                elif r < 0.55:
                    op["fault"] = {"delayMs": 3, "chunks": [4, 4, rng.randint(1, 20)]}
                ops.append(op)
        # at most one hard fault per script
        r = rng.random()
        if r < 0.2:
            v = rng.choice(ops)
            v["fault"] = {"delayMs": 400}
            v["deadlineMs"] = 40
        elif r < 0.35:
            v = rng.choice(ops)
            v["fault"] = {"cut": rng.randint(0, 40)}
        elif r < 0.45:
            v = rng.choice([x for x in ops if x["kind"] in ("offsetAt", "lastOffset", "firstOffset", "fetch", "produce")] or ops)
            if v["kind"] in ("offsetAt", "lastOffset", "firstOffset", "fetch", "produce"):
                v["fault"] = {"err": rng.choice([6, 3, 1]), "field": "partition"}
        out.append({"id": "c06-%d-%d" % (seed, k), "kind": "c06", "versions": vers(produce=rng.choice([2, 3, 7]), fetch=rng.choice([2, 5, 10]), metadata=rng.choice([1, 6])),
                    "ops": ops, "report": False, "codec": rng.choice([0, 0, 1, 2, 3, 4])})
    # recycled buffers: a Batch closed twice, then two Conns reading compressed batches at the same time (every codec, fetch versions)
    for codec in (1, 2, 3, 4):
        for fv in (10, 5):
            out.append({"id": "c06-pool-c%d-v%d" % (codec, fv), "kind": "pool", "versions": vers(fetch=fv), "ops": [], "report": False, "codec": codec})
    # writers queueing up: one caller stays inside doRequest (write lock held) while the others arrive, so that
    # several are blocked on the write lock at once; answers are delayed differently
    for k in range(max(4, n // 8)):
        ng = rng.randint(3, 6)
        ops = [{"o": 1, "g": 1, "kind": "offsetAt", "arg": 11, "holdReqMs": rng.choice([20, 40])}]
        args = rng.sample(range(0, 11), ng)
        for g in range(2, ng + 1):
            kind = rng.choice(["offsetAt", "offsetAt", "partitions"])
            op = {"o": g, "g": g, "kind": kind, "arg": args[g - 2] if kind == "offsetAt" else (g % 6) + 1, "sleepMs": rng.choice([3, 5, 8])}
            if rng.random() < 0.5:
                op["fault"] = {"delayMs": rng.choice([2, 10, 25])}
            ops.append(op)
        out.append({"id": "c06-queue-%d-%d" % (seed, k), "kind": "c06", "versions": vers(metadata=rng.choice([1, 6])), "ops": ops, "report": False, "codec": 0})
    return out


REORDER_MIXES = {
    2: [(("firstOffset", 0), ("lastOffset", 0)), (("offsetAt", 3), ("offsetAt", 7)), (("lastOffset", 0), ("partitions", 3)),
        (("fetch", 2), ("lastOffset", 0)), (("partitions", 2), ("partitions", 5)), (("offsetAt", 9), ("fetch", 4))],
    3: [(("firstOffset", 0), ("lastOffset", 0), ("offsetAt", 5)), (("offsetAt", 2), ("partitions", 4), ("fetch", 3)),
        (("partitions", 1), ("partitions", 4), ("partitions", 6)), (("fetch", 1), ("offsetAt", 5), ("offsetAt", 8))],
}
# (one fetch per scenario at most: a Conn has ONE read position -- Seek / Batch.Close of a second goroutine move it and
# Batch.ReadMessage skips messages below it, so two goroutines fetching from different offsets through one Conn is not a
# use the library supports; that is not a matter of who gets which response)


def c06_reorder_scripts(tier):
    """No fault, a pure interleaving: k goroutines share the Conn, their requests reach the broker one after the other, and
    the broker answers them in every order; each goroutine's Write of its request either returns at once or is parked (the
    bytes are with the broker, the call has not returned) until the broker has answered what it can and the waiting
    goroutines have looked at the response stream.  Requests of different kinds and of the same kind with distinguishable
    answers.  Each call must get the answer to its own request, or an error."""
    import itertools
    out = []
    for k in (2, 3):
        mixes = REORDER_MIXES[k]
        n = 0
        for order in itertools.permutations(range(1, k + 1)):
            for holds in itertools.product((False, True), repeat=k):
                n += 1
                for mi, mix in enumerate(mixes):
                    if tier == "quick" and k == 3 and (mi + n) % 2:
                        continue
                    ops = []
                    for g in range(1, k + 1):
                        op = {"o": g, "g": g, "kind": mix[g - 1][0], "arg": mix[g - 1][1], "deadlineMs": 3000}
                        if g > 1:
                            op["afterReq"] = g - 1
                        if holds[g - 1]:
                            op["holdWrite"] = True
                        ops.append(op)
                    out.append({"id": "c06-reorder-g%d-m%d-a%s-h%s" % (k, mi, "".join(map(str, order)), "".join("1" if h else "0" for h in holds)),
                                "kind": "c06", "versions": vers(metadata=(1, 6)[n % 2], fetch=(10, 5, 2)[n % 3]), "ops": ops, "report": False, "codec": 0,
                                "answerOrder": list(order)})
    return out


def c06_pool_poison_scripts(tier):
    """Recycled buffers again, the first step being a fetch whose FIRST message / batch header cannot be read, closed once
    (instead of a batch closed twice): the record set is n bytes long (the broker stopped at MaxBytes), the connection is
    lost n bytes into it, or the rest comes after the deadline -- for message sets v0 / v1 (headers of 18 / 26 bytes) and
    record batches (61 bytes).  Then two Conns read compressed batches side by side."""
    quick = tier == "quick"
    cases = []
    for magic, hdr in ((0, 18), (1, 26), (2, 61)):
        ns = range(1, hdr) if not quick else (list(range(1, 12)) + [hdr - 1] if magic < 2 else [1, 4, 8, 10, 12, 16, 17, 21, 33, 45, 57, 60])
        cases += [("trunc", n, magic) for n in ns]
        cases += [("cut", n, magic) for n in ((0, 1, 8, 12, 16, hdr - 1) if quick else range(0, hdr))]
        cases += [("stall", n, magic) for n in ((0, 10, hdr - 1) if quick else (0, 1, 8, 10, 12, 16, 17, hdr - 1))]
    out = []
    for i, (mode, n, magic) in enumerate(cases):
        for codec in ((1 + i % 4,) if quick else (1, 2, 3, 4)):
            fv = (10, 5, 2)[(i + codec) % 3]
            out.append({"id": "c06-pool-%s%d-m%d-c%d-v%d" % (mode, n, magic, codec, fv), "kind": "pool", "versions": vers(fetch=fv), "ops": [],
                        "report": False, "codec": codec, "poison": {"mode": mode, "n": n, "magic": magic}})
    return out


C17_OPS = [("lastOffset", 0, vers(), "listoffsets-v1"), ("partitions", 3, vers(metadata=1), "metadata-v1"), ("partitions", 3, vers(), "metadata-v6"),
           ("brokers", 0, vers(), "brokers-v1"), ("produce", 0, vers(produce=2), "produce-v2"), ("produce", 0, vers(produce=3), "produce-v3"),
           ("produce", 0, vers(), "produce-v7"), ("fetch", 3, vers(fetch=2), "fetch-v2"), ("fetch", 3, vers(fetch=5), "fetch-v5"), ("fetch", 3, vers(), "fetch-v10"),
           ("createTopics", 0, vers(), "createtopics-v2"), ("deleteTopics", 0, vers(), "deletetopics-v1"), ("controller", 0, vers(), "controller")]


# Fetch responses that carry an error code: the header parser stops at the code and the rest of the frame is skipped, so a
# connection lost inside that rest is a cut response like any other.  Partition-level codes under every fetch version the
# Conn negotiates; the response-level code of Fetch v7+ (v10 here) with an empty topic array and with the partition data
# left behind it (a longer tail).  (kind, arg, versions, tag, fault)
C17_ERR_OPS = [("fetch", 3, vers(fetch=fv), "fetch-v%d-perr%d" % (fv, code), {"err": code, "field": "partition"})
               for fv in (2, 5, 10) for code in (1, 6, 3)] + \
              [("fetch", 3, vers(fetch=10), "fetch-v10-toperr%d%s" % (code, "d" if field == "top+data" else ""), {"err": code, "field": field})
               for (code, field) in ((6, "top+data"), (1, "top+data"), (3, "top"), (1, "top"))]


def c17_probe_scripts(tier):
    out = []
    for (k, a, vs, tag) in C17_OPS:
        for codec in ([0] if k != "fetch" else ([0, 2] if tier == "quick" else [0, 1, 2, 3, 4])):
            out.append({"id": "c17probe-%s-c%d" % (tag, codec), "kind": "c17", "versions": vs, "codec": codec, "report": False,
                        "ops": [{"o": 1, "g": 1, "kind": k, "arg": a}]})
    for (k, a, vs, tag, fault) in C17_ERR_OPS:
        out.append({"id": "c17probe-%s-c0" % tag, "kind": "c17", "versions": vs, "codec": 0, "report": False,
                    "ops": [{"o": 1, "g": 1, "kind": k, "arg": a, "fault": dict(fault)}]})
    return out


def c17_scripts(tier, lens, seed):
    rng = random.Random(seed)
    out = []
    for (k, a, vs, tag) in C17_OPS:
        for codec in ([0] if k != "fetch" else ([0, 2] if tier == "quick" else [0, 1, 2, 3, 4])):
            flen = lens.get("c17probe-%s-c%d" % (tag, codec))
            if not flen:
                continue
            total = flen
            ks = list(range(0, total))
            if tier == "quick" and total > 140:
                # every position of the first 100 bytes, then a seeded sample of the rest (thorough takes all)
                ks = sorted(set(list(range(0, 100)) + rng.sample(range(100, total), min(60, total - 100)) + [total - 1]))
            for cut in ks:
                out.append({"id": "c17-%s-c%d-k%d" % (tag, codec, cut), "kind": "c17", "versions": vs, "codec": codec, "report": False,
                            "ops": [{"o": 1, "g": 1, "kind": k, "arg": a, "fault": {"cut": cut}},
                                    {"o": 2, "g": 1, "kind": "offsetAt", "arg": 6}]})
    # error-carrying fetch responses: every byte position (the frames are short), then what the Reader does after
    # OffsetOutOfRange (list offsets) or another operation
    n = 0
    for (k, a, vs, tag, fault) in C17_ERR_OPS:
        total = lens.get("c17probe-%s-c0" % tag)
        if not total:
            continue
        for cut in range(0, total):
            n += 1
            f = dict(fault)
            f["cut"] = cut
            k2, a2 = (("firstOffset", 0), ("lastOffset", 0), ("offsetAt", 6), ("partitions", 3))[n % 4]
            out.append({"id": "c17-%s-c0-k%d" % (tag, cut), "kind": "c17", "versions": vs, "codec": 0, "report": False,
                        "ops": [{"o": 1, "g": 1, "kind": k, "arg": a, "fault": f}, {"o": 2, "g": 1, "kind": k2, "arg": a2}]})
    return out


def c17_concurrent_scripts(tier):
    """Several requests in flight on one Conn when the connection is lost after k bytes of the first answer (k inside the size
    prefix, inside the correlation id, inside the body): every pending call returns an error, none stays blocked."""
    out = []
    cuts = list(range(0, 13)) + [16, 20, 30]
    for k in cuts:
        for ng in ((2, 3) if tier == "quick" else (2, 3, 4)):
            ops = [{"o": 1, "g": 1, "kind": "offsetAt", "arg": 1, "fault": {"cut": k, "delayMs": 40}}]
            for g in range(2, ng + 1):
                ops.append({"o": g, "g": g, "kind": ["partitions", "offsetAt", "lastOffset"][g % 3], "arg": g + 1, "sleepMs": 5})
            out.append({"id": "c17-conc-g%d-k%d" % (ng, k), "kind": "c06", "versions": vers(), "ops": ops, "report": False, "codec": 0})
    return out


def run_scripts(ctx, scripts, tag):
    ctx.vh_keep = getattr(ctx, "vh_keep", None) or ["writer.go", "conn.go"]
    sp = os.path.join(ctx.work, "cscripts-%s.ndjson" % tag)
    tp = os.path.join(ctx.work, "ctraces-%s.ndjson" % tag)
    write_ndjson(sp, scripts)
    # the recycled-buffer scenarios are run by themselves, one at a time on one P with the collector off: what sync.Pool hands
    # out is then a function of the scenario alone
    pool = [s for s in scripts if s.get("kind") == "pool"]
    rest = [s for s in scripts if s.get("kind") != "pool"]
    write_ndjson(sp, rest)
    p = ctx.run_vh(["conn", "-scripts", sp, "-out", tp, "-par", "24"], timeout=2400)
    if p.returncode != 0 and ("panic:" in p.stderr or "fatal error:" in p.stderr):
        traces = isolate(ctx, rest, tag, "conn", "a Conn")
    elif p.returncode != 0:
        raise Inconclusive("vh conn failed: " + p.stderr[-2000:])
    else:
        traces = split_traces(read_ndjson(tp))
    if pool:
        sp2, tp2 = sp + ".pool", tp + ".pool"
        write_ndjson(sp2, pool)
        p2 = ctx.run_vh(["conn", "-scripts", sp2, "-out", tp2, "-par", "1"], timeout=600, env={"GOMAXPROCS": "1", "GOGC": "off"})
        if p2.returncode != 0:
            raise Inconclusive("vh conn (pool scenarios) failed: " + p2.stderr[-2000:])
        traces += split_traces(read_ndjson(tp2))
    scripts[:] = rest + pool
    if len(traces) != len(scripts):
        raise Inconclusive("driver produced %d traces for %d scripts" % (len(traces), len(scripts)))
    return traces


def isolate(ctx, scripts, tag, sub, what):
    """Run every script in its own process; a script whose process dies with a panic of the library is a violation."""
    from concurrent.futures import ThreadPoolExecutor

    def one(k):
        sp = os.path.join(ctx.work, "iso-%s-%d.ndjson" % (tag, k))
        tp = os.path.join(ctx.work, "iso-%s-%d.t" % (tag, k))
        write_ndjson(sp, [scripts[k]])
        p = ctx.run_vh([sub, "-scripts", sp, "-out", tp, "-par", "1"], timeout=400)
        if p.returncode != 0:
            return k, None, p.stderr
        return k, read_ndjson(tp), ""

    with ThreadPoolExecutor(max_workers=16) as ex:
        res = list(ex.map(one, range(len(scripts))))
    keep_s, keep_t, died = [], [], 0
    for k, evs, err in res:
        if evs is not None:
            keep_s.append(scripts[k])
            keep_t.append(evs)
            continue
        if "panic:" not in err and "fatal error:" not in err:
            raise Inconclusive("vh %s failed on %s: %s" % (sub, scripts[k]["id"], err[-1500:]))
        died += 1
        first = [x for x in err.splitlines() if x.startswith("panic:") or x.startswith("fatal error:")][:1]
        if died <= 20:
            rep = ctx.save_replay("%s-panic" % scripts[k]["id"], [("script.json", json.dumps(scripts[k])), ("stderr.txt", err[-8000:])])
            ctx.violation("the library panicked while %s ran scenario %s: %s" % (what, scripts[k]["id"], first[0] if first else "panic"), rep,
                          key="panic scenario=%s %s" % (scripts[k]["id"], first[0] if first else ""))
    scripts[:] = keep_s
    return split_traces([e for t in keep_t for e in t])


def tid_of(out):
    m = re.findall(r'tid = "([^"]*)"', out)
    return m[-1] if m else None


def monitor(ctx, scripts, traces, invs, maxviol=40):
    d = ctx.specdir(ENGINE)
    cfg = "ConnMon_%s.cfg" % ctx.prop
    with open(os.path.join(d, cfg), "w") as f:
        f.write("SPECIFICATION Spec\nINVARIANTS " + " ".join(invs) + "\nPOSTCONDITION TraceAccepted\nCHECK_DEADLOCK FALSE\n")
    byid = {s["id"]: s for s in scripts}
    remaining = list(traces)
    checked = 0
    nviol = 0
    while remaining:
        tf = os.path.join(ctx.work, "cmon-in.ndjson")
        write_ndjson(tf, [e for t in remaining for e in t])
        r = ctx.tlc(ENGINE, "ConnMon", cfg, workers=1, timeout=1800, env={"TRACE": tf})
        if r["violated"]:
            tid = tid_of(r["out"])
            idx = next((i for i, t in enumerate(remaining) if t[0].get("id") == tid), None)
            if idx is None:
                raise Inconclusive("monitor reported %s but the trace could not be identified" % r["violated"])
            bad = remaining[idx]
            checked += idx + 1
            rep = ctx.save_replay("%s-%s" % (tid, r["violated"]), [
                ("script.json", json.dumps(byid.get(tid, {}))),
                ("trace.ndjson", "\n".join(json.dumps(e) for e in bad) + "\n"),
                ("tlc.txt", r["out"][-20000:])])
            ctx.violation("%s violated on a trace of the real Conn (scenario %s)" % (r["violated"], tid), rep,
                          key="%s scenario=%s" % (r["violated"], tid))
            nviol += 1
            remaining = remaining[idx + 1:]
            if nviol >= maxviol:
                ctx.notes.append("stopped after %d violations; %d traces not monitored" % (nviol, len(remaining)))
                break
            continue
        if r["postcondition_failed"] or r["error"] or r["timeout"]:
            raise Inconclusive("monitor run failed: " + (r["error"] or r["out"][-1500:]))
        checked += len(remaining)
        remaining = []
    return checked


def conformance(ctx, traces):
    divs = []
    remaining = list(traces)
    accepted = 0
    while remaining and len(divs) < 30:
        tf = os.path.join(ctx.work, "cconf-in.ndjson")
        write_ndjson(tf, [e for t in remaining for e in t])
        r = ctx.tlc(ENGINE, "ConnMuxTrace", "ConnMuxTrace.cfg", workers=1, timeout=1800, env={"TRACE": tf})
        if r["postcondition_failed"] or r["violated"]:
            m = re.search(r'"DIVERGED_AT_LINE",\s*(\d+)', r["out"])
            line = int(m.group(1)) if m else (r["depth"] or 1)
            n = 0
            for k, t in enumerate(remaining):
                if line <= n + len(t):
                    ev = t[line - n - 1] if 0 < line - n <= len(t) else {}
                    divs.append({"trace": t[0].get("id"), "event": ev})
                    accepted += k
                    remaining = remaining[k + 1:]
                    break
                n += len(t)
            else:
                raise Inconclusive("conformance failure could not be located")
            continue
        if r["error"] or r["timeout"]:
            raise Inconclusive("conformance run failed: " + (r["error"] or r["out"][-1500:]))
        accepted += len(remaining)
        remaining = []
    return accepted, divs


def model_check(ctx, prop, tier):
    d = ctx.specdir(ENGINE)
    invs, props = MC_INVS[prop]
    nops = "{1, 2, 3}" if tier == "quick" else "{1, 2, 3, 4}"
    cfg = "MC_%s.cfg" % prop
    with open(os.path.join(d, cfg), "w") as f:
        # the broker answers in any order for C06 ("every order and delay in which the broker answers"), in request order
        # for the checks that are not about who gets which response (state space as before)
        f.write("SPECIFICATION Spec\n%sCONSTANTS Ops = %s\n ConsumeAll = TRUE\n MaxCuts = 1\n MaxTimeouts = 1\n" % ("" if prop == "C06" else "CONSTANT AnswerInOrder <- Yes\n", nops))
        f.write("INVARIANTS TypeOK " + " ".join(invs) + "\n")
        if props:
            f.write("PROPERTIES " + " ".join(props) + "\n")
        f.write("CHECK_DEADLOCK FALSE\n")
    r = ctx.tlc(ENGINE, "ConnMux", cfg, workers=16, timeout=1500)
    if r["violated"] or r["error"] or r["timeout"]:
        raise Inconclusive("model checking of ConnMux.tla did not pass: " + r["out"][-2000:])
    # vacuity guard: the defect class "frame not consumed on a Kafka error" must be visible to the model
    if prop == "C11":
        with open(os.path.join(d, "MC_defect.cfg"), "w") as f:
            f.write("SPECIFICATION Spec\nCONSTANTS Ops = {1, 2, 3}\n ConsumeAll = FALSE\n MaxCuts = 1\n MaxTimeouts = 1\nINVARIANTS C11_NeverMisaligned\nCHECK_DEADLOCK FALSE\n")
        r2 = ctx.tlc(ENGINE, "ConnMux", "MC_defect.cfg", workers=8, timeout=300)
        if r2["violated"] != "C11_NeverMisaligned":
            raise Inconclusive("vacuity guard failed: the defective model was not rejected")
        # second guard (finding F20): io.ErrNoProgress without closing the connection lets a frame with a foreign
        # correlation id be taken later by the operation whose id it carries
        with open(os.path.join(d, "MC_defect2.cfg"), "w") as f:
            f.write("SPECIFICATION Spec\nCONSTANT CloseOnNoProgress <- NoCloseOnNoProgress\nCONSTANTS Ops = {1, 2, 3}\n ConsumeAll = TRUE\n MaxCuts = 0\n MaxTimeouts = 0\n"
                    "INVARIANTS C11_NoSpuriousNoProgress\nCHECK_DEADLOCK FALSE\n")
        r3 = ctx.tlc(ENGINE, "ConnMux", "MC_defect2.cfg", workers=8, timeout=300)
        if r3["violated"] != "C11_NoSpuriousNoProgress":
            raise Inconclusive("vacuity guard failed: the model without close-on-ErrNoProgress was not rejected")
    guards = {}
    if prop == "C06":
        # vacuity guard under out-of-order answers: a client that counts a caller as in flight only once it waits for its
        # response AND lets a sole counted waiter take whatever response comes next hands two calls each other's answers
        # as soon as the broker answers the later request first -- the model must reject it; each half alone is harmless
        def variant(name, subst, invs):
            with open(os.path.join(d, name), "w") as f:
                f.write("SPECIFICATION Spec\n" + "".join("CONSTANT %s <- Yes\n" % x for x in subst) +
                        "CONSTANTS Ops = {1, 2, 3}\n ConsumeAll = TRUE\n MaxCuts = 0\n MaxTimeouts = 0\nINVARIANTS %s\nCHECK_DEADLOCK FALSE\n" % invs)
            return ctx.tlc(ENGINE, "ConnMux", name, workers=8, timeout=600)
        r4 = variant("MC_defect3.cfg", ["EnterAtWait", "SoleWaiterTakes"], "C06_OwnResponse")
        if r4["violated"] != "C06_OwnResponse":
            raise Inconclusive("vacuity guard failed: the client whose sole waiter takes any response was not rejected: " + r4["out"][-800:])
        guards["sole_waiter_takes_any_rejected"] = True
        if tier != "quick":
            for half in ("EnterAtWait", "SoleWaiterTakes"):
                r5 = variant("MC_half_%s.cfg" % half, [half], "C06_OwnResponse")
                if r5["violated"] or r5["error"] or r5["timeout"]:
                    raise Inconclusive("the model with only %s does not satisfy C06_OwnResponse: %s" % (half, r5["out"][-800:]))
                guards["only_%s_holds" % half] = r5["distinct"]
    return {"states": r["distinct"], "transitions": r["generated"], "mc_depth": r["depth"], "mc_ops": nops, "mc_guards": guards,
            "mc_answer_order": "any" if prop == "C06" else "request order"}


def run_part(ctx, prop):
    """Runs the Conn-level part for C11, C06 or C17 and returns a coverage dict."""
    tier, seed = ctx.tier, ctx.seed
    cov = {"engine": "connmux"}
    cov.update(model_check(ctx, prop, tier))
    ctx.log("ConnMux MC ok: %d distinct states" % cov["states"])
    if prop == "C11":
        probes = c11_fragment_probe_scripts(tier)
        ptr = run_scripts(ctx, probes, "fragprobe")
        lens = {}
        for sc, t in zip(probes, ptr):
            for e in t:
                if e.get("ev") == "reply" and e.get("o") == 1:
                    lens[sc["id"]] = e["len"]
        frag = c11_fragment_scripts(tier, seed, lens)
        scripts = c11_scripts(tier) + frag
        cov["fragmented_fetch_scenarios"] = len(frag)
        cov["fragmented_fetch_pipelined"] = sum(1 for x in frag if x["kind"] == "c11p")
        cov["fragmented_fetch_shapes"] = {k: [[(r["off"], r["k"], r["v"]) + ((r["hn"], r["hk"], r["hv"]) if "hn" in r else ()) for r in b] for b in v] for k, v in SHAPES.items()}
        cov["fragmented_fetch_frames"] = {k[len("c11fragprobe-"):]: v for k, v in lens.items()}
    elif prop == "C06":
        scripts = c06_scripts(seed, 200 if tier == "quick" else 3000) + c06_reorder_scripts(tier) + c06_pool_poison_scripts(tier)
        cov["reorder_scenarios"] = sum(1 for x in scripts if x.get("answerOrder"))
        cov["pool_scenarios"] = sum(1 for x in scripts if x.get("kind") == "pool")
    else:
        probes = c17_probe_scripts(tier)
        ptr = run_scripts(ctx, probes, "probe")
        lens = {}
        for s, t in zip(probes, ptr):
            for e in t:
                if e.get("ev") == "reply" and e.get("o") == 1:
                    lens[s["id"]] = e["len"]
        scripts = c17_scripts(tier, lens, seed) + c17_concurrent_scripts(tier)
        cov["cut_points"] = len(scripts)
        cov["error_response_cut_points"] = sum(1 for x in scripts if x["ops"][0].get("fault", {}).get("err"))
        cov["frames"] = lens
    traces = run_scripts(ctx, scripts, "main")
    checked = monitor(ctx, scripts, traces, PROP_INVS[prop])
    accepted, divs = conformance(ctx, traces)
    cov.update({"traces_validated_against_impl": accepted, "traces_monitored": checked, "scenarios": len(scripts),
                "trace_events": sum(len(t) for t in traces), "divergence_count": len(divs), "divergences": divs[:10],
                "invariants": PROP_INVS[prop],
                "samples": [{"script": scripts[0]}, {"script": scripts[len(scripts) // 2]}, {"trace_tail": traces[-1][-8:]}]})
    if prop == "C11" and frag:
        pick = [x for x in frag if x["data"] is SHAPES["v70"]]
        cov["samples"] += [{"script": pick[len(pick) // 3]}, {"script": [x for x in pick if x["kind"] == "c11p"][0]}]
    if divs:
        ctx.notes.append("DIVERGENCE: %d trace(s) of the real Conn are not behaviours of ConnMux.tla" % len(divs))
        print("DIVERGENCE property=%s traces=%d first=%s" % (prop, len(divs), json.dumps(divs[0])[:300]), flush=True)
    return cov


def run(ctx):
    return run_part(ctx, ctx.prop)


def replay(ctx, path):
    from engines import replayer
    return replayer.replay(ctx, path)
