"""Engine E1: kafka.Writer (C01, C07, C08, Writer part of C09)."""
import json, os, random, re
from vlib import Inconclusive, read_ndjson, write_ndjson, split_traces

ENGINE = "writer"
PROPS = {"C01": "model_checking", "C07": "model_checking", "C08": "model_checking"}

PROP_INVS = {
    "C01": ["C01_NilMeansAcked", "C01_ErrorsExact", "C01_CompletionOnce", "C01_CompletionEvery", "C01_NoStrayWrites", "C01_DupOnlyFromLostAck"],
    "C07": ["C07_Order", "C07_OrderInRequest"],
    "C08": ["C08_Limits", "C08_RejectedUnsent", "C08_RejectedExactly"],
    "C09": ["C09w_AfterClose", "C09w_CloseMeansDrained", "C09w_AttemptsBounded"],
}
MON_EXTRA = {  # invariants that exist only on recorded traces (watchdog observations)
    "C07": ["C07_SingleSender"],
    "C08": ["C08_NoStuckCall", "C08_SingleTP"],
    "C09": ["C09w_CloseReturns"],
}
PROP_ACTION_PROPS = {"C09": ["C09w_QuietAfterClose"]}
MON_ACTION_PROPS = {"C09": ["C09w_QuietAfterCloseT"]}
LIVENESS = {"C08": ["L_Flush", "L_CallsReturn"], "C09": ["L_Close", "L_CallsReturn"]}

OUTCOMES = [("ok", 55), ("ackLost", 10), ("rejTemp", 10), ("rejPerm", 5), ("netTransient", 5), ("netOther", 3),
            ("appliedTimeout", 4), ("appliedNetOther", 3), ("rejTemp2", 3), ("netRefused", 2), ("rejUnknown", 3), ("rejPerm2", 2)]


def pick_outcome(rng):
    tot = sum(w for _, w in OUTCOMES)
    x = rng.uniform(0, tot)
    for k, w in OUTCOMES:
        x -= w
        if x <= 0:
            return k
    return "ok"


def gen_script(rng, sid):
    multi = rng.random() < 0.3
    bb = rng.choice([120, 160, 200])
    cfg = {"batchSize": rng.choice([1, 2, 2, 3, 4]), "batchBytes": bb, "maxAttempts": rng.choice([1, 2, 3]),
           "acked": rng.random() < 0.9, "async": rng.random() < 0.25,
           "topic": "" if multi else "t",
           "nparts": {"t": rng.randint(1, 3), "u": rng.randint(1, 2)} if multi else {"t": rng.randint(1, 3)},
           "batchTimeoutMs": rng.choice([4, 10, 25]), "compression": rng.choice([0, 0, 0, 1, 2, 3, 4])}
    ngor = rng.randint(1, 3)
    percall = []
    cid = 0
    per_g = {}
    for g in range(1, ngor + 1):
        for _ in range(rng.randint(1, 3)):
            cid += 1
            msgs = []
            for _ in range(rng.choice([1, 1, 2, 2, 3, 4])):
                sz = rng.choice([40, 40, 80, 80, 120, bb, bb - 1])
                if rng.random() < 0.03:
                    sz = bb + 1
                topic = (rng.choice(list(cfg["nparts"])) if multi else "")
                if rng.random() < 0.02:
                    topic = "" if multi else "t"        # topic conflict
                if multi and rng.random() < 0.02:
                    topic = "nosuch"
                t = topic if topic else "t"
                m = {"sz": sz, "topic": topic, "p": rng.randrange(cfg["nparts"].get(t, 1))}
                if rng.random() < 0.2 and sz >= 80:
                    m["hv"] = rng.choice([10, 30, sz - 45])       # part of the size is a record header
                msgs.append(m)
            if rng.random() < 0.03:
                msgs = []
            per_g.setdefault(g, []).append({"op": "call", "c": cid, "g": g, "msgs": msgs,
                                            "cancellable": rng.random() < 0.25})
    # interleave goroutines keeping each goroutine's order
    order = []
    queues = {g: list(v) for g, v in per_g.items()}
    while queues:
        g = rng.choice(list(queues))
        order.append(queues[g].pop(0))
        if not queues[g]:
            del queues[g]
    steps = []
    pending_cancel = []
    gate_mode = rng.random() < 0.35
    closed = False
    for st in order:
        r = rng.random()
        if r < 0.3:
            steps.append({"op": "sleep", "ms": rng.choice([1, 2, cfg["batchTimeoutMs"], cfg["batchTimeoutMs"] + 3])})
        gate = None
        if gate_mode and st["msgs"] and rng.random() < 0.5:
            i = rng.randint(1, len(st["msgs"]))
            gate = "bal:%d:%d" % (st["c"], i)
            steps.append({"op": "hold", "gate": gate})
        steps.append(st)
        if gate:
            steps.append({"op": "waitgate", "gate": gate})
            what = rng.random()
            if what < 0.45 and not closed:
                steps.append({"op": "close"})
                closed = True
                steps.append({"op": "sleep", "ms": rng.choice([2, 10])})
            elif what < 0.7:
                steps.append({"op": "sleep", "ms": cfg["batchTimeoutMs"] + 5})
            steps.append({"op": "release", "gate": gate})
        if st["cancellable"]:
            pending_cancel.append(st["c"])
        if pending_cancel and rng.random() < 0.5:
            c = pending_cancel.pop(0)
            if rng.random() < 0.5:
                steps.append({"op": "sleep", "ms": rng.choice([1, 3, cfg["batchTimeoutMs"]])})
            steps.append({"op": "cancel", "c": c})
        if not closed and rng.random() < 0.12:
            steps.append({"op": "close"})
            closed = True
    for c in pending_cancel:
        if rng.random() < 0.6:
            steps.append({"op": "sleep", "ms": rng.choice([1, cfg["batchTimeoutMs"] + 2])})
            steps.append({"op": "cancel", "c": c})
    outcomes = {}
    for t, n in cfg["nparts"].items():
        for p in range(n):
            outcomes["%s/%d" % (t, p)] = [pick_outcome(rng) for _ in range(rng.randint(0, 8))]
    # gates on produce attempts / completion callbacks: hold one while the script goes on
    if rng.random() < 0.25:
        t = rng.choice(list(cfg["nparts"]))
        g = "prod:%s/%d:%d" % (t, rng.randrange(cfg["nparts"][t]), rng.randint(0, 1))
        pos = rng.randint(0, len(steps))
        steps.insert(0, {"op": "hold", "gate": g})
        steps.insert(min(pos + 1, len(steps)), {"op": "waitgate", "gate": g})
        steps.append({"op": "sleep", "ms": rng.choice([3, cfg["batchTimeoutMs"] + 5])})
        if not closed and rng.random() < 0.5:
            steps.append({"op": "close"})
            steps.append({"op": "sleep", "ms": 5})
        steps.append({"op": "release", "gate": g})
    if cfg["acked"] and rng.random() < 0.4:
        cfg["requireAll"] = True
    return {"id": sid, "cfg": cfg, "steps": steps, "outcomes": outcomes}


def directed_scripts():
    """Corner cases found by reading the model's state graph / earlier counterexamples."""
    base = {"batchSize": 2, "batchBytes": 120, "maxAttempts": 2, "acked": True, "async": False, "topic": "t",
            "nparts": {"t": 2}, "batchTimeoutMs": 10, "compression": 0}
    M = lambda sz, p=0, topic="": {"sz": sz, "topic": topic, "p": p}
    out = []
    # D1 (finding F1): a call that entered before Close reaches batchMessages after Close emptied the writer table
    out.append({"id": "D1-close-vs-late-batch", "cfg": base, "outcomes": {}, "steps": [
        {"op": "hold", "gate": "bal:1:1"}, {"op": "call", "c": 1, "g": 1, "msgs": [M(40)]},
        {"op": "waitgate", "gate": "bal:1:1"}, {"op": "close"}, {"op": "sleep", "ms": 30},
        {"op": "release", "gate": "bal:1:1"}]})
    # D2: same with an open batch of another call flushed by Close
    out.append({"id": "D2-close-flushes-open-batch", "cfg": dict(base, batchTimeoutMs=200), "outcomes": {"t/0": ["ackLost"]}, "steps": [
        {"op": "call", "c": 1, "g": 1, "msgs": [M(40)]}, {"op": "sleep", "ms": 5},
        {"op": "hold", "gate": "bal:2:1"}, {"op": "call", "c": 2, "g": 2, "msgs": [M(40)]},
        {"op": "waitgate", "gate": "bal:2:1"}, {"op": "close"}, {"op": "sleep", "ms": 20},
        {"op": "release", "gate": "bal:2:1"}]})
    # D3: batch k fails retriably while batch k+1 is queued behind it (C07)
    out.append({"id": "D3-retry-with-queued-successor", "cfg": dict(base, batchSize=1, maxAttempts=3, nparts={"t": 1}),
                "outcomes": {"t/0": ["ackLost", "rejTemp", "ok", "ok", "ok"]}, "steps": [
        {"op": "hold", "gate": "prod:t/0:0"},
        {"op": "call", "c": 1, "g": 1, "msgs": [M(40), M(40), M(40)]}, {"op": "waitgate", "gate": "prod:t/0:0"},
        {"op": "call", "c": 2, "g": 2, "msgs": [M(40)]}, {"op": "sleep", "ms": 5}, {"op": "release", "gate": "prod:t/0:0"}]})
    # D4: timer flush racing the size flush: second message arrives right at BatchTimeout
    for k, ms in enumerate([8, 9, 10, 11, 12]):
        out.append({"id": "D4-timer-vs-full-%d" % k, "cfg": dict(base, nparts={"t": 1}), "outcomes": {"t/0": ["ok", "ackLost", "ok"]}, "steps": [
            {"op": "call", "c": 1, "g": 1, "msgs": [M(40)]}, {"op": "sleep", "ms": ms},
            {"op": "call", "c": 2, "g": 2, "msgs": [M(40)]}, {"op": "call", "c": 3, "g": 3, "msgs": [M(80), M(80)]}]})
    # D5: sizes exactly at the limits, overflow by bytes, too large, topic conflict
    out.append({"id": "D5-limits", "cfg": dict(base, batchSize=3, nparts={"t": 1}), "outcomes": {}, "steps": [
        {"op": "call", "c": 1, "g": 1, "msgs": [M(80), M(40), M(120), M(40), M(40), M(40), M(41)]},
        {"op": "call", "c": 2, "g": 2, "msgs": [M(40), M(121)]},
        {"op": "call", "c": 3, "g": 3, "msgs": [M(40), M(40, 0, "t")]},
        {"op": "call", "c": 4, "g": 4, "msgs": []}]})
    # D5h: the same sizes, but most of each message is a record header
    H = lambda sz, hv: {"sz": sz, "topic": "", "p": 0, "hv": hv}
    out.append({"id": "D5h-limits-headers", "cfg": dict(base, batchSize=10, batchBytes=200, nparts={"t": 1}), "outcomes": {}, "steps": [
        {"op": "call", "c": 1, "g": 1, "msgs": [H(100, 60), H(100, 60), H(100, 60), H(100, 60), H(100, 60), H(100, 60)]},
        {"op": "call", "c": 2, "g": 2, "msgs": [H(100, 55), M(40), H(100, 50), M(60), H(200, 150), H(201, 150)]}]})
    # D6: cancellation while the batch is in flight, then completion still delivered once
    out.append({"id": "D6-cancel-inflight", "cfg": dict(base, nparts={"t": 1}), "outcomes": {"t/0": ["rejTemp", "ok"]}, "steps": [
        {"op": "hold", "gate": "prod:t/0:0"}, {"op": "call", "c": 1, "g": 1, "msgs": [M(40), M(40)], "cancellable": True},
        {"op": "waitgate", "gate": "prod:t/0:0"}, {"op": "cancel", "c": 1}, {"op": "waitcall", "c": 1},
        {"op": "call", "c": 2, "g": 1, "msgs": [M(40)]}, {"op": "release", "gate": "prod:t/0:0"}]})
    # D7: Close while a retry back-off is pending and a Completion callback is blocked
    out.append({"id": "D7-close-during-retry", "cfg": dict(base, maxAttempts=3, nparts={"t": 1}),
                "outcomes": {"t/0": ["netTransient", "appliedTimeout", "ok"]}, "steps": [
        {"op": "hold", "gate": "comp:1:1"}, {"op": "call", "c": 1, "g": 1, "msgs": [M(40), M(40)]}, {"op": "sleep", "ms": 2},
        {"op": "close"}, {"op": "sleep", "ms": 30}, {"op": "release", "gate": "comp:1:1"}]})
    # D8: asynchronous writer, no acks, message-level topics, several partitions
    out.append({"id": "D8-async-noack", "cfg": dict(base, topic="", nparts={"t": 2, "u": 1}, acked=False), "outcomes": {"t/0": ["netTransient", "ok"]},
                "steps": [{"op": "call", "c": 1, "g": 1, "msgs": [M(40, 0, "t"), M(40, 1, "t"), M(40, 0, "u")]},
                          {"op": "call", "c": 2, "g": 1, "msgs": [M(40, 0, "t"), M(40, 0, "u")]}]})
    out[-1]["cfg"]["async"] = True
    # D9: the timer hand-over of an open batch is delayed at the entry of batchQueue.Put while the same goroutine
    # submits messages that fill the next batch: detaching and enqueueing must be one step (C07, anchors: "batches
    # are queued only while they are the current batch, under the partition mutex")
    for k, (asyn, second) in enumerate([(True, [M(40), M(40)]), (True, [M(40), M(40), M(40)]), (False, [M(40), M(40)])]):
        g2 = 1 if asyn else 2
        out.append({"id": "D9-timer-handover-%d" % k, "cfg": dict(base, nparts={"t": 1}, batchTimeoutMs=15), "outcomes": {}, "steps": [
            {"op": "hold", "gate": "bqput:1"}, {"op": "call", "c": 1, "g": 1, "msgs": [M(40)]},
            {"op": "waitgate", "gate": "bqput:1"}, {"op": "call", "c": 2, "g": g2, "msgs": second},
            {"op": "sleep", "ms": 40}, {"op": "release", "gate": "bqput:1"}, {"op": "sleep", "ms": 40}]})
        out[-1]["cfg"]["async"] = asyn
    # D10: same for the hand-over done by Close (pw.close) and by a full batch
    out.append({"id": "D10-close-handover", "cfg": dict(base, nparts={"t": 1}, batchTimeoutMs=500), "outcomes": {}, "steps": [
        {"op": "hold", "gate": "bqput:1"}, {"op": "call", "c": 1, "g": 1, "msgs": [M(40)]}, {"op": "sleep", "ms": 5},
        {"op": "close"}, {"op": "waitgate", "gate": "bqput:1"}, {"op": "call", "c": 2, "g": 1, "msgs": [M(40), M(40)]},
        {"op": "sleep", "ms": 30}, {"op": "release", "gate": "bqput:1"}, {"op": "sleep", "ms": 40}]})
    out[-1]["cfg"]["async"] = True
    out.append({"id": "D10-full-handover", "cfg": dict(base, nparts={"t": 1}, batchTimeoutMs=500), "outcomes": {}, "steps": [
        {"op": "hold", "gate": "bqput:1"}, {"op": "call", "c": 1, "g": 1, "msgs": [M(40), M(40), M(40)]},
        {"op": "waitgate", "gate": "bqput:1"}, {"op": "call", "c": 2, "g": 2, "msgs": [M(40)]},
        {"op": "sleep", "ms": 30}, {"op": "release", "gate": "bqput:1"}, {"op": "sleep", "ms": 40}]})
    out[-1]["cfg"]["async"] = True
    # D12: first use of a partition by several goroutines at once: the creation of the partition writer is held (hook pw.new,
    # inside newPartitionWriter) while the others arrive; one writer per partition, per-goroutine order kept
    for k, n in enumerate([2, 3]):
        steps = [{"op": "hold", "gate": "hook:pw.new"}, {"op": "call", "c": 1, "g": 1, "msgs": [M(40)]}, {"op": "waitgate", "gate": "hook:pw.new"}]
        for g in range(2, n + 1):
            steps.append({"op": "call", "c": g, "g": g, "msgs": [M(40)]})
        steps += [{"op": "sleep", "ms": 30}, {"op": "release", "gate": "hook:pw.new"}]
        for g in range(1, n + 1):
            steps.append({"op": "call", "c": 10 + g, "g": g, "msgs": [M(40), M(40)]})
        steps.append({"op": "sleep", "ms": 60})
        out.append({"id": "D12-first-use-%d" % k, "cfg": dict(base, nparts={"t": 1}, batchSize=1, batchTimeoutMs=10), "outcomes": {}, "steps": steps})
    # D13: batches that reach BatchBytes exactly (one message of exactly BatchBytes; several that sum to it) are full: they are sent
    # without waiting for the batch timer (60 s here) or for further writes
    for k, msgs in enumerate([[M(120)], [M(60), M(60)], [M(40), M(40), M(40)], [M(120), M(60), M(60)]]):
        for asyn in (False, True):
            out.append({"id": "D13-exactly-full-%d-%s" % (k, "a" if asyn else "s"), "cfg": dict(base, batchSize=10, batchBytes=120, nparts={"t": 1}, batchTimeoutMs=60000),
                        "outcomes": {}, "steps": [{"op": "call", "c": 1, "g": 1, "msgs": msgs}] + ([{"op": "sleep", "ms": 300}, {"op": "close"}, {"op": "waitclose"}] if asyn else [])})
            # (synchronous variant: no Close in the script -- the call must return by itself; the end of the script records a call
            # that is still blocked when the watchdog expires)
            out[-1]["cfg"]["async"] = asyn
    # D14: BatchBytes left at its zero value means the default of 1 MiB: a larger message is rejected before anything of the call is sent
    out.append({"id": "D14-default-batchbytes", "cfg": dict(base, batchSize=10, batchBytes=0, nparts={"t": 1}, batchTimeoutMs=10), "outcomes": {}, "steps": [
        {"op": "call", "c": 1, "g": 1, "msgs": [M(40), M(1048577), M(40)]}, {"op": "waitcall", "c": 1},
        {"op": "call", "c": 2, "g": 1, "msgs": [M(1048576), M(40)]}, {"op": "waitcall", "c": 2}]})
    # D11: a BatchTimeout far beyond the scenario (size-only batching): batches closed by the overflow path, by
    # becoming full and by Close; Close and the calls must not wait for any batch timer (C09), and a batch opened
    # after an overflow is still closed by its own timer (C08, short timeout variant)
    for k, bt in enumerate([60000, 25]):
        for j, (asyn, msgs) in enumerate([(False, [M(80), M(80)]), (True, [M(80), M(80), M(30)]), (False, [M(60), M(60), M(60), M(60)])]):
            steps = [{"op": "call", "c": 1, "g": 1, "msgs": msgs}, {"op": "sleep", "ms": 60}]
            if bt > 1000:
                steps += [{"op": "close"}, {"op": "waitclose"}]
            else:
                steps += [{"op": "waitcall", "c": 1}, {"op": "sleep", "ms": 100}]
            out.append({"id": "D11-overflow-%d-%d" % (k, j), "cfg": dict(base, batchSize=10, batchBytes=120, nparts={"t": 1}, batchTimeoutMs=bt),
                        "outcomes": {}, "steps": steps})
            out[-1]["cfg"]["async"] = asyn
    # the scenarios with scripted failures once more with RequiredAcks = RequireAll (-1)
    for sc in list(out):
        if sc["cfg"]["acked"] and any(sc["outcomes"].values()):
            c2 = json.loads(json.dumps(sc))
            c2["id"] += "-acksall"
            c2["cfg"]["requireAll"] = True
            out.append(c2)
    return out


# The Writer's WriteTimeout in real-transport scenarios.  It only has to expire where the script says so (ackNever: the broker never
# answers).  It must NOT expire on an acknowledged request: the broker-side record "the complete acknowledgement was put on the wire"
# would then be followed by a legitimate retry, which the monitor would read as a duplicate without a lost acknowledgement.  150 ms
# did expire on a machine with a load average of 50 (one false alarm observed); 1200 ms leaves room for scheduling stalls.
REAL_WRITE_TIMEOUT_MS = 1200
REAL_KINDS = ["ok", "ok", "ackLost", "ackCut", "ackNever", "rejTemp", "rejTemp2", "rejPerm", "netTransient", "rejUnknown", "rejPerm2"]


def real_script(rng, sid, pv=None, cuts=None):
    """The Writer on a kafka.Transport against the fake cluster (cfg.net = "real"): the outcome table is applied on the wire."""
    pv = pv or rng.choice([2, 3, 7, 7])
    nparts = {"t": rng.randint(1, 2)}
    cfg = {"batchSize": rng.choice([1, 2, 3]), "batchBytes": rng.choice([120, 400, 100000]), "maxAttempts": rng.choice([1, 2, 3, 4]), "acked": True,
           "async": rng.random() < 0.25, "topic": "t", "nparts": nparts,   # (acked only: without acknowledgements the broker's side is asynchronous to the client) "batchTimeoutMs": rng.choice([5, 15]),
           "compression": rng.choice([0, 0, 1, 2, 3, 4]) if pv >= 3 else rng.choice([0, 0, 1, 2]), "net": "real", "produceVersion": pv, "writeTimeoutMs": REAL_WRITE_TIMEOUT_MS}
    outcomes = {}
    for p in range(nparts["t"]):
        seq = []
        for _ in range(rng.randint(0, 5)):
            k = rng.choice(REAL_KINDS)
            if k == "ackCut":
                k = "ackCut@%d" % (cuts.pop() if cuts else rng.randint(0, 70))
            seq.append(k)
        outcomes["t/%d" % p] = seq
    steps, c = [], 0
    for g in range(1, rng.randint(1, 3) + 1):
        for _ in range(rng.randint(1, 3)):
            c += 1
            msgs = []
            for _ in range(rng.randint(1, 4)):
                m = {"sz": rng.choice([40, 60, 100]), "topic": "", "p": rng.randrange(nparts["t"])}
                if pv >= 3 and rng.random() < 0.2:
                    m["sz"], m["hv"] = 100, rng.choice([10, 40])
                msgs.append(m)
            steps.append({"op": "call", "c": c, "g": g, "msgs": msgs})
            if rng.random() < 0.3:
                steps.append({"op": "sleep", "ms": rng.choice([2, 20])})
    for k in range(1, c + 1):
        steps.append({"op": "waitcall", "c": k})
    if rng.random() < 0.3:
        steps.append({"op": "close"})
    if rng.random() < 0.4:
        cfg["requireAll"] = True
    return {"id": sid, "cfg": cfg, "steps": steps, "outcomes": outcomes}


def real_scripts(seed, n):
    rng = random.Random(seed * 2750159 + 5)
    out = []
    # the acknowledgement cut at every byte position, per produce version (C17: the Writer continues on a new connection)
    for pv in (2, 3, 7):
        cuts = list(range(0, 64))
        k = 0
        while cuts:
            sc = real_script(rng, "W-cut-v%d-%d" % (pv, k), pv=pv, cuts=cuts)
            # make sure a cut is actually planned in each of these
            if not any(o.startswith("ackCut") for seq in sc["outcomes"].values() for o in seq):
                sc["outcomes"]["t/0"] = ["ackCut@%d" % cuts.pop()] + sc["outcomes"]["t/0"]
            sc["cfg"]["acked"] = True
            sc["cfg"]["maxAttempts"] = max(2, sc["cfg"]["maxAttempts"])
            out.append(sc)
            k += 1
    # the broker stops reading one connection (receive window closed) right after an acknowledged request: the next produce request
    # stalls in its WRITE phase until the attempt times out, is retried on a new connection, later batches follow; then the stalled
    # connection drains.  Nothing of the abandoned request may reach the log any more (C07: no copy of an earlier batch after a later one)
    for pv in (2, 3, 7):
        for nlater in (1, 2):
            steps = [{"op": "hold", "gate": "unstall:t/0"}]
            for c in range(1, 3 + nlater):
                steps += [{"op": "call", "c": c, "g": 1, "msgs": [{"sz": 40, "topic": "", "p": 0}]}, {"op": "waitcall", "c": c}]
            steps += [{"op": "sleep", "ms": 50}, {"op": "release", "gate": "unstall:t/0"}, {"op": "sleep", "ms": 300}]
            out.append({"id": "W-write-stall-v%d-%d" % (pv, nlater), "outcomes": {"t/0": ["okStall"]}, "steps": steps,
                        "cfg": {"batchSize": 1, "batchBytes": 100000, "maxAttempts": 3, "acked": True, "async": False, "topic": "t", "nparts": {"t": 1},
                                "batchTimeoutMs": 5, "compression": 0, "net": "real", "produceVersion": pv, "writeTimeoutMs": 600}})
    return out + [real_script(rng, "W%d-%d" % (seed, k)) for k in range(n)]


def derive_retriable(trace):
    """Real-transport traces do not know beforehand whether the Writer will treat a failed attempt as retriable (that is
    decided by the error the real Transport surfaces).  For the conformance pass the field is filled from what the
    Writer then did: another attempt of the same batch => retriable; batch completed with attempts left => not."""
    cfg = trace[0]
    idx = [k for k, e in enumerate(trace) if e.get("ev") == "produce"]
    count = {}
    for k in idx:
        e = trace[k]
        key = json.dumps([e["tp"], e["msgs"]])
        count[key] = count.get(key, 0) + 1
        if e["ok"]:
            e["retriable"] = False
            continue
        again = any(x.get("ev") == "produce" and x["tp"] == e["tp"] and x["msgs"] == e["msgs"] for x in trace[k + 1:])
        e["retriable"] = True if again else count[key] >= cfg.get("maxAttempts", 1)
    return trace


def gen_scripts(seed, n):
    rng = random.Random(seed * 7919 + 13)
    return directed_scripts() + [gen_script(rng, "R%d-%d" % (seed, k)) for k in range(n)]


def mon_cfg(ctx, d, invs, props):
    path = os.path.join(d, "WriterMon_%s.cfg" % ctx.prop)
    with open(path, "w") as f:
        f.write("SPECIFICATION Spec\nINVARIANTS\n  " + "\n  ".join(invs) + "\n")
        if props:
            f.write("PROPERTIES " + " ".join(props) + "\n")
        f.write("POSTCONDITION TraceAccepted\nCHECK_DEADLOCK FALSE\n")
    return os.path.basename(path)


def mc_cfg(ctx, d, name, configset, invs, props, spec="MCSpec"):
    path = os.path.join(d, name)
    with open(path, "w") as f:
        f.write("SPECIFICATION %s\nCONSTANT ConfigSet <- %s\n" % (spec, configset))
        if invs:
            f.write("INVARIANTS TypeOK Internal_OpenNotFull\n  " + "\n  ".join(invs) + "\n")
        if props:
            f.write("PROPERTIES " + " ".join(props) + "\n")
        f.write("CHECK_DEADLOCK FALSE\n")
    return name


def tid_of(out):
    m = re.findall(r'tid = "([^"]*)"', out)
    return m[-1] if m else None


def run_scripts(ctx, scripts, tag, par=24):
    ctx.vh_keep = getattr(ctx, "vh_keep", None) or ["writer.go", "conn.go"]
    sp = os.path.join(ctx.work, "wscripts-%s.ndjson" % tag)
    tp = os.path.join(ctx.work, "wtraces-%s.ndjson" % tag)
    write_ndjson(sp, scripts)
    p = ctx.run_vh(["writer", "-scripts", sp, "-out", tp, "-par", str(par)], timeout=1500)
    if p.returncode != 0 and ("panic:" in p.stderr or "fatal error:" in p.stderr):
        # a panic in a goroutine of the library kills the driver: find the scripts that cause it
        return isolate(ctx, scripts, tag)
    if p.returncode != 0:
        raise Inconclusive("vh writer failed: " + p.stderr[-2000:])
    traces = split_traces(read_ndjson(tp))
    if len(traces) != len(scripts):
        raise Inconclusive("driver produced %d traces for %d scripts" % (len(traces), len(scripts)))
    return traces


def isolate(ctx, scripts, tag):
    """Run every script in its own process; a script whose process dies with a panic is a violation (the Writer takes
    the program down instead of reporting an outcome). Returns the traces of the surviving scripts."""
    from concurrent.futures import ThreadPoolExecutor

    def one(k):
        sp = os.path.join(ctx.work, "wiso-%s-%d.ndjson" % (tag, k))
        tp = os.path.join(ctx.work, "wiso-%s-%d.t" % (tag, k))
        write_ndjson(sp, [scripts[k]])
        p = ctx.run_vh(["writer", "-scripts", sp, "-out", tp, "-par", "1"], timeout=300)
        if p.returncode != 0:
            return k, None, p.stderr
        return k, read_ndjson(tp), ""

    with ThreadPoolExecutor(max_workers=16) as ex:
        res = list(ex.map(one, range(len(scripts))))
    traces, died = [], 0
    for k, evs, err in res:
        if evs is not None:
            traces.append(evs)
            continue
        if "panic:" not in err and "fatal error:" not in err:
            raise Inconclusive("vh writer failed on %s: %s" % (scripts[k]["id"], err[-1500:]))
        died += 1
        first = [x for x in err.splitlines() if x.startswith("panic:") or x.startswith("fatal error:")][:1]
        if died <= 20:
            rep = ctx.save_replay("%s-panic" % scripts[k]["id"], [("script.json", json.dumps(scripts[k])), ("stderr.txt", err[-8000:])])
            ctx.violation("the library panicked while the Writer ran script %s: %s" % (scripts[k]["id"], first[0] if first else "panic"), rep,
                          key="panic script=%s %s" % (scripts[k]["id"], first[0] if first else ""))
        c = scripts[k]["cfg"]
        traces.append([{"ev": "cfg", "id": scripts[k]["id"], "batchSize": c["batchSize"], "batchBytes": c["batchBytes"], "maxAttempts": c["maxAttempts"],
                        "acked": c["acked"], "async": c["async"], "topic": c["topic"], "nparts": c["nparts"], "died": True}])
    return traces


def monitor(ctx, scripts, traces, invs, props):
    """Evaluate the property invariants on every recorded trace. Returns number of traces checked."""
    d = ctx.specdir(ENGINE)
    cfg = mon_cfg(ctx, d, invs, props)
    byid = {s["id"]: s for s in scripts}
    remaining = list(traces)
    checked = 0
    for _round in range(25):
        if not remaining:
            break
        tf = os.path.join(ctx.work, "mon-in.ndjson")
        write_ndjson(tf, [e for t in remaining for e in t])
        r = ctx.tlc(ENGINE, "WriterMon", cfg, workers=1, timeout=900, env={"TRACE": tf})
        if r["violated"]:
            tid = tid_of(r["out"])
            bad = [t for t in remaining if t[0].get("id") == tid]
            if not bad:
                raise Inconclusive("monitor reported %s but the trace could not be identified" % r["violated"])
            idx = remaining.index(bad[0])
            checked += idx + 1
            rep = ctx.save_replay("%s-%s" % (tid, r["violated"]), [
                ("script.json", json.dumps(byid.get(tid, {}))),
                ("trace.ndjson", "\n".join(json.dumps(e) for e in bad[0]) + "\n"),
                ("tlc.txt", r["out"][-20000:])])
            ctx.violation("%s violated on a trace of the real Writer (script %s)" % (r["violated"], tid), rep,
                          key="%s script=%s" % (r["violated"], tid))
            remaining = remaining[idx + 1:]
            continue
        if r["postcondition_failed"] or r["error"] or r["timeout"]:
            raise Inconclusive("monitor run failed: " + (r["error"] or r["out"][-1500:]))
        checked += len(remaining)
        remaining = []
    return checked


def conformance(ctx, traces):
    """Validate traces against the actions of Writer.tla; returns (accepted, divergences)."""
    divs = []
    remaining = list(traces)
    accepted = 0
    for _round in range(6):
        if not remaining:
            break
        tf = os.path.join(ctx.work, "conf-in.ndjson")
        write_ndjson(tf, [e for t in remaining for e in t])
        r = ctx.tlc(ENGINE, "WriterTrace", "WriterTrace.cfg", workers=1, timeout=900, env={"TRACE": tf})
        if r["postcondition_failed"] or r["violated"]:
            m = re.search(r'"DIVERGED_AT_LINE",\s*(\d+)', r["out"])
            line = int(m.group(1)) if m else (r["depth"] or 1)
            # map the line to a trace
            n = 0
            for k, t in enumerate(remaining):
                if line <= n + len(t):
                    ev = t[line - n - 1] if 0 < line - n <= len(t) else {}
                    divs.append({"trace": t[0].get("id"), "event": ev, "why": r["violated"] or "no spec action matches"})
                    accepted += k
                    remaining = remaining[k + 1:]
                    break
                n += len(t)
            else:
                raise Inconclusive("conformance failure could not be located")
            continue
        if r["error"] or r["timeout"]:
            raise Inconclusive("conformance run failed: " + (r["error"] or r["out"][-1500:]))
        accepted += len(remaining)
        remaining = []
    return accepted, divs


def offered_part(ctx):
    """C13, Writer side: the partition lists a Writer supplies to its Balancer (scripted and real transport), for topics of
    different sizes used one after the other in one process (the lists are cached process-wide)."""
    rng = random.Random(ctx.seed * 613 + 1)
    scripts = []
    sizes = [1, 2, 3, 5, 8, 13, 2, 6, 1, 130, 4, 129]
    for k, n in enumerate(sizes if ctx.tier == "quick" else sizes * 6):
        for net in ("", "real"):
            topics = {"t": n} if k % 3 else {"t": n, "u": 1 + (n * 7) % 11}
            msgs = []
            for t, np in sorted(topics.items()):
                msgs += [{"sz": 40, "topic": t, "p": p} for p in sorted({0, np - 1, rng.randrange(np), rng.randrange(np)})]
            cfg = {"batchSize": 50, "batchBytes": 100000, "maxAttempts": 1, "acked": True, "async": False, "topic": "", "nparts": topics,
                   "batchTimeoutMs": 5, "compression": 0}
            if net:
                cfg.update(net="real", produceVersion=7, writeTimeoutMs=2000)
            scripts.append({"id": "O%d-%s%d" % (k, net[:1], n), "cfg": cfg, "outcomes": {}, "steps": [{"op": "call", "c": 1, "g": 1, "msgs": msgs}, {"op": "waitcall", "c": 1}]})
    traces = run_scripts(ctx, scripts, "offered", par=1)      # one after the other: the order of cache growth is the scripts' order
    checked = monitor(ctx, scripts, traces, ["C13w_OfferedAll", "C01_NoStrayWrites", "C01_NilMeansAcked"], [])
    nb = sum(1 for t in traces for e in t if e.get("ev") == "balance")
    ctx.log("writer-supplied partition lists: %d scenarios, %d Balance calls" % (len(scripts), nb))
    return {"scenarios": len(scripts), "traces_monitored": checked, "balance_calls": nb, "partition_counts": sorted(set(sizes))}


def real_part(ctx, invs, aprops, cuts):
    """Writer -> kafka.Transport -> in-memory network -> fake cluster; cuts=True: only the family that cuts the
    acknowledgement at every byte (C17), else the seeded scenarios plus a sample of that family."""
    n = 40 if ctx.tier == "quick" else 600
    allsc = real_scripts(ctx.seed, n)
    cutsc = [s for s in allsc if s["id"].startswith("W-cut-") or s["id"].startswith("W-write-stall")]
    if cuts:
        scripts = cutsc
    else:
        scripts = [s for s in allsc if s not in cutsc] + (cutsc[::8] if ctx.tier == "quick" else cutsc) + [s for s in cutsc if s["id"].startswith("W-write-stall")]
    scripts = list({s["id"]: s for s in scripts}.values())
    traces = [derive_retriable(t) for t in run_scripts(ctx, scripts, "real")]
    checked = monitor(ctx, scripts, traces, invs, aprops)
    accepted, divs = conformance(ctx, traces)
    kinds = {}
    for t in traces:
        for e in t:
            if e.get("ev") == "produce":
                k = "%s applied=%s acked=%s v%d" % (e["kind"], e["applied"], e["ok"], e.get("v", -1))
                kinds[k] = kinds.get(k, 0) + 1
    cutpos = sorted({e["cut"] for t in traces for e in t if e.get("ev") == "produce" and e.get("cut", -1) >= 0})
    ctx.log("real transport: %d scenarios, %d monitored, %d conform, %d diverge" % (len(scripts), checked, accepted, len(divs)))
    return {"scenarios": len(scripts), "traces_monitored": checked, "traces_validated_against_impl": accepted, "divergence_count": len(divs),
            "divergences_full": divs, "produce_outcomes": kinds, "ack_cut_positions": len(cutpos), "trace_events": sum(len(t) for t in traces)}


def run(ctx):
    prop, tier, seed = ctx.prop, ctx.tier, ctx.seed
    invs = PROP_INVS[prop]
    aprops = PROP_ACTION_PROPS.get(prop, [])
    d = ctx.specdir(ENGINE)
    cov = {"engine": "writer"}
    # 1. model checking
    cs = "ConfigsQuick" if tier == "quick" else "ConfigsFull"
    cfg = mc_cfg(ctx, d, "MC_%s.cfg" % prop, cs, invs, aprops)
    r = ctx.tlc(ENGINE, "MCWriter", cfg, workers=16, timeout=600 if tier == "quick" else 3000,
                extra=(["-coverage", "1"] if tier == "thorough" else None))
    if r["violated"] or r["error"] or r["timeout"]:
        raise Inconclusive("model checking of Writer.tla did not pass (%s): %s" % (r["violated"] or "error", r["out"][-2500:]))
    cov["states"], cov["transitions"], cov["mc_depth"] = r["distinct"], r["generated"], r["depth"]
    cov["mc_config"] = cs
    ctx.log("MC ok: %d distinct / %d generated states" % (r["distinct"], r["generated"]))
    live = LIVENESS.get(prop)
    if live:
        lcfg = mc_cfg(ctx, d, "LIVE_%s.cfg" % prop, "ConfigsLiveQuick" if tier == "quick" else "ConfigsLiveFull", [], live, spec="MCFairSpec")
        r2 = ctx.tlc(ENGINE, "MCWriter", lcfg, workers=16, timeout=900 if tier == "quick" else 3000)
        if r2["violated"] or r2["error"] or r2["timeout"]:
            raise Inconclusive("liveness checking of Writer.tla did not pass: " + r2["out"][-2500:])
        cov["liveness"] = {"formulas": live, "states": r2["distinct"], "transitions": r2["generated"]}
        ctx.log("liveness ok: %d distinct states" % r2["distinct"])
    # 2-4. scripts -> real Writer -> monitor + conformance
    n = 150 if tier == "quick" else 2500
    scripts = gen_scripts(seed, n)
    traces = run_scripts(ctx, scripts, "main")
    checked = monitor(ctx, scripts, traces, invs + MON_EXTRA.get(prop, []), MON_ACTION_PROPS.get(prop, []))
    accepted, divs = conformance(ctx, traces)
    extra_rounds = 0
    if divs and not ctx.violations:
        # the code left the specified behaviour: look harder for a property violation
        for k in range(1, 4):
            more = gen_scripts(seed + 1000 * k, n)
            tr = run_scripts(ctx, more, "extra%d" % k)
            checked += monitor(ctx, more, tr, invs + MON_EXTRA.get(prop, []), MON_ACTION_PROPS.get(prop, []))
            extra_rounds += 1
            if ctx.violations:
                break
    # 5. the same Writer on the real kafka.Transport against the fake cluster: the outcome table applied on the wire
    real = real_part(ctx, invs + MON_EXTRA.get(prop, []), MON_ACTION_PROPS.get(prop, []), cuts=False)
    cov["real_transport"] = real
    checked += real["traces_monitored"]
    accepted += real["traces_validated_against_impl"]
    divs += real.pop("divergences_full")
    nev = sum(len(t) for t in traces)
    cov.update({"traces_validated_against_impl": accepted, "traces_monitored": checked, "trace_events": nev,
                "scripts_generated": len(scripts), "divergences": divs[:10], "divergence_count": len(divs),
                "extra_rounds_after_divergence": extra_rounds,
                "samples": [{"script": scripts[0]}, {"script": scripts[-1]}, {"trace_head": traces[-1][:12]}],
                "invariants": invs + MON_EXTRA.get(prop, []) + aprops})
    if divs:
        ctx.notes.append("DIVERGENCE: %d trace(s) of the real Writer are not behaviours of Writer.tla" % len(divs))
        print("DIVERGENCE property=%s traces=%d first=%s" % (prop, len(divs), json.dumps(divs[0])[:400]), flush=True)
    return cov


def replay(ctx, path):
    from engines import replayer
    return replayer.replay(ctx, path)
