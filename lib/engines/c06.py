"""C06 is assembled from the Conn part (ConnMux) and the Transport part (added with engine E5)."""
from engines import conn, transport

PROPS = {"C06": "model_checking"}


def run(ctx):
    import os
    keep = ["conn.go", "writer.go"]
    if os.path.exists(os.path.join(os.path.dirname(__file__), "transport.py")):
        keep.append("transport.go")
    ctx.vh_keep = keep
    cov = conn.run_part(ctx, "C06")
    # concurrent RoundTrips on one Transport (cancellation, deadlines, connection drops, late answers on pooled connections)
    t = transport.run_part(ctx, "C06")
    cov["transport"] = {k: t.get(k) for k in t if k != "samples"}
    cov["traces_validated_against_impl"] = (cov.get("traces_validated_against_impl") or 0) + (t.get("traces_validated_against_impl") or 0)
    cov["states"] = (cov.get("states") or 0) + (t.get("states") or 0)
    cov["transitions"] = (cov.get("transitions") or 0) + (t.get("transitions") or 0)
    return cov


def replay(ctx, path):
    from engines import replayer
    return replayer.replay(ctx, path)
