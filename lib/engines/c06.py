"""C06 is assembled from the Conn part (ConnMux) and the Transport part (added with engine E5)."""
from engines import conn

PROPS = {"C06": "model_checking"}


def run(ctx):
    cov = conn.run_part(ctx, "C06")
    return cov
