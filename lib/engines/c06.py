"""C06 is assembled from the Conn part (ConnMux) and the Transport part (added with engine E5)."""
from engines import conn

PROPS = {"C06": "model_checking"}


def run(ctx):
    import os
    keep = ["conn.go", "writer.go"]
    if os.path.exists(os.path.join(os.path.dirname(__file__), "transport.py")):
        keep.append("transport.go")
    ctx.vh_keep = keep
    cov = conn.run_part(ctx, "C06")
    return cov
