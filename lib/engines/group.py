"""Engine E3: consumer groups -- ConsumerGroup/Generation life cycle (C15) and group Reader commits (C03);
also the reader/group part of C09."""
import json, os, random, re, time, threading
from vlib import Inconclusive, read_ndjson, write_ndjson, split_traces

ENGINE = "group"
PROPS = {"C03": "model_checking", "C15": "model_checking"}

PROP_INVS = {
    "C03": ["C03_CommitNotAhead", "C03_SyncAckRecorded", "C03_StartAtCommit", "C03_NoGapInStream", "C03_OnlyAssigned", "C03_StoredOnly", "C03_DeliveredReachesApp",
            "C03_DeliveredBeforeCovered", "C03_AtLeastOnce"],
    "C15": ["C15_NextWaits", "C15_CloseWaits", "C15_EndCauses", "C15_EndsOnCause", "C15_NoHeartbeatAfterEnd", "C15_HeartbeatInterval", "C15_LeaveOnClose",
            "C15_BackoffAfterFailedJoin"],
    "C09": ["C09r_QuietAfterClose", "C09r_CloseReturns", "C09r_AppReturns", "C09r_ConnsClosed", "C15_LeaveOnClose", "C15_CloseWaits", "C15_NextWaits"],
}
MC_INVS = ["TypeOK", "Accounting", "C15_OneLive", "C15_EndCauses", "C15_NoHeartbeatAfterEnd", "C15_LeaveOnClose", "C15_BackoffAfterFailedJoin"]
CODES = [27, 22, 25, 16, 15, -1]


def reader_script(rng, sid):
    ntopics = 1 if rng.random() < 0.75 else 2
    topics = {"t": rng.randint(1, 3)}
    if ntopics == 2:
        topics["u"] = rng.randint(1, 2)
    sync = rng.random() < 0.6
    sc = {"id": sid, "mode": "reader", "topics": topics, "records": rng.randint(3, 8),
          "startOffset": -2 if rng.random() < 0.85 else -1, "commitIntervalMs": 0 if sync else rng.choice([20, 40]),
          "heartbeatMs": rng.choice([20, 30]), "backoffMs": 60, "watch": False, "drain": False, "steps": []}
    if rng.random() < 0.4:
        sc["offsetFetchOrder"] = "reverse"     # the coordinator need not answer OffsetFetch in request order
    steps = sc["steps"]
    live = []
    nm = 0
    mode = lambda: rng.choice(["sync", "sync", "read", "none", "last"]) if sync else rng.choice(["async", "async", "read", "none"])
    for _ in range(rng.randint(3, 9)):
        r = rng.random()
        if (r < 0.3 and nm < 3) or not live:
            nm += 1
            steps.append({"op": "start", "m": nm})
            live.append(nm)
            # injected coordinator errors for the new member's first calls
            if rng.random() < 0.35:
                steps.insert(len(steps) - 1, {"op": "inject", "m": nm, "api": rng.choice(["join", "sync", "offsetfetch", "findcoordinator"]),
                                              "nth": rng.randint(1, 2), "code": rng.choice(CODES)})
        elif r < 0.65:
            m = rng.choice(live)
            c = mode()
            st = {"op": "fetch", "m": m, "n": rng.randint(1, 5), "commit": "none" if c == "last" else c, "wait": rng.random() < 0.6}
            steps.append(st)
            if c == "last":
                steps.append({"op": "waitapp", "m": m})
                steps.append({"op": "commitlast", "m": m})
        elif r < 0.72:
            steps.append({"op": "rebalance"})
        elif r < 0.8 and len(live) > 1:
            m = rng.choice(live)
            live.remove(m)
            steps.append({"op": "waitapp", "m": m})
            steps.append({"op": "stop", "m": m})
        elif r < 0.86 and live:
            m = rng.choice(live)
            steps.append({"op": "inject", "m": m, "api": rng.choice(["heartbeat", "offsetcommit", "heartbeat"]), "nth": 0, "code": rng.choice(CODES)})
        elif r < 0.9 and live:
            m = rng.choice(live)
            steps.append({"op": "evict", "m": m})
        elif r < 0.95:
            t = rng.choice(list(topics))
            steps.append({"op": "append", "t": t, "p": rng.randrange(topics[t]), "n": rng.randint(1, 3)})
        else:
            steps.append({"op": "sleep", "ms": rng.choice([10, 50, 120])})
    # drain with the live members: everything stored is eventually delivered to someone
    if sc["startOffset"] == -2 and live:
        for m in live:
            steps.append({"op": "waitapp", "m": m})
        steps.append({"op": "sleep", "ms": 300})
        for _round in range(2):
            for m in live:
                steps.append({"op": "fetch", "m": m, "n": 60, "commit": "sync" if sync else "async", "wait": True})
        sc["drain"] = True
    return sc


def cg_script(rng, sid):
    sc = {"id": sid, "mode": "cg", "topics": {"t": rng.randint(1, 2)}, "records": 3, "startOffset": -2, "commitIntervalMs": 0,
          "heartbeatMs": rng.choice([20, 30]), "backoffMs": rng.choice([60, 100]), "watch": rng.random() < 0.3, "drain": False, "steps": []}
    steps = sc["steps"]
    nm = rng.randint(1, 2)
    for m in range(1, nm + 1):
        if rng.random() < 0.4:
            steps.append({"op": "inject", "m": m, "api": rng.choice(["join", "sync", "offsetfetch", "findcoordinator"]), "nth": rng.randint(1, 2),
                          "code": rng.choice(CODES)})
        fns = rng.randint(0, 3)
        steps.append({"op": "start", "m": m, "fns": fns, "early": rng.choice([0, 0, 1, 2]) if fns else 0, "ms": rng.choice([40, 120])})
        steps.append({"op": "sleep", "ms": rng.choice([20, 100])})
    for _ in range(rng.randint(1, 5)):
        r = rng.random()
        m = rng.randint(1, nm)
        if r < 0.3:
            steps.append({"op": "inject", "m": m, "api": "heartbeat", "nth": 0, "code": rng.choice(CODES)})
        elif r < 0.5:
            steps.append({"op": "rebalance"})
        elif r < 0.6:
            steps.append({"op": "evict", "m": m})
        elif r < 0.7 and sc["watch"]:
            steps.append({"op": "addpartition", "t": "t"})
        elif r < 0.8:
            steps.append({"op": "inject", "m": m, "api": rng.choice(["join", "sync", "offsetfetch"]), "nth": 0, "code": rng.choice(CODES)})
        steps.append({"op": "sleep", "ms": rng.choice([60, 150, 300])})
    if rng.random() < 0.5:
        steps.append({"op": "stopasync", "m": rng.randint(1, nm)})
        steps.append({"op": "sleep", "ms": rng.choice([0, 5, 40])})
    return sc


def directed():
    out = []
    base = {"mode": "cg", "topics": {"t": 1}, "records": 2, "startOffset": -2, "commitIntervalMs": 0, "heartbeatMs": 20, "backoffMs": 80,
            "watch": False, "drain": False}
    # finding F12: SyncGroup answers RebalanceInProgress (the member id is kept), nobody is in Next, Close is called
    out.append(dict(base, id="D-close-after-rebalance-error", steps=[
        {"op": "inject", "m": 1, "api": "sync", "nth": 1, "code": 27},
        {"op": "hold", "gate": "app:beforenext:1"},
        {"op": "start", "m": 1, "fns": 0}, {"op": "sleep", "ms": 150}, {"op": "stopasync", "m": 1}, {"op": "sleep", "ms": 100},
        {"op": "release", "gate": "app:beforenext:1"}, {"op": "sleep", "ms": 100}]))
    out.append(dict(base, id="D-close-during-backoff", steps=[
        {"op": "inject", "m": 1, "api": "join", "nth": 1, "code": 15},
        {"op": "start", "m": 1, "fns": 1}, {"op": "sleep", "ms": 30}]))
    # every error code on every coordinator call of the first generation
    for api in ("findcoordinator", "join", "sync", "offsetfetch", "heartbeat"):
        for code in CODES:
            out.append(dict(base, id="D-err-%s-%d" % (api, code), steps=[
                {"op": "inject", "m": 1, "api": api, "nth": 1, "code": code},
                {"op": "start", "m": 1, "fns": 2}, {"op": "sleep", "ms": 350}]))
    # a function that returns on its own ends the generation
    out.append(dict(base, id="D-fn-returns", steps=[{"op": "start", "m": 1, "fns": 3, "early": 2, "ms": 60}, {"op": "sleep", "ms": 400}]))
    # Close while functions are running / while joining
    out.append(dict(base, id="D-close-live", steps=[{"op": "start", "m": 1, "fns": 2}, {"op": "sleep", "ms": 120}, {"op": "stop", "m": 1}]))
    out.append(dict(base, id="D-close-joining", steps=[{"op": "hold", "gate": "coord:m1/join"}, {"op": "start", "m": 1, "fns": 1},
                                                       {"op": "waitgate", "gate": "coord:m1/join"}, {"op": "stopasync", "m": 1},
                                                       {"op": "sleep", "ms": 40}, {"op": "release", "gate": "coord:m1/join"}]))
    # a watched topic's partition count changes in either direction (also: topic deleted) -> the generation ends;
    # a failed heartbeat / a function returning ends it too; without the watcher a change does not
    for how in ("addpartition", "removepartition", "deletetopic"):
        for watch in (True, False):
            out.append(dict(base, id="D-watch-%s-%s" % (how, "on" if watch else "off"), topics={"t": 2}, watch=watch, steps=[
                {"op": "start", "m": 1, "fns": 2}, {"op": "sleep", "ms": 400}, {"op": "hold", "gate": "coord:m1/join"}, {"op": how, "t": "t"},
                {"op": "sleep", "ms": 1800}, {"op": "stopasync", "m": 1}, {"op": "sleep", "ms": 50}, {"op": "release", "gate": "coord:m1/join"}]))
    for code in CODES:
        out.append(dict(base, id="D-heartbeat-fails-%d" % code, steps=[
            {"op": "start", "m": 1, "fns": 2}, {"op": "sleep", "ms": 300}, {"op": "inject", "m": 1, "api": "heartbeat", "nth": 0, "code": code},
            {"op": "hold", "gate": "coord:m1/join"}, {"op": "sleep", "ms": 1800}, {"op": "stopasync", "m": 1}, {"op": "sleep", "ms": 50},
            {"op": "release", "gate": "coord:m1/join"}]))
    # functions that are slow to return after their context ended: Next / Close still wait for them, whatever ended
    # the generation (heartbeat failure, own exit, partition change, Close)
    for k, cause in enumerate([[{"op": "inject", "m": 1, "api": "heartbeat", "nth": 0, "code": 27}], [{"op": "rebalance"}], [{"op": "evict", "m": 1}], []]):
        out.append(dict(base, id="D-linger-next-%d" % k, steps=[
            {"op": "start", "m": 1, "fns": 2, "linger": 300, "early": 0 if cause else 1, "ms": 150}, {"op": "sleep", "ms": 200}] + cause + [
            {"op": "sleep", "ms": 900}, {"op": "stop", "m": 1}]))
        out.append(dict(base, id="D-linger-close-%d" % k, steps=[
            {"op": "start", "m": 1, "fns": 2, "linger": 400, "early": 0 if cause else 1, "ms": 150}, {"op": "sleep", "ms": 200}] + cause + [
            {"op": "sleep", "ms": 60}, {"op": "stop", "m": 1}, {"op": "sleep", "ms": 500}]))
    # the handshake completes while nobody is in Next; Next is called a long time later: the generation is live all the while
    # (heartbeats flow from the moment it exists, not from the moment Next picks it up)
    out.append(dict(base, id="D-late-next", steps=[
        {"op": "hold", "gate": "app:beforenext:1"}, {"op": "start", "m": 1, "fns": 1}, {"op": "sleep", "ms": 3300},
        {"op": "release", "gate": "app:beforenext:1"}, {"op": "sleep", "ms": 300}, {"op": "stop", "m": 1}]))
    # Close while the handshake has completed but nobody has called Next: the generation that was waiting to be handed out ends with
    # the group (its heartbeats stop before LeaveGroup), whatever the application did or did not do
    for ms in (150, 600):
        out.append(dict(base, id="D-close-before-next-%d" % ms, steps=[
            {"op": "hold", "gate": "app:beforenext:1"}, {"op": "start", "m": 1, "fns": 1}, {"op": "sleep", "ms": ms},
            {"op": "stop", "m": 1}, {"op": "sleep", "ms": 700}, {"op": "release", "gate": "app:beforenext:1"}]))
    # a watched topic of which the member holds no partition (it has none yet): its partition count changes
    for watch in (True, False):
        out.append(dict(base, id="D-watch-unassigned-topic-%s" % ("on" if watch else "off"), topics={"t": 1, "u": 0}, watch=watch, steps=[
            {"op": "start", "m": 1, "fns": 2}, {"op": "sleep", "ms": 400}, {"op": "hold", "gate": "coord:m1/join"}, {"op": "addpartition", "t": "u"},
            {"op": "sleep", "ms": 1800}, {"op": "stopasync", "m": 1}, {"op": "sleep", "ms": 50}, {"op": "release", "gate": "coord:m1/join"}]))
    rb = {"mode": "reader", "topics": {"t": 2}, "records": 6, "startOffset": -2, "commitIntervalMs": 0, "heartbeatMs": 20, "backoffMs": 60,
          "watch": False, "drain": True}
    # the fetch connection of a partition is lost / the leader moves in the middle of a generation: the fetcher goes on where it was.
    # With StartOffset = LastOffset "last" was resolved when the partition was assigned: records appended since then are delivered
    for code in (-1, 6):
        out.append(dict(rb, id="D-fetch-fault-last-%d" % code, topics={"t": 1}, records=3, startOffset=-1, drain=False, steps=[
            {"op": "start", "m": 1}, {"op": "sleep", "ms": 400}, {"op": "fetchfault", "t": "t", "p": 0, "code": code}, {"op": "append", "t": "t", "p": 0, "n": 3},
            {"op": "sleep", "ms": 500}, {"op": "append", "t": "t", "p": 0, "n": 1}, {"op": "fetch", "m": 1, "n": 4, "commit": "sync", "wait": True}]))
        out.append(dict(rb, id="D-fetch-fault-first-%d" % code, topics={"t": 1}, records=6, steps=[
            {"op": "start", "m": 1}, {"op": "fetch", "m": 1, "n": 3, "commit": "sync", "wait": True}, {"op": "fetchfault", "t": "t", "p": 0, "code": code},
            {"op": "append", "t": "t", "p": 0, "n": 2}, {"op": "fetch", "m": 1, "n": 60, "commit": "sync", "wait": True}]))
    # an application that polls with contexts that are already done: such a call returns the context's error or a message, and a
    # message the Reader took from its queue is returned, not dropped
    for k in (2, 3):
        out.append(dict(rb, id="D-cancelled-fetch-calls-%d" % k, topics={"t": 1}, records=40, qcap=20, steps=[
            {"op": "start", "m": 1}, {"op": "sleep", "ms": 300}, {"op": "fetch", "m": 1, "n": 80, "commit": "sync", "wait": True, "cancelEvery": k, "paceUs": 300}]))
    # two members, rebalance in the middle of consumption, sync commits
    out.append(dict(rb, id="D-two-members-sync", steps=[
        {"op": "start", "m": 1}, {"op": "fetch", "m": 1, "n": 5, "commit": "sync", "wait": True}, {"op": "start", "m": 2},
        {"op": "sleep", "ms": 300}, {"op": "fetch", "m": 1, "n": 60, "commit": "sync", "wait": True},
        {"op": "fetch", "m": 2, "n": 60, "commit": "sync", "wait": True}, {"op": "fetch", "m": 1, "n": 60, "commit": "sync", "wait": True}]))
    out.append(dict(rb, id="D-two-members-interval", commitIntervalMs=25, steps=[
        {"op": "start", "m": 1}, {"op": "fetch", "m": 1, "n": 5, "commit": "async", "wait": True}, {"op": "sleep", "ms": 80}, {"op": "start", "m": 2},
        {"op": "sleep", "ms": 300}, {"op": "fetch", "m": 1, "n": 60, "commit": "async", "wait": True},
        {"op": "fetch", "m": 2, "n": 60, "commit": "async", "wait": True}, {"op": "fetch", "m": 1, "n": 60, "commit": "async", "wait": True}]))
    # suspected S5: the generation ends between Next returning and gen.Start in Reader.run
    out.append(dict(rb, id="D-gen-ends-before-start", steps=[
        {"op": "hold", "gate": "log:subscribed:1"}, {"op": "start", "m": 1}, {"op": "fetch", "m": 1, "n": 2, "commit": "sync"},
        {"op": "waitgate", "gate": "log:subscribed:1"}, {"op": "inject", "m": 1, "api": "heartbeat", "nth": 0, "code": 27},
        {"op": "sleep", "ms": 120}, {"op": "release", "gate": "log:subscribed:1"}, {"op": "sleep", "ms": 300},
        {"op": "waitapp", "m": 1}, {"op": "fetch", "m": 1, "n": 60, "commit": "sync", "wait": True}]))
    # commit errors: sync commit must not report success
    for code in (22, 25, 27, -1):
        out.append(dict(rb, id="D-commit-error-%d" % code, steps=[
            {"op": "start", "m": 1}, {"op": "fetch", "m": 1, "n": 2, "commit": "sync", "wait": True},
            {"op": "inject", "m": 1, "api": "offsetcommit", "nth": 0, "code": code},
            {"op": "fetch", "m": 1, "n": 3, "commit": "sync", "wait": True}, {"op": "sleep", "ms": 200},
            {"op": "fetch", "m": 1, "n": 60, "commit": "sync", "wait": True}]))
    # OffsetFetch fails (every code, dropped connection) when the group already has commits: the next subscription
    # must still start at the commits, i.e. not before the member has asked again
    for code in CODES:
        for so in (-2, -1):
            out.append(dict(rb, id="D-offsetfetch-fails-after-commits-%d-s%d" % (code, -so), startOffset=so, drain=(so == -2), steps=[
                {"op": "start", "m": 1}, {"op": "fetch", "m": 1, "n": 3, "commit": "sync", "wait": True},
                {"op": "inject", "m": 1, "api": "offsetfetch", "nth": 0, "code": code}, {"op": "rebalance"}, {"op": "sleep", "ms": 300},
                {"op": "append", "t": "t", "p": 0, "n": 2}, {"op": "append", "t": "t", "p": 1, "n": 2},
                {"op": "fetch", "m": 1, "n": 60, "commit": "sync", "wait": True}]))
    # a synchronous commit fails and the Reader is closed during the back-off before the retry: CommitMessages
    # must not report success for a commit the coordinator never recorded
    for code in (27, 22, 25, 16, -1):
        for ms in (5, 40, 130):
            out.append(dict(rb, id="D-close-during-commit-retry-%d-%d" % (code, ms), drain=False, steps=[
                {"op": "start", "m": 1}, {"op": "fetch", "m": 1, "n": 2, "commit": "sync", "wait": True},
                {"op": "inject", "m": 1, "api": "offsetcommit", "nth": 0, "code": code},
                {"op": "fetch", "m": 1, "n": 2, "commit": "sync", "wait": False}, {"op": "sleep", "ms": ms},
                {"op": "stopasync", "m": 1}, {"op": "sleep", "ms": 200}]))
    # a synchronous commit whose caller gives up (context ends) while the OffsetCommit is still in flight on a slow
    # coordinator, which then answers: Close / the next rebalance must not be blocked by the abandoned request
    for k, tail in enumerate([[{"op": "stop", "m": 1}], [{"op": "rebalance"}, {"op": "sleep", "ms": 300}, {"op": "fetch", "m": 1, "n": 60, "commit": "sync", "wait": True}]]):
        out.append(dict(rb, id="D-abandoned-commit-%d" % k, drain=False, steps=[
            {"op": "start", "m": 1}, {"op": "fetch", "m": 1, "n": 2, "commit": "none", "wait": True},
            {"op": "hold", "gate": "coord:m1/offsetcommit"}, {"op": "commitlast", "m": 1, "ctxMs": 60}, {"op": "sleep", "ms": 100},
            {"op": "release", "gate": "coord:m1/offsetcommit"}, {"op": "sleep", "ms": 100}] + tail + [{"op": "sleep", "ms": 100}]))
    # the generation ends while the application is in the middle of a fetch loop and the prefetch queue is full:
    # whatever is done with the queued messages of the old subscription, what the application is handed stays gap-free per
    # subscription and a later commit never covers a record nobody was handed
    for k, cause in enumerate([[{"op": "rebalance"}], [{"op": "inject", "m": 1, "api": "heartbeat", "nth": 0, "code": 27}], [{"op": "start", "m": 2}]]):
        for ms, pace in ((40, 150), (80, 0), (120, 150), (160, 40), (200, 150)):
            out.append(dict(rb, id="D-end-while-fetching-%d-%d" % (k, ms), topics={"t": 1}, records=3000, qcap=2000, steps=[
                {"op": "start", "m": 1}, {"op": "sleep", "ms": 150}, {"op": "fetch", "m": 1, "n": 2600, "commit": "none", "wait": False, "paceUs": pace}, {"op": "sleep", "ms": ms}] + cause + [
                {"op": "sleep", "ms": 400}, {"op": "waitapp", "m": 1}, {"op": "commitlast", "m": 1},
                {"op": "fetch", "m": 1, "n": 3500, "commit": "none", "wait": True}, {"op": "commitlast", "m": 1}] + ([{"op": "fetch", "m": 2, "n": 3500, "commit": "none", "wait": True},
                {"op": "commitlast", "m": 2}, {"op": "fetch", "m": 1, "n": 3500, "commit": "none", "wait": True}, {"op": "commitlast", "m": 1}] if k == 2 else [])))
    # several partitions with different commits, the coordinator answering OffsetFetch in another order than asked
    out.append(dict(rb, id="D-offsetfetch-reverse-order", topics={"t": 3}, records=8, offsetFetchOrder="reverse", steps=[
        {"op": "start", "m": 1}, {"op": "fetch", "m": 1, "n": 7, "commit": "sync", "wait": True}, {"op": "rebalance"}, {"op": "sleep", "ms": 300},
        {"op": "fetch", "m": 1, "n": 5, "commit": "sync", "wait": True}, {"op": "start", "m": 2}, {"op": "sleep", "ms": 300},
        {"op": "fetch", "m": 1, "n": 60, "commit": "sync", "wait": True}, {"op": "fetch", "m": 2, "n": 60, "commit": "sync", "wait": True},
        {"op": "fetch", "m": 1, "n": 60, "commit": "sync", "wait": True}]))
    # LeaveGroup itself fails at Close (member already evicted, coordinator moved, connection dropped): Close still returns, nothing is
    # sent afterwards and every connection the group opened is closed
    for code in CODES:
        for mode_ in ("reader", "cg"):
            b0 = rb if mode_ == "reader" else base
            out.append(dict(b0, id="D-leave-fails-%s-%d" % (mode_, code), drain=False, steps=[
                {"op": "start", "m": 1, "fns": 1}, {"op": "sleep", "ms": 200}, {"op": "inject", "m": 1, "api": "leave", "nth": 0, "code": code},
                {"op": "stop", "m": 1}, {"op": "sleep", "ms": 200}]))
    # several synchronous commits are queued in the Reader while the first one is in flight on a slow coordinator; the generation is
    # fenced (eviction / rebalance) and ends: the final flush of the queued requests is rejected, every caller must learn that
    for k, fence in enumerate([[{"op": "evict", "m": 1}], [{"op": "rebalance"}], [{"op": "inject", "m": 1, "api": "heartbeat", "nth": 0, "code": 22}]]):
        out.append(dict(rb, id="D-queued-commits-at-generation-end-%d" % k, topics={"t": 1}, records=12, drain=False, steps=[
            {"op": "start", "m": 1}, {"op": "fetch", "m": 1, "n": 8, "commit": "none", "wait": True},
            {"op": "hold", "gate": "coord:m1/offsetcommit"}, {"op": "commitburst", "m": 1, "n": 6}, {"op": "waitgate", "gate": "coord:m1/offsetcommit"},
            {"op": "sleep", "ms": 30}] + fence + [{"op": "sleep", "ms": 250}, {"op": "release", "gate": "coord:m1/offsetcommit"},
            {"op": "waitburst", "m": 1}, {"op": "sleep", "ms": 300}, {"op": "fetch", "m": 1, "n": 60, "commit": "sync", "wait": True}]))
    # crash-like: member evicted while it holds uncommitted messages, another member takes over
    out.append(dict(rb, id="D-evict", steps=[
        {"op": "start", "m": 1}, {"op": "fetch", "m": 1, "n": 4, "commit": "none", "wait": True}, {"op": "start", "m": 2}, {"op": "sleep", "ms": 250},
        {"op": "evict", "m": 1}, {"op": "sleep", "ms": 300}, {"op": "fetch", "m": 2, "n": 60, "commit": "sync", "wait": True},
        {"op": "fetch", "m": 1, "n": 60, "commit": "sync", "wait": True}, {"op": "fetch", "m": 2, "n": 60, "commit": "sync", "wait": True}]))
    return out


def gen_scripts(seed, prop, n):
    rng = random.Random(seed * 32452843 + 11)
    out = directed()
    for k in range(n):
        if prop == "C15":
            out.append(cg_script(rng, "G%d-%d" % (seed, k)) if k % 4 else reader_script(rng, "R%d-%d" % (seed, k)))
        else:
            out.append(reader_script(rng, "R%d-%d" % (seed, k)) if k % 5 else cg_script(rng, "G%d-%d" % (seed, k)))
    return out


def run_scripts(ctx, scripts, tag):
    ctx.vh_keep = getattr(ctx, "vh_keep", None) or ["group.go"]
    sp = os.path.join(ctx.work, "gscripts-%s.ndjson" % tag)
    tp = os.path.join(ctx.work, "gtraces-%s.ndjson" % tag)
    write_ndjson(sp, scripts)
    p = ctx.run_vh(["group", "-scripts", sp, "-out", tp, "-par", "32"], timeout=3000)
    if p.returncode != 0 and ("panic:" in p.stderr or "fatal error:" in p.stderr):
        traces = isolate(ctx, scripts, tag, "group", "a group Reader / ConsumerGroup")
    elif p.returncode != 0:
        raise Inconclusive("vh group failed: " + p.stderr[-2000:])
    else:
        traces = split_traces(read_ndjson(tp))
    if len(traces) != len(scripts):
        raise Inconclusive("driver produced %d traces for %d scripts" % (len(traces), len(scripts)))
    return traces


def isolate(ctx, scripts, tag, sub, what):
    """Run every script in its own process; a script whose process dies with a panic of the library is a violation."""
    from concurrent.futures import ThreadPoolExecutor

    def one(k):
        sp = os.path.join(ctx.work, "iso-%s-%d.ndjson" % (tag, k))
        tp = os.path.join(ctx.work, "iso-%s-%d.t" % (tag, k))
        write_ndjson(sp, [scripts[k]])
        p = ctx.run_vh([sub, "-scripts", sp, "-out", tp, "-par", "1"], timeout=400)
        if p.returncode != 0:
            return k, None, p.stderr
        return k, read_ndjson(tp), ""

    with ThreadPoolExecutor(max_workers=16) as ex:
        res = list(ex.map(one, range(len(scripts))))
    keep_s, keep_t, died = [], [], 0
    for k, evs, err in res:
        if evs is not None:
            keep_s.append(scripts[k])
            keep_t.append(evs)
            continue
        if "panic:" not in err and "fatal error:" not in err:
            raise Inconclusive("vh %s failed on %s: %s" % (sub, scripts[k]["id"], err[-1500:]))
        died += 1
        first = [x for x in err.splitlines() if x.startswith("panic:") or x.startswith("fatal error:")][:1]
        if died <= 20:
            rep = ctx.save_replay("%s-panic" % scripts[k]["id"], [("script.json", json.dumps(scripts[k])), ("stderr.txt", err[-8000:])])
            ctx.violation("the library panicked while %s ran scenario %s: %s" % (what, scripts[k]["id"], first[0] if first else "panic"), rep,
                          key="panic scenario=%s %s" % (scripts[k]["id"], first[0] if first else ""))
    scripts[:] = keep_s
    return split_traces([e for t in keep_t for e in t])


def tid_of(out):
    m = re.findall(r'tid = "([^"]*)"', out)
    return m[-1] if m else None


def monitor(ctx, scripts, traces, invs, maxviol=30):
    """TLC evaluates the invariants on every trace.  The traces are judged in chunks of bounded size (several TLC runs in
    parallel): after a violation only the rest of that chunk is read again."""
    from concurrent.futures import ThreadPoolExecutor
    d = ctx.specdir(ENGINE)
    cfg = "GroupMon_%s.cfg" % ctx.prop
    with open(os.path.join(d, cfg), "w") as f:
        f.write("SPECIFICATION Spec\nINVARIANTS " + " ".join(invs) + "\nPOSTCONDITION TraceAccepted\nCHECK_DEADLOCK FALSE\n")
    byid = {s["id"]: s for s in scripts}
    chunks, cur, n = [], [], 0
    for t in sorted(traces, key=len):
        if cur and n + len(t) > 12000:
            chunks.append(cur)
            cur, n = [], 0
        cur.append(t)
        n += len(t)
    if cur:
        chunks.append(cur)
    lock = threading.Lock()
    state = {"nviol": 0, "checked": 0}

    def one(ci):
        remaining = list(chunks[ci])
        while remaining:
            with lock:
                if state["nviol"] >= maxviol:
                    return
            tf = os.path.join(ctx.work, "gmon-in-%d.ndjson" % ci)
            write_ndjson(tf, [e for t in remaining for e in t])
            r = ctx.tlc(ENGINE, "GroupMon", cfg, workers=1, timeout=2400, env={"TRACE": tf}, tag="gmon%d" % ci)
            if r["violated"]:
                tid = tid_of(r["out"])
                idx = next((i for i, t in enumerate(remaining) if t[0].get("id") == tid), None)
                if idx is None:
                    raise Inconclusive("monitor reported %s but the trace could not be identified" % r["violated"])
                bad = remaining[idx]
                with lock:
                    state["checked"] += idx + 1
                    state["nviol"] += 1
                    rep = ctx.save_replay("%s-%s" % (tid, r["violated"]), [
                        ("script.json", json.dumps(byid.get(tid, {}))),
                        ("trace.ndjson", "\n".join(json.dumps(e) for e in bad) + "\n"),
                        ("tlc.txt", r["out"][-20000:])])
                    ctx.violation("%s violated on a trace of the real code (scenario %s)" % (r["violated"], tid), rep,
                                  key="%s scenario=%s" % (r["violated"], tid))
                remaining = remaining[idx + 1:]
                continue
            if r["postcondition_failed"] or r["error"] or r["timeout"]:
                raise Inconclusive("monitor run failed: " + (r["error"] or r["out"][-1500:]))
            with lock:
                state["checked"] += len(remaining)
            remaining = []

    with ThreadPoolExecutor(max_workers=4) as ex:
        list(ex.map(one, range(len(chunks))))
    if state["nviol"] >= maxviol:
        ctx.notes.append("stopped after %d violations; some traces were not monitored" % state["nviol"])
    return state["checked"]


# actions of Group.tla (spec/group/Group.tla, Next) and the counters of GroupTrace.tla that stand for them
GROUP_ACTIONS = {
    "JoinOK": ["JoinOK", "JoinOK_lax"], "JoinFail": ["JoinFail", "JoinFail_lax"], "JoinWhenClosed": ["JoinWhenClosed"],
    "WatchStart": ["WatchStart"], "Offer": ["Offer"], "AppNext": ["AppNext"], "Start": ["Start", "Start_untracked"],
    "FnReturn": ["FnReturn", "FnReturn_untracked", "FnReturn_watcher"], "HeartbeatSend": ["HeartbeatSend", "HeartbeatSend_lax"],
    "HeartbeatReply": ["HeartbeatReply_ok", "HeartbeatReply_fail"], "HeartbeatStop": ["HeartbeatStop"],
    "GenCloseBegin": ["GenCloseBegin", "GenCloseBegin_lax"], "GenCloseEnd": ["GenCloseEnd"], "Leave": ["Leave", "Leave_noid"],
    "ReportErr": ["ReportErr", "ReportErr_closed"], "Backoff": ["Backoff", "Backoff_lax", "Backoff_closed"], "CloseCall": ["CloseCall", "CloseCall_app", "CloseCall_early"], "CloseReturn": ["CloseReturn"],
}


def _trace_spec(ctx, module, cfg, traces, why, locate, maxdiv=10):
    """Run a trace specification over the concatenation of `traces`; a diverging trace is recorded and the run is
    repeated on the traces after it.  Returns (accepted, divergences, [TLC result of every accepting run])."""
    divs, runs, good = [], [], []
    remaining = list(traces)
    accepted = 0
    while remaining and len(divs) < maxdiv:
        tf = os.path.join(ctx.work, "gconf-%s-in.ndjson" % module)
        write_ndjson(tf, [e for t in remaining for e in t])
        r = ctx.tlc(ENGINE, module, cfg, workers=1, timeout=1200, env={"TRACE": tf}, extra=["-difftrace"])
        if r["postcondition_failed"] or r["violated"]:
            line, member = locate(r)
            n = 0
            for k, t in enumerate(remaining):
                if line <= n + len(t):
                    ev = t[line - n - 1] if 0 < line - n <= len(t) else {}
                    d = {"trace": t[0].get("id"), "event": ev, "why": ("invariant %s of Group.tla" % r["violated"]) if r["violated"] else why,
                         "spec": module}
                    if member:
                        d["member"] = member
                    divs.append(d)
                    accepted += k
                    good += remaining[:k]
                    remaining = remaining[k + 1:]
                    break
                n += len(t)
            else:
                raise Inconclusive("conformance failure could not be located")
            continue
        if r["error"] or r["timeout"]:
            raise Inconclusive("conformance run failed: " + (r["error"] or r["out"][-1500:]))
        accepted += len(remaining)
        good += remaining
        runs.append(r)
        remaining = []
    return accepted, divs, runs, good


def conformance(ctx, traces):
    """cg-mode traces (bare kafka.ConsumerGroup): every event of every member against the actions of the whole of
    Group.tla (GroupTrace.tla).  Reader-mode traces (the application is kafka.Reader): the Generation accounting events
    against the accounting actions of Group.tla (GenTrace.tla).  Divergences are reported, never a verdict."""
    cg = [t for t in traces if t[0].get("mode") == "cg"]
    rd = [t for t in traces if t[0].get("mode") != "cg"]

    def loc_gen(r):
        m = re.search(r'"DIVERGED_AT_LINE",\s*(\d+)', r["out"])
        return (int(m.group(1)) if m else (r["depth"] or 1)), None

    def loc_group(r):
        if r["violated"]:       # state after the offending event: l is the next line
            ls = re.findall(r"^/\\ l = (\d+)", r["out"], re.M)
            ms = re.findall(r"^/\\ me = (\d+)", r["out"], re.M)
            return (int(ls[-1]) - 1 if ls else 1), (int(ms[-1]) if ms else None)
        found = re.findall(r'"DIVERGED_AT_LINE",\s*(\d+),\s*"member",\s*(\d+)', r["out"])
        if not found:
            return 1, None
        line, member = min((int(a), int(b)) for a, b in found)
        return line, member

    t0 = time.time()
    acc_rd, div_rd, _, _ = _trace_spec(ctx, "GenTrace", "GenTrace.cfg", rd, "not an accounting step of Group.tla", loc_gen)
    acc_cg, div_cg, runs, good = _trace_spec(ctx, "GroupTrace", "GroupTrace.cfg", cg, "no action of Group.tla matches the event", loc_group)
    counts, states, events = {}, 0, sum(len(t) for t in good)
    for r in runs:       # (action counters: of the accepting runs only)
        states += r["distinct"]
        for blk in re.findall(r'<<"COUNTS",\s*\d+,\s*\[(.*?)\]\s*>>', r["out"], re.S):
            for name, v in re.findall(r"(\w+) \|-> (\d+)", blk):
                counts[name] = counts.get(name, 0) + int(v)
    per_action = {a: sum(counts.get(c, 0) for c in cs) for a, cs in GROUP_ACTIONS.items()}
    ctx.conformance_cov = {
        "grouptrace_traces_accepted": acc_cg, "grouptrace_traces": len(cg), "grouptrace_events": events,
        "grouptrace_member_projections": sum(len({e.get("m") for e in t if e.get("ev") == "start"}) for t in good), "grouptrace_states": states,
        "grouptrace_action_matches": per_action,
        "grouptrace_actions_never_matched": sorted(a for a, n in per_action.items() if n == 0),
        "grouptrace_counters": {k: v for k, v in sorted(counts.items()) if k != "traces"},
        "gentrace_reader_traces_accepted": acc_rd, "gentrace_reader_traces": len(rd),
        "conformance_seconds": round(time.time() - t0, 1),
    }
    return acc_rd + acc_cg, div_rd + div_cg


def model_check(ctx):
    d = ctx.specdir(ENGINE)
    quick = ctx.tier == "quick"
    cfg = "MC_run.cfg"
    with open(os.path.join(d, cfg), "w") as f:
        f.write("SPECIFICATION Spec\nCONSTANTS MaxGens = %d\n MaxFns = 2\n MaxFaults = 2\nINVARIANTS %s\nCHECK_DEADLOCK FALSE\n"
                % (2 if quick else 3, " ".join(MC_INVS)))
    r = ctx.tlc(ENGINE, "Group", cfg, workers=16, timeout=3000)
    if r["violated"] or r["error"] or r["timeout"]:
        raise Inconclusive("model checking of Group.tla did not pass: " + r["out"][-2000:])
    cov = {"states": r["distinct"], "transitions": r["generated"], "mc_depth": r["depth"]}
    # the same invariants with the guards the code does not have dropped (a join in flight when Close is called still creates a
    # Generation; one more heartbeat may be sent after the context is done): this is what recorded traces show
    with open(os.path.join(d, "MC_run_lax.cfg"), "w") as f:
        f.write("SPECIFICATION Spec\nCONSTANT Lax <- LaxOn\nCONSTANTS MaxGens = %d\n MaxFns = 2\n MaxFaults = 2\nINVARIANTS %s\nCHECK_DEADLOCK FALSE\n"
                % (2 if quick else 3, " ".join(MC_INVS)))
    rl = ctx.tlc(ENGINE, "Group", "MC_run_lax.cfg", workers=16, timeout=3000)
    if rl["violated"] or rl["error"] or rl["timeout"]:
        raise Inconclusive("model checking of Group.tla (lax guards) did not pass: " + rl["out"][-2000:])
    cov["lax"] = {"states": rl["distinct"], "transitions": rl["generated"]}
    cov["states"] += rl["distinct"]
    cov["transitions"] += rl["generated"]
    r2 = ctx.tlc(ENGINE, "Group", "MC_live.cfg", workers=16, timeout=1500)
    if r2["violated"] or r2["error"] or r2["timeout"]:
        raise Inconclusive("liveness checking of Group.tla did not pass: " + r2["out"][-2000:])
    cov["liveness"] = {"formulas": ["L_CloseReturns"], "states": r2["distinct"]}
    cov["inductive"] = inductive(ctx, d)
    # the literal reading "every function started in the previous generation" includes functions started after
    # the generation ended (documented deviation of Generation.Start): the model must show that it can be violated
    with open(os.path.join(d, "MC_strict.cfg"), "w") as f:
        f.write("SPECIFICATION Spec\nCONSTANTS MaxGens = 2\n MaxFns = 2\n MaxFaults = 1\nINVARIANTS C15_OneLiveAll\nCHECK_DEADLOCK FALSE\n")
    r3 = ctx.tlc(ENGINE, "Group", "MC_strict.cfg", workers=8, timeout=600)
    cov["untracked_start_deviation_reachable_in_model"] = (r3["violated"] == "C15_OneLiveAll")
    return cov


def inductive(ctx, d):
    """Generation accounting for an UNBOUNDED number of functions: Apalache checks that GenInd!IndInv holds initially, is
    preserved by every action (one step from an arbitrary state satisfying it) and implies the properties; the same three
    queries on the model with the defect "a returning function does not close the generation" must fail (vacuity guard)."""
    import subprocess
    work = os.path.join(ctx.work, "apalache")
    os.makedirs(work, exist_ok=True)
    src = open(os.path.join(d, "GenInd.tla")).read()
    open(os.path.join(work, "GenInd.tla"), "w").write(src)
    bug = src.replace("MODULE GenInd", "MODULE GenIndBug").replace("  /\\ live > 0\n  /\\ closed' = TRUE", "  /\\ live > 0\n  /\\ closed' = closed")
    if bug.count("closed' = closed") != 1:
        raise Inconclusive("could not derive the defective variant of GenInd.tla")
    open(os.path.join(work, "GenIndBug.tla"), "w").write(bug)

    def apa(mod, init, inv, length):
        try:
            p = subprocess.run(["timeout", "300", "apalache-mc", "check", "--init=" + init, "--inv=" + inv, "--length=%d" % length,
                                "--out-dir=" + os.path.join(work, "out"), mod + ".tla"], cwd=work, capture_output=True, text=True)
        except FileNotFoundError:
            return None
        m = re.search(r"EXITCODE: (\w+)(?: \((\d+)\))?", p.stdout)
        return (m.group(1), m.group(2)) if m else ("?", str(p.returncode))

    steps = [("GenInd", "Init", "IndInv", 0), ("GenInd", "IndInit", "IndInv", 1), ("GenInd", "IndInit", "Props", 0)]
    res = [apa(*s) for s in steps]
    if any(r is None for r in res):
        ctx.notes.append("apalache-mc is not installed: the inductive check of GenInd.tla was skipped")
        return {"skipped": "apalache-mc not found"}
    if any(r[0] != "OK" for r in res):
        raise Inconclusive("Apalache did not accept GenInd.tla: %s" % list(zip(steps, res)))
    g = apa("GenIndBug", "IndInit", "IndInv", 1)
    if g is None or g[0] != "ERROR" or g[1] != "12":
        raise Inconclusive("vacuity guard failed: Apalache accepted the defective GenIndBug.tla (%s)" % (g,))
    ctx.log("Apalache: GenInd!IndInv is inductive and implies CloseWaits, JoinedOnce, FirstExitEnds (unbounded); defective variant rejected")
    return {"tool": "apalache-mc", "module": "GenInd.tla", "queries": ["Init => IndInv", "IndInv /\\ Next => IndInv'", "IndInv => Props"],
            "properties": ["CloseWaits", "JoinedOnce", "FirstExitEnds"], "vacuity_guard": "GenIndBug: counterexample to induction"}


def model_check_commit(ctx):
    """GroupCommit.tla: members x coordinator x commit loops (C03)."""
    d = ctx.specdir(ENGINE)
    cfg = "MC_commit_guard.cfg" if ctx.tier == "quick" else "MC_commit_full.cfg"
    r = ctx.tlc(ENGINE, "GroupCommit", cfg, workers=16, timeout=3000)
    if r["violated"] or r["error"] or r["timeout"]:
        raise Inconclusive("model checking of GroupCommit.tla did not pass: " + r["out"][-2000:])
    cov = {"states": r["distinct"], "transitions": r["generated"], "mc_depth": r["depth"], "mc_config": cfg}
    # vacuity guards: seeded defects of the model must be rejected by the intended invariant
    guards = {"commitPlus2": "C03_CommitNotAhead", "startPlus1": "C03_DeliveredBeforeCovered"}
    base = open(os.path.join(d, "MC_commit_guard.cfg")).read()
    for bug, inv in guards.items():
        name = "MC_commit_bug_%s.cfg" % bug
        open(os.path.join(d, name), "w").write(base.replace('Bug = "none"', 'Bug = "%s"' % bug))
        rb = ctx.tlc(ENGINE, "GroupCommit", name, workers=8, timeout=600)
        if rb["violated"] != inv:
            raise Inconclusive("vacuity guard failed: GroupCommit.tla with defect %s was not rejected by %s" % (bug, inv))
    cov["vacuity_guards"] = sorted(guards)
    return cov


def run_part(ctx, prop):
    cov = {"engine": "group"}
    if prop == "C15":
        cov.update(model_check(ctx))
        ctx.log("Group.tla MC ok: %d distinct states" % cov["states"])
    elif prop == "C03":
        cov.update(model_check_commit(ctx))
        ctx.log("GroupCommit.tla MC ok: %d distinct states" % cov["states"])
    n = {"quick": 40, "thorough": 600}[ctx.tier]
    scripts = gen_scripts(ctx.seed, prop, n)
    traces = run_scripts(ctx, scripts, "main")
    checked = monitor(ctx, scripts, traces, PROP_INVS[prop])
    if prop == "C15":
        accepted, divs = conformance(ctx, traces)
        cov.update({"accounting_traces_accepted": accepted, "divergence_count": len(divs), "divergences": divs[:10]})
        cov.update(getattr(ctx, "conformance_cov", {}))
        if divs:
            ctx.notes.append("DIVERGENCE: %d trace(s): recorded events are not steps of Group.tla (%s)"
                             % (len(divs), ", ".join(sorted({d["spec"] for d in divs}))))
            print("DIVERGENCE property=C15 traces=%d first=%s" % (len(divs), json.dumps(divs[0])[:300]), flush=True)
    cov.update({"traces_validated_against_impl": checked, "scenarios": len(scripts), "trace_events": sum(len(t) for t in traces),
                "invariants": PROP_INVS[prop],
                "samples": [{"script": scripts[0]}, {"script": scripts[-1]}, {"trace_head": traces[-1][:10]}]})
    return cov


def run(ctx):
    return run_part(ctx, ctx.prop)


def replay(ctx, path):
    from engines import replayer
    return replayer.replay(ctx, path)
