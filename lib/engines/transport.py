"""Engine E5: kafka.Transport (C12; Transport parts of C06, C17, C09)."""
import json, os, random, re
from vlib import Inconclusive, read_ndjson, write_ndjson, split_traces

ENGINE = "transport"
PROPS = {"C12": "model_checking"}

PROP_INVS = {
    "C12": ["C12_Routing", "C12_Version", "C12_FollowLeader", "C12_FollowLeaderRealTime", "C12_RefreshWithinTTL", "C12_CacheFilter",
            "C12_HealthyCallSucceeds", "C12_SplitComplete",
            "C06t_OwnResponse"],
    "C06": ["C06t_OwnResponse", "C06t_NoReuseAfterFailure", "C06t_ReleaseOnlyAfterComplete", "C17t_NoPanicNoHang"],
    "C17": ["C17t_CutIsError", "C17t_NextCallSucceeds", "C17t_NoPanicNoHang", "C06t_NoReuseAfterFailure", "C06t_OwnResponse"],
    "C09": ["C09t_CancelPrompt", "C09t_ContextError", "C09t_ClosedPoolConnsClose", "C17t_NextCallSucceeds", "C06t_ReleaseOnlyAfterComplete", "C06t_NoReuseAfterFailure", "C06t_OwnResponse"],
}
MC_INVS = ["TypeOK", "C12_Routing", "C12_Address", "C12_Version", "C12_FollowLeader", "C12_CacheFilter", "C06t_OwnResponse",
           "C06t_ReleaseOnlyAfterComplete", "C06t_NoReuseAfterFailure", "C09t_CancelPrompt", "C09t_ClosedPoolConnsClose"]
MC_PROPS = ["C12_GrabIsLatest", "C06t_DeadStaysDead"]
# seeded defects the model must reject (vacuity guards): defect -> (config it is run with, what must fail)
GUARDS = {
    "firstBroker": ("route", {"C12_Routing", "C12_FollowLeader"}),
    "groupToController": ("route", {"C12_Routing"}),
    "clientMax": ("route", {"C12_Version"}),
    "staleCache": ("route", {"C12_GrabIsLatest", "C12_FollowLeader"}),
    "filterAll": ("route", {"C12_CacheFilter"}),
    "keepGroupOnReaddress": ("addr", {"C12_Address"}),
    "splitWholeToFirst": ("one", {"C12_Routing"}),
    "leakOnClosedGroup": ("addr", {"C09t_ClosedPoolConnsClose"}),
    "stopOnRefreshTimeout": ("live", {"temporal", "C12_RefreshWithinTTL"}),
    "releaseOnFail": ("fault", {"C06t_NoReuseAfterFailure", "C06t_ReleaseOnlyAfterComplete"}),
    "releaseOnCancel": ("fault", {"C06t_ReleaseOnlyAfterComplete", "C06t_OwnResponse"}),
}

# ---------------------------------------------------------------------------------------------
# version tables: what a broker advertises, relative to what the library implements
T_FULL = {"Produce": [0, 8], "Fetch": [0, 11], "ListOffsets": [0, 5], "Metadata": [0, 8], "OffsetCommit": [0, 7], "OffsetFetch": [0, 5],
          "FindCoordinator": [0, 2], "CreateTopics": [0, 4], "DeleteTopics": [0, 3], "JoinGroup": [0, 2], "Heartbeat": [0, 2],
          "InitProducerId": [0, 1], "AddPartitionsToTxn": [0, 2], "EndTxn": [0, 2]}
T_OLDER = {"Produce": [0, 3], "Fetch": [0, 5], "ListOffsets": [0, 1], "Metadata": [0, 5], "OffsetCommit": [0, 2], "OffsetFetch": [0, 1],
           "FindCoordinator": [0, 0], "CreateTopics": [0, 0], "DeleteTopics": [0, 0], "JoinGroup": [0, 1], "Heartbeat": [0, 0],
           "InitProducerId": [0, 0], "AddPartitionsToTxn": [0, 0], "EndTxn": [0, 1]}
T_OLDEST = {"Produce": [0, 2], "Fetch": [0, 2], "ListOffsets": [1, 1], "Metadata": [0, 1], "OffsetCommit": [0, 0], "OffsetFetch": [0, 0],
            "FindCoordinator": [0, 0], "CreateTopics": [0, 1], "DeleteTopics": [0, 1], "JoinGroup": [0, 0], "Heartbeat": [0, 0]}
T_NEWER = {"Produce": [3, 12], "Fetch": [4, 15], "ListOffsets": [2, 9], "Metadata": [4, 12], "OffsetCommit": [2, 9], "OffsetFetch": [2, 8],
           "FindCoordinator": [1, 4], "CreateTopics": [1, 7], "DeleteTopics": [1, 6], "JoinGroup": [1, 9], "Heartbeat": [0, 6],
           "InitProducerId": [0, 5], "AddPartitionsToTxn": [1, 4], "EndTxn": [1, 4]}
# no common version: Metadata and ApiVersions stay usable so that the pool can load the cluster layout
T_DISJOINT = {"Produce": [9, 10], "Fetch": [12, 13], "ListOffsets": [0, 0], "OffsetCommit": [8, 9], "OffsetFetch": [6, 8],
              "FindCoordinator": [3, 4], "CreateTopics": [6, 7], "DeleteTopics": [4, 6], "JoinGroup": [8, 9], "Heartbeat": [5, 6],
              "InitProducerId": [5, 6], "AddPartitionsToTxn": [4, 5], "EndTxn": [4, 5]}
TABLES = {"full": T_FULL, "older": T_OLDER, "oldest": T_OLDEST, "newer": T_NEWER, "disjoint": T_DISJOINT}


def cluster(brokers=(1, 2, 3), boot=(1, 2), leaders1=(1, 2), leaders2=(3, 1), coord=2, txn=3, ctrlr=1, tables=None, ttl=100, idle=30000):
    vtab = {}
    for b, name in (tables or {}).items():
        vtab[str(b)] = dict(TABLES[name])
    return {"brokers": list(brokers), "boot": list(boot), "topics": [{"name": "t1", "leaders": list(leaders1)}, {"name": "t2", "leaders": list(leaders2)}],
            "coord": coord, "txn": txn, "ctrlr": ctrlr, "vtab": vtab, "ttlMs": ttl, "idleMs": idle}


class Ops:
    """numbers the calls of one script"""

    def __init__(self):
        self.n = 0

    def op(self, kind, **kw):
        self.n += 1
        d = {"o": self.n, "kind": kind}
        d.update(kw)
        return d


KINDS_LEADER = ["produce", "fetch", "listoffsets1"]
KINDS_GROUP = ["offsetcommit", "offsetfetch", "joingroup"]
KINDS_TXN = ["initproducerid", "addpartitionstotxn", "endtxn"]


def mkop(ops, kind, rng, **kw):
    t = kw.pop("t", None) or rng.choice(["t1", "t2"])
    p = kw.pop("p", None)
    if p is None:
        p = rng.randrange(2)
    if kind == "listoffsets1":
        return ops.op("listoffsets", parts=[{"t": t, "p": p, "k": rng.randrange(6)}], **kw)
    if kind == "listoffsets":
        n = rng.randint(2, 3)
        allp = [("t1", 0), ("t1", 1), ("t2", 0), ("t2", 1)]
        rng.shuffle(allp)
        return ops.op("listoffsets", parts=[{"t": a, "p": b, "k": rng.randrange(6)} for a, b in sorted(allp[:n])], **kw)
    if kind == "metadata":
        r = rng.random()
        if r < 0.15:
            return ops.op("metadata", allTopics=True, **kw)
        # (names that do not exist sort before, between and after the existing ones)
        names = rng.sample(["t1", "t2", "nosuch", "t3", "zz", "aaa", "t1x"], rng.randint(1, 3))
        return ops.op("metadata", names=names, **kw)
    if kind in ("produce", "fetch", "offsetcommit", "offsetfetch", "addpartitionstotxn"):
        return ops.op(kind, t=t, p=p, k=rng.randrange(6), **kw)
    return ops.op(kind, **kw)


def steps_of(oplist):
    return [{"op": o} for o in oplist]


def c12_scripts(seed, tier):
    rng = random.Random(seed * 7919 + 12)
    out = []
    allkinds = KINDS_LEADER + ["listoffsets", "metadata", "findcoordinator", "createtopics"] + KINDS_GROUP + KINDS_TXN

    # 1. routing of every kind of request, in layouts where leader / coordinators / controller / bootstrap differ
    layouts = [dict(leaders1=(1, 2), leaders2=(3, 1), coord=2, txn=3, ctrlr=1, boot=(1, 2)),
               dict(leaders1=(3, 3), leaders2=(2, 2), coord=3, txn=2, ctrlr=3, boot=(1,)),
               dict(leaders1=(2, 1), leaders2=(1, 3), coord=1, txn=1, ctrlr=2, boot=(3,)),
               dict(leaders1=(2, 3), leaders2=(3, 2), coord=3, txn=3, ctrlr=2, boot=(1, 2, 3))]
    for li, lay in enumerate(layouts if tier == "thorough" else layouts[:3]):
        ops = Ops()
        sc = cluster(ttl=rng.choice([60, 100, 150]), **lay)
        st = []
        for t in ("t1", "t2"):
            for p in (0, 1):
                st += steps_of([mkop(ops, k, rng, t=t, p=p) for k in KINDS_LEADER])
        st += steps_of([mkop(ops, k, rng) for k in ["listoffsets", "metadata", "findcoordinator"] + KINDS_GROUP + KINDS_TXN])
        c = ops.op("createtopics")
        st += [{"op": c}, {"op": ops.op("deletetopics", k=c["o"])}]
        sc.update({"id": "route-%d" % li, "kind": "c12", "steps": st})
        out.append(sc)

    # 1b. Heartbeat is a group request too (scenarios of their own: one call each)
    for li, lay in enumerate(layouts[:3]):
        ops = Ops()
        sc = cluster(ttl=100, **lay)
        sc.update({"id": "heartbeat-%d" % li, "kind": "c12", "steps": [{"op": ops.op("heartbeat")}]})
        out.append(sc)

    # 2. version tables: every table on the broker that serves the request, for every kind
    combos = [("full", "older", "newer"), ("older", "newer", "full"), ("newer", "full", "older"), ("full", "disjoint", "oldest"),
              ("oldest", "full", "disjoint"), ("full", "oldest", "newer")]
    for ci, (a, b, c3) in enumerate(combos):
        for li, lay in enumerate(layouts[:2] if tier == "quick" else layouts[:3]):
            # the bootstrap brokers must be able to serve Metadata / FindCoordinator: no disjoint table there
            tabs = {1: a, 2: b, 3: c3}
            boot = [x for x in lay["boot"] if tabs[x] != "disjoint"]
            if not boot:
                continue
            ops = Ops()
            lay2 = dict(lay, boot=tuple(boot))
            sc = cluster(tables=tabs, ttl=100, **lay2)
            st = []
            for t in ("t1", "t2"):
                for p in (0, 1):
                    st += steps_of([mkop(ops, k, rng, t=t, p=p) for k in KINDS_LEADER])
            st += steps_of([mkop(ops, k, rng) for k in ["metadata", "findcoordinator"] + KINDS_GROUP + KINDS_TXN + ["createtopics"]])
            sc.update({"id": "version-%d-%d" % (ci, li), "kind": "c12", "steps": st})
            out.append(sc)

    # 3. the cluster changes: requests follow after the next applied refresh (and in real time)
    def follow(idx, moves, probes, slack, lay=None, brokers=(1, 2, 3)):
        ops = Ops()
        sc = cluster(ttl=rng.choice([60, 100, 150]), brokers=brokers, **(lay or layouts[0]))
        st = steps_of([mkop(ops, k, rng, **kw) for k, kw in probes])
        st += [{"move": m} for m in moves]
        # requests right after the change may still use the old snapshot
        st += steps_of([mkop(ops, k, rng, **kw) for k, kw in probes])
        st += [{"slack": True}] if slack else [{"waitRefresh": True}]
        st += steps_of([mkop(ops, k, rng, **kw) for k, kw in probes])
        sc.update({"id": "follow-%d%s" % (idx, "-rt" if slack else ""), "kind": "c12", "steps": st})
        return sc

    lp = [("produce", dict(t="t1", p=0)), ("fetch", dict(t="t1", p=0)), ("listoffsets1", dict(t="t1", p=0)), ("listoffsets", {}), ("metadata", {})]
    gp = [("offsetcommit", {}), ("offsetfetch", {}), ("joingroup", {}), ("initproducerid", {}), ("endtxn", {})]
    # broker 3 leads t2/0 and is the transaction coordinator in the first layout
    ap = [("produce", dict(t="t2", p=0)), ("fetch", dict(t="t2", p=0)), ("listoffsets1", dict(t="t2", p=0)), ("initproducerid", {}), ("metadata", {})]
    if tier == "thorough":
        ap.append(("listoffsets", {}))
    fl = [
        ([{"kind": "leader", "t": "t1", "p": 0, "to": 3}], lp, None, (1, 2, 3)),
        ([{"kind": "leader", "t": "t1", "p": 0, "to": 2}, {"kind": "leader", "t": "t2", "p": 1, "to": 2}], lp, None, (1, 2, 3)),
        ([{"kind": "brokeradd", "b": 3}, {"kind": "leader", "t": "t1", "p": 0, "to": 3}], lp, dict(leaders1=(1, 2), leaders2=(2, 1), coord=2, txn=1, ctrlr=1, boot=(1, 2)), (1, 2)),
        ([{"kind": "brokerremove", "b": 3, "h": 2}], [("produce", dict(t="t2", p=0)), ("listoffsets", {}), ("metadata", {}), ("initproducerid", {})], None, (1, 2, 3)),
        ([{"kind": "brokerremove", "b": 1, "h": 3}], lp + [("createtopics", {})], dict(leaders1=(1, 2), leaders2=(3, 1), coord=2, txn=3, ctrlr=1, boot=(1, 2)), (1, 2, 3)),
        ([{"kind": "topiccreate", "t": "t3", "leaders": [3, 2]}], [("produce", dict(t="t3", p=0)), ("fetch", dict(t="t3", p=1)), ("metadata", {})], None, (1, 2, 3)),
        ([{"kind": "coord", "to": 1}, {"kind": "txn", "to": 2}], gp, None, (1, 2, 3)),
        ([{"kind": "ctrlr", "to": 3}], [("createtopics", {}), ("metadata", {})], None, (1, 2, 3)),
        # a broker re-registers under the same id with another address (the old endpoint stays up): same host, new port
        ([{"kind": "readdress", "b": 3, "port": 9093}], ap, None, (1, 2, 3)),
        # new host name
        ([{"kind": "readdress", "b": 3, "host": "b3x"}], ap, None, (1, 2, 3)),
        # only the rack changes (nothing has to be re-dialled, everything must keep working)
        ([{"kind": "readdress", "b": 3, "rack": "r2"}], ap, None, (1, 2, 3)),
        # the coordinator / a bootstrap broker moves to a new port, twice
        ([{"kind": "readdress", "b": 2, "port": 9094}, {"kind": "readdress", "b": 2, "port": 9095}], gp + [("produce", dict(t="t1", p=1))], None, (1, 2, 3)),
        # the broker re-registers under a new id at the same address
        ([{"kind": "renumber", "b": 3, "to": 4}], ap, None, (1, 2, 3)),
    ]
    for i, (moves, probes, lay, brokers) in enumerate(fl):
        out.append(follow(i, moves, probes, False, lay, brokers))
        if tier == "thorough" or i in (0, 2, 3, 8):
            out.append(follow(i, moves, probes, True, lay, brokers))

    # 3b. one periodic metadata refresh is never answered (it times out after one TTL): the discover loop must go on,
    # and a leader move afterwards must still be followed
    for (hi, nth, slack) in ((0, 2, False), (1, 3, True)) + (((2, 2, True), (3, 4, False)) if tier == "thorough" else ()):
        ops = Ops()
        ttl = 100
        sc = cluster(ttl=ttl, **layouts[0])
        sc["wfaults"] = [{"api": "Metadata", "nth": nth, "hold": True, "id": 1}]
        st = steps_of([mkop(ops, k, rng, **kw) for k, kw in lp])
        st.append({"sleepMs": nth * ttl + 2 * ttl + 200})
        st.append({"move": {"kind": "leader", "t": "t1", "p": 0, "to": 3}})
        st += steps_of([mkop(ops, k, rng, **kw) for k, kw in lp])
        st += [{"slack": True}] if slack else [{"waitRefresh": True}]
        st += steps_of([mkop(ops, k, rng, **kw) for k, kw in lp])
        sc.update({"id": "follow-held-%d%s" % (nth, "-rt" if slack else ""), "kind": "c12", "steps": st})
        out.append(sc)

    # 3c. the bootstrap broker is unreachable at first use and comes up later: once the metadata has been loaded, Metadata
    # calls are answered from the cache and routed calls work
    for fi, lay in enumerate(layouts[:2]):
        ops = Ops()
        lay2 = dict(lay, boot=(1,))
        sc = cluster(ttl=100, **lay2)
        sc["downAtStart"] = [1]
        st = [{"op": ops.op("metadata", names=["t1"])}, {"op": ops.op("produce", t="t1", p=0)},
              {"move": {"kind": "up", "b": 1}}, {"waitRefresh": True},
              {"op": ops.op("metadata", names=["t2", "aaa", "t1"], mustSucceed=True)}, {"op": ops.op("metadata", allTopics=True, mustSucceed=True)},
              {"op": ops.op("produce", t="t1", p=0, mustSucceed=True)}, {"op": ops.op("fetch", t="t2", p=1, k=2, mustSucceed=True)},
              {"op": ops.op("metadata", names=["t1x"], mustSucceed=True)}]
        sc.update({"id": "firstdown-%d" % fi, "kind": "c12", "steps": st})
        out.append(sc)

    # 3d. SASL: the requests of the connection set-up are written at negotiated versions too
    for si, hs in enumerate(([1, 1], [0, 1], [0, 0])):
        ops = Ops()
        sc = cluster(ttl=150, **layouts[0])
        sc["sasl"] = {"user": "alice", "pass": "secret"}
        sc["vtab"] = {"0": {"SaslHandshake": hs}}
        st = steps_of([mkop(ops, k, rng, **kw) for k, kw in [("produce", dict(t="t1", p=0)), ("fetch", dict(t="t2", p=0)), ("metadata", {}), ("offsetcommit", {}),
                                                              ("listoffsets1", dict(t="t1", p=1))]])
        sc.update({"id": "sasl-%d" % si, "kind": "c12", "steps": st})
        out.append(sc)

    # 3e. calls the Transport splits into one sub-request per partition / group / broker, on a cluster where the
    # sub-requests must go to different brokers: three topics whose partitions have pairwise different leaders
    def split_cluster(ttl=1500):
        sc = cluster(ttl=ttl, **layouts[0])
        sc["topics"] = [{"name": "t1", "leaders": [1, 2]}, {"name": "t2", "leaders": [3, 1]}, {"name": "t3", "leaders": [2, 3]}]
        return sc
    def lo(ops, tps):
        return ops.op("listoffsets", parts=[{"t": t, "p": p, "k": (p + len(t) + i) % 6} for i, (t, p) in enumerate(tps)], mustSucceed=True)
    pairs = [[("t1", 0), ("t1", 1)], [("t2", 0), ("t2", 1)], [("t3", 0), ("t3", 1)]]       # first-listed partition on broker 1, 3, 2
    triples = [[("t1", 0), ("t1", 1), ("t2", 0)], [("t2", 0), ("t2", 1), ("t3", 1)], [("t1", 1), ("t3", 0), ("t3", 1)]]
    six = [(t, p) for t in ("t1", "t2", "t3") for p in (0, 1)]
    for name, sets in (("2", pairs), ("3", triples), ("6", [six])):
        ops = Ops()
        sc = split_cluster()
        st = []
        for tps in sets:
            st += [{"op": lo(ops, tps)}, {"op": lo(ops, tps)}]
        sc.update({"id": "split-listoffsets-%s" % name, "kind": "c12", "steps": st})
        out.append(sc)
    # ... and after the leaders changed
    ops = Ops()
    sc = split_cluster(ttl=100)
    st = [{"op": lo(ops, six)}, {"move": {"kind": "leader", "t": "t1", "p": 0, "to": 3}}, {"move": {"kind": "leader", "t": "t2", "p": 0, "to": 2}},
          {"waitRefresh": True}, {"op": lo(ops, six)}, {"op": lo(ops, triples[0])}]
    sc.update({"id": "split-listoffsets-moved", "kind": "c12", "steps": st})
    out.append(sc)
    # DescribeGroups over groups with different coordinators, ListGroups over every broker (monitor only)
    ops = Ops()
    sc = split_cluster()
    sc["noconf"] = True
    gc = {}
    st = []
    for rep_ in range(2):
        for coords in ([1, 2], [3, 1, 2], [2, 2, 3]):
            o = ops.n + 1
            groups = ["g-%d-%s" % (o, "abc"[i]) for i in range(len(coords))]
            for g, b in zip(groups, coords):
                gc[g] = b
            st.append({"op": ops.op("describegroups", groups=groups, mustSucceed=True)})
    st += [{"op": ops.op("listgroups", mustSucceed=True)}, {"op": ops.op("listgroups", mustSucceed=True)}]
    sc["gcoord"] = gc
    sc.update({"id": "split-groups", "kind": "c12", "steps": st})
    out.append(sc)

    # 4. metadata from the cache against what the brokers answered, across topic creation and deletion
    ops = Ops()
    sc = cluster(ttl=80)
    c1 = ops.op("createtopics")
    st = [{"op": ops.op("metadata", allTopics=True)}, {"op": ops.op("metadata", names=["t2"])}, {"op": ops.op("metadata", names=["zz", "t1", "t2"])},
          {"op": ops.op("metadata", names=[])}, {"op": c1}, {"op": ops.op("metadata", names=["new-%d" % c1["o"], "t1"])},
          {"op": ops.op("metadata", allTopics=True)}, {"op": ops.op("deletetopics", k=c1["o"])}, {"waitRefresh": True},
          {"op": ops.op("metadata", names=["new-%d" % c1["o"], "t2"])}, {"move": {"kind": "topiccreate", "t": "t3", "leaders": [2, 2]}},
          {"op": ops.op("metadata", names=["t3"])}, {"waitRefresh": True}, {"op": ops.op("metadata", names=["t3", "t1"])},
          {"op": ops.op("metadata", allTopics=True)}]
    sc.update({"id": "cache-0", "kind": "c12", "steps": st})
    out.append(sc)
    ops = Ops()
    sc = cluster(ttl=80)
    sc["metaTopics"] = ["t1"]
    st = [{"op": ops.op("metadata", allTopics=True)}, {"op": ops.op("metadata", names=["t2", "t1"])}, {"op": ops.op("produce", t="t1", p=1)}]
    sc.update({"id": "cache-1", "kind": "c12", "steps": st})
    out.append(sc)

    # 5. seeded random histories
    n = 30 if tier == "quick" else 400
    for k in range(n):
        out.append(random_script(rng, "rand-%d-%d" % (seed, k), allkinds, wide=(tier == "thorough")))
    return out


def random_script(rng, sid, kinds, wide=False):
    ops = Ops()
    nb = rng.choice([2, 3, 3])
    brokers = list(range(1, nb + 1))
    pick = lambda: rng.choice(brokers)
    tabs = None
    if rng.random() < 0.5:
        tabs = {b: rng.choice(["full", "older", "newer", "oldest"]) for b in brokers}
    boot = sorted(rng.sample(brokers, rng.randint(1, nb)))
    sc = cluster(brokers=brokers, boot=boot, leaders1=(pick(), pick()), leaders2=(pick(), pick()), coord=pick(), txn=pick(), ctrlr=pick(),
                 tables=tabs, ttl=rng.choice([60, 80, 100, 150]), idle=rng.choice([30000, 30000, 150]))
    st = []
    alive = set(brokers)
    nport = [9100]
    moved = False
    for _ in range(rng.randint(3, 6)):
        r = rng.random()
        if r < 0.55:
            st.append({"op": mkop(ops, rng.choice(kinds), rng)})
        elif r < 0.75:
            groups = [[mkop(ops, rng.choice(kinds), rng) for _ in range(rng.randint(1, 3 if wide else 2))] for _ in range(rng.randint(2, 3 if wide else 2))]
            st.append({"par": groups})
        elif r < 0.9:
            m = rng.random()
            if m < 0.5:
                st.append({"move": {"kind": "leader", "t": rng.choice(["t1", "t2"]), "p": rng.randrange(2), "to": rng.choice(sorted(alive))}})
            elif m < 0.6:
                st.append({"move": {"kind": rng.choice(["coord", "txn", "ctrlr"]), "to": rng.choice(sorted(alive))}})
            elif m < 0.7:
                nport[0] += 1
                st.append({"move": {"kind": "readdress", "b": rng.choice(sorted(alive)), "port": nport[0]}})
            elif m < 0.8 and len(alive) < 4:
                b = max(alive) + 1
                alive.add(b)
                st.append({"move": {"kind": "brokeradd", "b": b}})
            elif len(alive) > 2:
                cand = sorted(alive - set(boot[:1]))
                b = rng.choice(cand)
                alive.discard(b)
                st.append({"move": {"kind": "brokerremove", "b": b, "h": rng.choice(sorted(alive))}})
                if b in boot and len(boot) > 1:
                    pass
            moved = True
        else:
            st.append({"waitRefresh": True} if moved else {"sleepMs": rng.choice([5, 40, 120])})
    if moved:
        st.append({"waitRefresh": True})
        st += steps_of([mkop(ops, rng.choice(kinds), rng) for _ in range(3)])
    sc.update({"id": sid, "kind": "c12", "steps": st})
    return sc


# ---------------------------------------------------------------------------------------------
def run_scripts(ctx, scripts, tag, par=48):
    ctx.vh_keep = getattr(ctx, "vh_keep", None) or ["transport.go"]
    sp = os.path.join(ctx.work, "tscripts-%s.ndjson" % tag)
    tp = os.path.join(ctx.work, "ttraces-%s.ndjson" % tag)
    write_ndjson(sp, scripts)
    p = ctx.run_vh(["transport", "-scripts", sp, "-out", tp, "-par", str(par)], timeout=2400)
    if p.returncode != 0 and ("panic:" in p.stderr or "fatal error:" in p.stderr):
        return isolate(ctx, scripts, tag)
    if p.returncode != 0:
        raise Inconclusive("vh transport failed: " + p.stderr[-2000:])
    traces = split_traces(read_ndjson(tp))
    if len(traces) != len(scripts):
        raise Inconclusive("driver produced %d traces for %d scripts" % (len(traces), len(scripts)))
    return traces


def isolate(ctx, scripts, tag):
    """A panic in a goroutine of the library kills the driver: run every script in its own process and report
    the ones that die (C17/C06: never a panic). Returns the traces of the surviving scripts."""
    from concurrent.futures import ThreadPoolExecutor

    def one(k):
        sp = os.path.join(ctx.work, "tiso-%s-%d.ndjson" % (tag, k))
        tp = os.path.join(ctx.work, "tiso-%s-%d.t" % (tag, k))
        write_ndjson(sp, [scripts[k]])
        p = ctx.run_vh(["transport", "-scripts", sp, "-out", tp, "-par", "1"], timeout=300)
        if p.returncode != 0:
            return k, None, p.stderr
        return k, read_ndjson(tp), ""

    with ThreadPoolExecutor(max_workers=16) as ex:
        res = list(ex.map(one, range(len(scripts))))
    traces, died = [], 0
    for k, evs, err in res:
        if evs is None:
            if "panic:" in err or "fatal error:" in err:
                died += 1
                first = [x for x in err.splitlines() if x.startswith("panic:") or x.startswith("fatal error:")][:1]
                rep = ctx.save_replay("%s-panic" % scripts[k]["id"], [("script.json", json.dumps(scripts[k])), ("stderr.txt", err[-8000:])])
                if died <= 20:
                    ctx.violation("the library panicked during scenario %s: %s" % (scripts[k]["id"], first[0] if first else "panic"), rep,
                                  key="panic scenario=%s %s" % (scripts[k]["id"], first[0] if first else ""))
                traces.append([{"ev": "cfg", "id": scripts[k]["id"], "kind": scripts[k]["kind"], "vtab": [], "crange": [], "ttlMs": 0, "ops": [], "died": True}])
            else:
                raise Inconclusive("vh transport failed on %s: %s" % (scripts[k]["id"], err[-1500:]))
        else:
            traces.append(evs)
    return traces


def tid_of(out):
    m = re.findall(r'tid = "([^"]*)"', out)
    return m[-1] if m else None


def bad_of(out, inv):
    """the offending record(s) printed in the violating state"""
    m = re.findall(r"/\\ bad = (\[.*?\])\n/\\", out, re.S)
    return re.sub(r"\s+", " ", m[-1])[:1500] if m else ""


FIELD_OF = {"C12_Routing": "route", "C12_Version": "version", "C12_FollowLeader": "follow", "C12_FollowLeaderRealTime": "realtime",
            "C12_RefreshWithinTTL": "refresh", "C12_CacheFilter": "filter", "C12_HealthyCallSucceeds": "nexterr", "C12_SplitComplete": "split", "C06t_OwnResponse": "own", "C06t_NoReuseAfterFailure": "reuse",
            "C06t_ReleaseOnlyAfterComplete": "pending", "C17t_CutIsError": "cut", "C17t_NextCallSucceeds": "nexterr",
            "C17t_NoPanicNoHang": "hang", "C09t_CancelPrompt": "late", "C09t_ContextError": "ctxerr", "C09t_ClosedPoolConnsClose": "leak"}


def detail_of(out, inv):
    """api / kind of the first offending record, for a stable and specific violation key"""
    fld = FIELD_OF.get(inv, "")
    m = re.search(r"\b%s \|->\s*\{(.*?)\}" % fld, out[out.rfind("/\\ bad ="):] if "/\\ bad =" in out else "", re.S)
    if not m:
        return ""
    rec = re.sub(r"\s+", " ", m.group(1))
    a = re.search(r'api \|-> "([^"]*)"', rec)
    k = re.search(r'kind \|-> "([^"]*)"', rec)
    return ("api=%s" % a.group(1)) if a else (("kind=%s" % k.group(1)) if k else "")


def verdicts_of(out):
    """the VERDICT lines printed by TransportMon.tla at the end of every journal"""
    res = {}
    for m in re.finditer(r'^"VERDICT (.*)"\s*$', out, re.M):
        txt = m.group(1).replace('\\"', '"').replace("\\\\", "\\")
        try:
            v = json.loads(txt)
        except ValueError:
            continue
        res[v["tid"]] = v["bad"]
    return res


def monitor(ctx, scripts, traces, invs, maxviol=60):
    """TLC evaluates the invariants of TransportMon.tla on the concatenated journals. When one fails, a second
    run without the invariants lets the module print its findings for every journal, so that every violation is
    reported (and known findings cannot mask others)."""
    d = ctx.specdir(ENGINE)
    cfg = "TransportMon_%s.cfg" % ctx.prop
    with open(os.path.join(d, cfg), "w") as f:
        f.write("SPECIFICATION Spec\nINVARIANTS " + " ".join(invs) + "\nPOSTCONDITION TraceAccepted\nCHECK_DEADLOCK FALSE\n")
    with open(os.path.join(d, "TransportMon_all.cfg"), "w") as f:
        f.write("SPECIFICATION Spec\nPOSTCONDITION TraceAccepted\nCHECK_DEADLOCK FALSE\n")
    byid = {s["id"]: s for s in scripts}
    tf = os.path.join(ctx.work, "tmon-in-%s.ndjson" % ctx.prop)
    write_ndjson(tf, [e for t in traces for e in t])
    r = ctx.tlc(ENGINE, "TransportMon", cfg, workers=1, timeout=1800, env={"TRACE": tf}, tag="mon-" + ctx.prop)
    if not r["violated"]:
        if r["postcondition_failed"] or r["error"] or r["timeout"]:
            raise Inconclusive("monitor run failed: " + (r["error"] or r["out"][-1500:]))
        return len(traces)
    r2 = ctx.tlc(ENGINE, "TransportMon", "TransportMon_all.cfg", workers=1, timeout=1800, env={"TRACE": tf}, tag="monall-" + ctx.prop)
    if r2["postcondition_failed"] or r2["error"] or r2["timeout"] or r2["violated"]:
        raise Inconclusive("monitor (verdict run) failed: " + (r2["error"] or r2["out"][-1500:]))
    vd = verdicts_of(r2["out"])
    fields = {FIELD_OF[i]: i for i in invs}
    if "late" in fields:
        fields["hang"] = fields.get("hang", "C09t_CancelPrompt")
    nviol = 0
    for t in traces:
        tid = t[0].get("id")
        bad = vd.get(tid)
        if bad is None:
            if t[0].get("died"):
                continue
            raise Inconclusive("no verdict for journal %s" % tid)
        for fld, inv in sorted(fields.items()):
            recs = bad.get(fld) or []
            seen = set()
            for rec in recs:
                det = ("api=%s" % rec["api"]) if "api" in rec else (("kind=%s" % rec["kind"]) if "kind" in rec else "")
                if det in seen:
                    continue
                seen.add(det)
                nviol += 1
                if nviol > maxviol:
                    continue
                rep = ctx.save_replay("%s-%s" % (tid, inv), [
                    ("script.json", json.dumps(byid.get(tid, {}))),
                    ("trace.ndjson", "\n".join(json.dumps(e) for e in t) + "\n"),
                    ("finding.json", json.dumps({"invariant": inv, "records": recs}))])
                ctx.violation("%s violated on a journal of the real Transport (scenario %s) %s: %s" % (inv, tid, det, json.dumps(rec)[:500]),
                              rep, key="%s %s scenario=%s" % (inv, det, tid))
    if nviol == 0:
        raise Inconclusive("TLC reported %s but no finding was printed" % r["violated"])
    if nviol > maxviol:
        ctx.notes.append("%d violations found, the first %d reported" % (nviol, maxviol))
    return len(traces)


def chunks_of(traces, max_events=200):
    out, cur, n = [], [], 0
    for t in traces:
        if cur and n + len(t) > max_events:
            out.append(cur)
            cur, n = [], 0
        cur.append(t)
        n += len(t)
    if cur:
        out.append(cur)
    return out


def conformance(ctx, traces, budget=None, par=12):
    """Trace validation against Transport.tla (TransportTrace.tla). The journals are validated in chunks by
    several TLC processes (one worker each: the high-water mark of the trace spec is per process)."""
    from concurrent.futures import ThreadPoolExecutor
    budget = budget or (150 if ctx.tier == "quick" else 900)
    ctx.specdir(ENGINE)
    # (journals of calls Transport.tla does not describe are judged by the monitor only)
    chunks = chunks_of([t for t in traces if not t[0].get("died") and not t[0].get("noconf")])

    def one(k):
        remaining = list(chunks[k])
        accepted, divs, states, timed = 0, [], 0, 0
        rounds = 0
        while remaining and rounds < 6:
            rounds += 1
            tf = os.path.join(ctx.work, "tconf-%s-%d.ndjson" % (ctx.prop, k))
            write_ndjson(tf, [e for t in remaining for e in t])
            r = ctx.tlc(ENGINE, "TransportTrace", "TransportTrace.cfg", workers=1, timeout=budget, env={"TRACE": tf}, tag="conf-%s-%d-%d" % (ctx.prop, k, rounds))
            states += r["distinct"]
            if r["timeout"]:
                timed += len(remaining)
                break
            if r["postcondition_failed"] or r["violated"]:
                m = re.search(r'"DIVERGED_AT_LINE",\s*(\d+)', r["out"])
                if not m:
                    raise Inconclusive("conformance failure could not be located: " + r["out"][-1500:])
                line = int(m.group(1))
                n = 0
                for j, t in enumerate(remaining):
                    if line <= n + len(t):
                        ev = t[line - n - 1] if 0 < line - n <= len(t) else {}
                        ev = {a: b for a, b in ev.items() if a not in ("vtab", "crange", "ops", "alive", "topics", "ranges")}
                        divs.append({"trace": t[0].get("id"), "line": line - n, "event": ev})
                        accepted += j
                        remaining = remaining[j + 1:]
                        break
                    n += len(t)
                else:
                    raise Inconclusive("conformance failure could not be located")
                continue
            if r["error"]:
                raise Inconclusive("conformance run failed: " + r["error"][-1500:])
            accepted += len(remaining)
            remaining = []
        return accepted, divs, states, timed

    with ThreadPoolExecutor(max_workers=par) as ex:
        res = list(ex.map(one, range(len(chunks))))
    accepted = sum(x[0] for x in res)
    divs = [d for x in res for d in x[1]]
    states = sum(x[2] for x in res)
    timed = sum(x[3] for x in res)
    if timed:
        ctx.notes.append("%d journal(s) were not validated against Transport.tla within the time budget" % timed)
    return accepted, divs, states


def write_mc_cfg(d, name, reqs, menu, conns, moves, cancels, cuts, refresh, expire, closeidle, vtab, kinds="leader add remove topic coord txn ctrlr", bug="none", live=False, atomic=True):
    with open(os.path.join(d, name), "w") as f:
        f.write("SPECIFICATION %s\nCONSTANTS\n Brokers <- MC_Brokers\n Boot <- MC_Boot\n Topics <- MC_Topics\n NParts = 2\n Cluster0 <- MC_Cluster0\n" % ("FairSpec" if live else "Spec"))
        f.write(" VTab <- %s\n CRange <- MC_CRange\n Reqs <- %s\n Menu <- %s\n MaxConns = %d\n MaxMoves = %d\n MaxCancels = %d\n MaxCuts = %d\n" % (vtab, reqs, menu, conns, moves, cancels, cuts))
        f.write(" MaxRefresh = %d\n MaxExpire = %d\n MaxCloseIdle = %d\n Hist = %s\n Bug = \"%s\"\n" % (refresh, expire, closeidle, "FALSE" if live else "TRUE", bug))
        f.write(" AnyConnId = FALSE\n AtomicRelease = %s\n" % ("TRUE" if atomic else "FALSE"))
        f.write(" MoveKinds = {%s}\n" % ", ".join('"%s"' % k for k in kinds.split()))
        if live:
            f.write("PROPERTIES C12_RefreshWithinTTL\n")
        else:
            f.write("INVARIANTS " + " ".join(MC_INVS) + "\nPROPERTIES " + " ".join(MC_PROPS) + "\n")
        f.write("CHECK_DEADLOCK FALSE\n")


# name -> (reqs, menu, conns, moves, cancels, cuts, refresh, expire, closeidle, vtab, kinds of cluster changes)
ALLK = "leader add addr remove topic coord txn ctrlr"
MC_QUICK = {
    "addr": ("MC_Reqs2", "MC_MenuQ2", 3, 1, 0, 0, 1, 0, 0, "MC_VTabA", "addr"),
    "one": ("MC_Reqs1", "MC_Menu1", 3, 1, 0, 0, 1, 0, 0, "MC_VTabA", ALLK),
    "route": ("MC_Reqs2", "MC_MenuQ1b", 3, 1, 0, 0, 1, 0, 0, "MC_VTabA", "leader"),
    "fault": ("MC_Reqs2", "MC_MenuQ2", 4, 0, 1, 1, 0, 1, 0, "MC_VTabB", ALLK),
    "create": ("MC_Reqs2", "MC_MenuQ3", 4, 0, 0, 0, 1, 0, 0, "MC_VTabA", ALLK),
    "closeidle": ("MC_Reqs2", "MC_MenuQ3", 4, 0, 0, 0, 0, 0, 1, "MC_VTabA", ALLK),
    # resolving the caller and releasing the connection as two steps (AtomicRelease = FALSE)
    "release": ("MC_Reqs2", "MC_MenuQ2", 3, 0, 0, 0, 1, 0, 0, "MC_VTabA", "leader"),
}
MC_THOROUGH = {
    "addr": ("MC_Reqs2", "MC_MenuQ1", 4, 2, 0, 0, 1, 0, 0, "MC_VTabA", "addr leader"),
    "one": ("MC_Reqs1", "MC_Menu1", 3, 2, 0, 0, 1, 0, 0, "MC_VTabB", ALLK),
    "onefault": ("MC_Reqs1", "MC_Menu1", 3, 1, 1, 1, 1, 0, 0, "MC_VTabB", "leader remove coord"),
    "route": ("MC_Reqs2", "MC_MenuQ1", 3, 1, 0, 0, 1, 0, 0, "MC_VTabA", ALLK),
    "fault": ("MC_Reqs2", "MC_MenuQ2", 4, 1, 1, 1, 0, 1, 0, "MC_VTabB", "leader coord"),
    "create": ("MC_Reqs2", "MC_MenuQ3", 4, 1, 0, 0, 1, 0, 0, "MC_VTabA", "ctrlr topic add"),
    "closeidle": ("MC_Reqs2", "MC_MenuQ3", 4, 0, 0, 0, 1, 0, 1, "MC_VTabA", ALLK),
    "release": ("MC_Reqs2", "MC_MenuQ2", 3, 1, 0, 0, 1, 0, 0, "MC_VTabA", "addr"),
}


def model_check(ctx, guard_names):
    """model checking of Transport.tla in several small configurations, and the vacuity guards: each seeded
    defect of the model must be rejected by an invariant that is about it. The runs are independent: in parallel."""
    from concurrent.futures import ThreadPoolExecutor
    d = ctx.specdir(ENGINE)
    table = MC_QUICK if ctx.tier == "quick" else MC_THOROUGH
    jobs = []
    for name, args in table.items():
        cfg = "MCgen_%s.cfg" % name
        write_mc_cfg(d, cfg, *args, atomic=not name.startswith("release"))
        jobs.append(("mc", name, cfg))
    live_args = ("MC_Reqs0", "MC_Menu0", 2, 2, 0, 1, 1, 1, 0, "MC_VTabA", ALLK)
    write_mc_cfg(d, "LIVE_refresh.cfg", *live_args, live=True)
    jobs.append(("live", "refresh", "LIVE_refresh.cfg"))
    for bug in guard_names:
        base, expect = GUARDS[bug]
        cfg = "MCguard_%s.cfg" % bug
        if base == "live":
            write_mc_cfg(d, cfg, *live_args, bug=bug, live=True)
        else:
            write_mc_cfg(d, cfg, *MC_QUICK[base], bug=bug)
        jobs.append(("guard", bug, cfg))

    def one(job):
        kind, name, cfg = job
        return job, ctx.tlc(ENGINE, "MCTransport", cfg, workers=6 if kind == "mc" else 3, timeout=1500 if ctx.tier == "quick" else 3000, tag="%s-%s" % (kind, name))

    with ThreadPoolExecutor(max_workers=len(jobs)) as ex:
        res = list(ex.map(one, jobs))
    cov = {"states": 0, "transitions": 0, "mc_configs": {}, "vacuity_guards": {}}
    for (kind, name, cfg), r in res:
        if kind == "live":
            if r["violated"] or r["error"] or r["timeout"]:
                raise Inconclusive("liveness check C12_RefreshWithinTTL of Transport.tla did not pass: " + r["out"][-2000:])
            cov.update({"live_states": r["distinct"], "live_wall_s": round(r["wall"], 1)})
        elif kind == "mc":
            if r["violated"] or r["error"] or r["timeout"]:
                raise Inconclusive("model checking of Transport.tla (%s) did not pass: %s" % (name, r["out"][-2000:]))
            cov["states"] += r["distinct"]
            cov["transitions"] += r["generated"]
            cov["mc_configs"][name] = {"distinct": r["distinct"], "generated": r["generated"], "depth": r["depth"], "wall_s": round(r["wall"], 1)}
        else:
            tm = re.search(r"Temporal property (\S+) was violated", r["out"])
            if tm and not r["violated"]:
                r["violated"] = tm.group(1)
            if r["violated"] not in GUARDS[name][1]:
                raise Inconclusive("vacuity guard failed: the model with defect %s was not rejected (%s)" % (name, r["violated"] or r["out"][-600:]))
            cov["vacuity_guards"][name] = r["violated"]
    ctx.log("Transport MC ok: %s" % json.dumps(cov["mc_configs"]))
    return cov


def liveness(ctx):
    d = ctx.specdir(ENGINE)
    write_mc_cfg(d, "LIVE_refresh.cfg", "MC_Reqs0", "MC_Menu0", 2, 2, 0, 1, 1, 1, 0, "MC_VTabA", ALLK, live=True)
    r = ctx.tlc(ENGINE, "MCTransport", "LIVE_refresh.cfg", workers=8, timeout=900)
    if r["violated"] or r["error"] or r["timeout"]:
        raise Inconclusive("liveness check C12_RefreshWithinTTL of Transport.tla did not pass: " + r["out"][-2000:])
    return {"live_states": r["distinct"], "live_wall_s": round(r["wall"], 1)}


def report(ctx, prop, cov, scripts, traces, invs):
    checked = monitor(ctx, scripts, traces, invs)
    accepted, divs, tstates = conformance(ctx, traces)
    nreq = sum(1 for t in traces for e in t if e.get("ev") == "req")
    cov.update({"traces_validated_against_impl": accepted, "traces_monitored": checked, "scenarios": len(scripts),
                "trace_events": sum(len(t) for t in traces), "requests_journaled": nreq, "trace_validation_states": tstates,
                "divergence_count": len(divs), "divergences": divs[:10], "invariants": invs})
    if divs:
        ctx.notes.append("DIVERGENCE: %d journal(s) of the real Transport are not behaviours of Transport.tla" % len(divs))
        print("DIVERGENCE property=%s traces=%d first=%s" % (prop, len(divs), json.dumps(divs[0])[:400]), flush=True)
    return cov


def sample(scripts, traces):
    s = scripts[len(scripts) // 2]
    t = traces[len(traces) // 2]
    reqs = [{k: e[k] for k in ("api", "v", "broker", "conn", "corr", "o")} for e in t if e.get("ev") == "req"][:8]
    return [{"script": {"id": s["id"], "steps": s["steps"][:6]}}, {"requests": reqs},
            {"opend": [{k: e[k] for k in ("o", "kind", "result", "code", "own")} for e in t if e.get("ev") == "opend"][:8]}]


def run(ctx):
    cov = {"engine": "transport"}
    if os.environ.get("VERIF_TRANSPORT_NOMC"):      # development aid (seeded-bug experiments): journals only
        ctx.notes.append("model checking skipped (VERIF_TRANSPORT_NOMC)")
        cov.update({"states": 0, "transitions": 0})
    else:
        cov.update(model_check(ctx, ["firstBroker", "clientMax", "staleCache", "filterAll", "groupToController", "keepGroupOnReaddress", "stopOnRefreshTimeout", "splitWholeToFirst"] if ctx.tier == "quick" else list(GUARDS)))
    scripts = c12_scripts(ctx.seed, ctx.tier)
    traces = run_scripts(ctx, scripts, "c12")
    report(ctx, "C12", cov, scripts, traces, PROP_INVS["C12"])
    cov["samples"] = sample(scripts, traces)
    return cov


# ---------------------------------------------------------------------------------------------
# Transport parts of C17, C06, C09

# (tag, kind of call, api whose response is cut, fault placement, version table for all brokers)
C17_TYPES = [
    ("produce-v8", "produce", "Produce", {}, {"Produce": [0, 8]}),
    ("produce-v7", "produce", "Produce", {}, {"Produce": [0, 7]}),
    ("produce-v3", "produce", "Produce", {}, {"Produce": [0, 3]}),
    ("produce-v2", "produce", "Produce", {}, {"Produce": [0, 2]}),
    ("fetch-v11", "fetch", "Fetch", {}, {"Fetch": [0, 11]}),
    ("fetch-v10", "fetch", "Fetch", {}, {"Fetch": [0, 10]}),
    ("fetch-v5", "fetch", "Fetch", {}, {"Fetch": [0, 5]}),
    ("fetch-v2", "fetch", "Fetch", {}, {"Fetch": [0, 2]}),
    ("listoffsets-v5", "listoffsets1", "ListOffsets", {}, {"ListOffsets": [0, 5]}),
    ("listoffsets-v1", "listoffsets1", "ListOffsets", {}, {"ListOffsets": [0, 1]}),
    ("listoffsets2-v5", "listoffsets", "ListOffsets", {"part": 1}, {"ListOffsets": [0, 5]}),
    ("findcoordinator-v2", "findcoordinator", "FindCoordinator", {}, {}),
    ("findcoordinator-v0", "findcoordinator", "FindCoordinator", {}, {"FindCoordinator": [0, 0]}),
    ("findcoordinator-leg", "offsetcommit", "FindCoordinator", {"leg": 1}, {}),
    ("offsetcommit-v7", "offsetcommit", "OffsetCommit", {}, {}),
    ("offsetcommit-v2", "offsetcommit", "OffsetCommit", {}, {"OffsetCommit": [0, 2]}),
    ("offsetfetch-v5", "offsetfetch", "OffsetFetch", {}, {}),
    ("offsetfetch-v1", "offsetfetch", "OffsetFetch", {}, {"OffsetFetch": [0, 1]}),
    ("joingroup-v2", "joingroup", "JoinGroup", {}, {}),
    ("createtopics-v4", "createtopics", "CreateTopics", {}, {"CreateTopics": [0, 4]}),
    ("createtopics-v0", "createtopics", "CreateTopics", {}, {"CreateTopics": [0, 0]}),
    ("deletetopics-v3", "deletetopics", "DeleteTopics", {}, {"DeleteTopics": [0, 3]}),
    ("initproducerid-v1", "initproducerid", "InitProducerId", {}, {}),
    ("addpartitionstotxn-v2", "addpartitionstotxn", "AddPartitionsToTxn", {}, {}),
    ("endtxn-v2", "endtxn", "EndTxn", {}, {}),
    ("apiversions-v0", "produce", "ApiVersions", {"wire": True}, {}),
    ("metadata-v8", "produce", "Metadata", {"wire": True}, {"Metadata": [0, 8]}),
    ("metadata-v5", "produce", "Metadata", {"wire": True}, {"Metadata": [0, 5]}),
    ("metadata-v1", "produce", "Metadata", {"wire": True}, {"Metadata": [0, 1]}),
]
C17_QUICK = {"produce-v8", "produce-v7", "produce-v2", "fetch-v11", "fetch-v10", "fetch-v2", "listoffsets-v5", "listoffsets-v1", "listoffsets2-v5",
             "findcoordinator-v2", "findcoordinator-leg", "offsetcommit-v7", "offsetfetch-v5", "joingroup-v2", "createtopics-v4", "deletetopics-v3",
             "initproducerid-v1", "endtxn-v2", "apiversions-v0", "metadata-v8", "metadata-v1"}


def c17_script(tag, kind, api, place, table, cut):
    """one call whose response (or a response it depends on) is cut at byte `cut` (None: probe), then the same call again"""
    import zlib
    rng = random.Random(zlib.crc32(tag.encode()))
    ops = Ops()
    # (the discover loop gives its metadata request one TTL to complete: a short TTL on a loaded machine makes the
    # first load fail for reasons that have nothing to do with the scenario)
    sc = cluster(brokers=(1, 2), boot=(1,), leaders1=(2, 2), leaders2=(2, 2), coord=2, txn=2, ctrlr=2,
                 ttl=400 if (place.get("wire") and api == "Metadata") else 3000)
    sc["vtab"] = {"0": dict(table)}
    st = []
    fault = None
    if cut is not None and not place.get("wire"):
        fault = {"cut": cut}
        fault.update({k: v for k, v in place.items() if k in ("leg", "part")})
    kw = dict(t="t1", p=0)
    created = None
    if kind == "deletetopics":
        created = ops.op("createtopics")
        st.append({"op": created})
    if kind == "listoffsets":
        first = ops.op("listoffsets", parts=[{"t": "t1", "p": 0, "k": 1}, {"t": "t1", "p": 1, "k": 2}])
    elif kind == "deletetopics":
        first = ops.op("deletetopics", k=created["o"])
    else:
        first = mkop(ops, kind, rng, **kw)
        if kind == "fetch":
            first["k"] = 0      # from the start of the log: the record set of the response holds several batches
    if fault:
        first["fault"] = fault
    if place.get("wire"):
        if cut is not None:
            # ApiVersions: the handshake of the connection to the leader (broker 2); Metadata: the first load of the pool
            sc["wfaults"] = [{"api": api, "broker": 2 if api == "ApiVersions" else 0, "nth": 1, "cut": cut}]
        first["mayFail"] = True
    st.append({"op": first})
    if place.get("wire") and api == "Metadata":
        st.append({"sleepMs": 650})     # the discover loop loads the metadata again within one TTL
    if kind == "deletetopics":
        c2 = ops.op("createtopics", mustSucceed=True)
        st += [{"op": c2}, {"op": ops.op("deletetopics", k=c2["o"], mustSucceed=True)}]
    elif kind == "listoffsets":
        st.append({"op": ops.op("listoffsets", parts=[{"t": "t1", "p": 0, "k": 3}, {"t": "t1", "p": 1, "k": 0}], mustSucceed=True)})
    else:
        nxt = mkop(ops, kind, rng, **kw)
        nxt["mustSucceed"] = True
        st.append({"op": nxt})
    sc.update({"id": "c17-%s-%s" % (tag, "probe" if cut is None else "k%d" % cut), "kind": "c17", "steps": st})
    return sc


def c17_scripts(ctx, lens):
    rng = random.Random(ctx.seed)
    out = []
    for (tag, kind, api, place, table) in C17_TYPES:
        if ctx.tier == "quick" and tag not in C17_QUICK:
            continue
        n = lens.get(tag)
        if not n:
            continue
        ks = list(range(n))
        if ctx.tier == "quick" and n > 90:
            ks = sorted(set(list(range(60)) + rng.sample(range(60, n), 25) + [n - 1]))
        for k in ks:
            out.append(c17_script(tag, kind, api, place, table, k))
    return out


def c17_lengths(probes, traces):
    """frame length of the response that will be cut, from the probe run"""
    lens = {}
    for (tag, kind, api, place, table), t in zip(probes, traces):
        for e in t:
            if e.get("ev") != "reply" or e.get("api") != api or e.get("closed"):
                continue
            if place.get("wire"):
                if api == "ApiVersions" and e.get("broker") != 2:
                    continue
                lens.setdefault(tag, e["len"])
            elif e.get("o") == (2 if kind == "deletetopics" else 1):
                if api == "FindCoordinator" or e.get("leg") == (place.get("part", 0) + 1 if kind == "listoffsets" else e.get("leg")):
                    lens.setdefault(tag, e["len"])
    return lens


def c06_abandon_scripts(tier):
    """Directed, gate-driven: call A is abandoned (its context ends) while the broker holds back the answer. Calls B and
    C of other kinds go to the same broker before and after the held answer is released: they must get their own
    answers, and nothing may be written on A's connection while A's answer is outstanding."""
    rng = random.Random(606)
    out = []
    # (kind of A, kinds of the calls that follow) -- everything is led / coordinated by broker 2
    combos = [("fetch", ["listoffsets1", "produce"]), ("listoffsets1", ["fetch", "offsetfetch"]), ("produce", ["fetch", "listoffsets1"]),
              ("offsetfetch", ["produce", "fetch"]), ("initproducerid", ["listoffsets1", "produce"])]

    def base():
        return cluster(brokers=(1, 2), boot=(1,), leaders1=(2, 2), leaders2=(2, 2), coord=2, txn=2, ctrlr=2, ttl=3000)

    def follow(ops, kinds, k0):
        return [{"op": dict(mkop(ops, kk, rng, t="t1", p=(i + k0) % 2), mustSucceed=True)} for i, kk in enumerate(kinds)]

    for ci, (ka, after) in enumerate(combos):
        for how in ("deadline", "cancel"):
            if how == "cancel" and tier == "quick" and ci not in (0, 2):
                continue
            ops = Ops()
            sc = base()
            st = follow(ops, [ka], 0)                  # a connection to broker 2 exists and is idle
            a = mkop(ops, ka, rng, t="t1", p=0)
            a["fault"] = {"hold": True, "leg": 0}
            if how == "deadline":
                a["deadlineMs"] = 60
            else:
                a["cancelAfterMs"] = 5
            st.append({"op": a})                        # returns with the context's error; the answer is still held
            st += follow(ops, after, 0)                 # before the held answer is released
            st += [{"release": a["o"]}, {"sleepMs": 30}]
            st += follow(ops, after, 1)                 # and after
            st += follow(ops, [ka], 1)
            sc.update({"id": "c06-abandon-%s-%s" % (ka, how), "kind": "c06", "steps": st})
            out.append(sc)
    # two abandoned exchanges in a row (on two connections), then the others
    for ci, (ka, kb, after) in enumerate([("fetch", "listoffsets1", ["produce", "offsetfetch"]), ("produce", "offsetfetch", ["fetch", "listoffsets1"])]):
        ops = Ops()
        sc = base()
        st = follow(ops, [ka], 0)
        held = []
        for kk in (ka, kb):
            a = mkop(ops, kk, rng, t="t1", p=1)
            a["fault"] = {"hold": True, "leg": 0}
            a["deadlineMs"] = 60
            held.append(a)
            st.append({"op": a})
        st += follow(ops, after, 0)
        st += [{"release": held[0]["o"]}, {"sleepMs": 20}]
        st += follow(ops, after, 1)
        st += [{"release": held[1]["o"]}, {"sleepMs": 20}]
        st += follow(ops, after + [ka, kb], 0)
        sc.update({"id": "c06-abandon-two-%d" % ci, "kind": "c06", "steps": st})
        out.append(sc)
    return out


def c06_scripts(seed, n):
    rng = random.Random(seed * 104729 + 6)
    kinds = KINDS_LEADER + ["listoffsets", "metadata", "findcoordinator", "createtopics"] + KINDS_GROUP + KINDS_TXN
    out = []
    for k in range(n):
        ops = Ops()
        nb = rng.choice([2, 3])
        brokers = list(range(1, nb + 1))
        pick = lambda: rng.choice(brokers)
        sc = cluster(brokers=brokers, boot=sorted(rng.sample(brokers, rng.randint(1, nb))), leaders1=(pick(), pick()), leaders2=(pick(), pick()),
                     coord=pick(), txn=pick(), ctrlr=pick(), ttl=rng.choice([400, 1000, 3000]), idle=rng.choice([30000, 30000, 120]))
        groups = []
        allops = []
        for g in range(rng.randint(2, 4)):
            lst = []
            for _ in range(rng.randint(1, 3)):
                op = mkop(ops, rng.choice(kinds), rng)
                r = rng.random()
                if r < 0.25:
                    op["fault"] = {"delayMs": rng.choice([2, 5, 15, 30])}
                elif r < 0.45:
                    op["fault"] = {"chunks": [rng.randint(1, 9) for _ in range(rng.randint(1, 4))]}
                lst.append(op)
                allops.append(op)
            groups.append(lst)
        # one hard fault per script: a cut, a cancelled call whose response is held back, or a deadline
        cand = [o for o in allops if o["kind"] not in ("metadata",)]
        r = rng.random()
        tail = []
        if cand and r < 0.3:
            v = rng.choice(cand)
            v["fault"] = {"cut": rng.randint(0, 40)}
            if v["kind"] in ("offsetcommit", "offsetfetch", "joingroup", "initproducerid", "addpartitionstotxn", "endtxn") and rng.random() < 0.3:
                v["fault"]["leg"] = 1
        elif cand and r < 0.55:
            v = rng.choice(cand)
            v["fault"] = {"hold": True}
            v["cancelAfterMs"] = rng.choice([1, 5, 20])
            tail = [{"release": v["o"]}, {"sleepMs": 20}]
        elif cand and r < 0.7:
            v = rng.choice(cand)
            v["fault"] = {"hold": True}
            v["deadlineMs"] = rng.choice([20, 40, 80])
            tail = [{"sleepMs": 100}, {"release": v["o"]}, {"sleepMs": 20}]
        st = [{"par": groups}] + tail
        # afterwards every kind of call still gets its own answer
        st += steps_of([dict(mkop(ops, kk, rng), mustSucceed=True) for kk in rng.sample(KINDS_LEADER + ["offsetfetch", "initproducerid"], 3)])
        sc.update({"id": "c06-%d-%d" % (seed, k), "kind": "c06", "steps": st})
        out.append(sc)
    return out


def c09_scripts(seed, tier):
    rng = random.Random(seed * 31337 + 9)
    out = []
    kinds = [("produce", 0), ("fetch", 0), ("listoffsets1", 0), ("listoffsets", 0), ("offsetcommit", 0), ("offsetcommit", 1), ("offsetfetch", 0),
             ("joingroup", 0), ("findcoordinator", 0), ("createtopics", 0), ("initproducerid", 0), ("initproducerid", 1), ("endtxn", 0)]
    for (kind, leg) in kinds:
        for how in ("cancel", "deadline"):
            for warm in ((True, False) if tier == "thorough" else (True,)):
                ops = Ops()
                sc = cluster(brokers=(1, 2), boot=(1,), leaders1=(2, 2), leaders2=(2, 2), coord=2, txn=2, ctrlr=2, ttl=2000)
                kw = dict(t="t1", p=0)
                st = []
                if warm:
                    st.append({"op": dict(mkop(ops, kind, rng, **kw), mustSucceed=True)})
                v = mkop(ops, kind, rng, **kw)
                v["fault"] = {"hold": True, "leg": leg}
                if how == "cancel":
                    v["cancelAfterMs"] = rng.choice([1, 10, 30])
                else:
                    v["deadlineMs"] = rng.choice([40, 80])
                st.append({"op": v})
                # while the abandoned exchange is still pending, the same kind of call works (on another connection)
                st.append({"op": dict(mkop(ops, kind, rng, **kw), mustSucceed=True)})
                st += [{"release": v["o"]}, {"sleepMs": 30}]
                st.append({"op": dict(mkop(ops, kind, rng, **kw), mustSucceed=True)})
                st.append({"op": dict(mkop(ops, kind, rng, **kw), mustSucceed=True)})
                sc.update({"id": "c09-%s-leg%d-%s%s" % (kind, leg, how, "" if warm else "-cold"), "kind": "c09", "steps": st})
                out.append(sc)
    # The pool, or the connection group of a broker, is closed while exchanges are in flight on its connections; the
    # held answers are released afterwards and the exchanges complete successfully: every connection opened before
    # must be closed once its exchange is over (census after things settled).
    def base(ttl):
        return cluster(brokers=(1, 2), boot=(1,), leaders1=(2, 2), leaders2=(2, 2), coord=2, txn=2, ctrlr=2, ttl=ttl)
    sets = [["produce"], ["fetch", "initproducerid"], ["produce", "offsetfetch", "listoffsets1"]]
    for si, ks in enumerate(sets if tier == "thorough" else sets[:3]):
        # (a) Transport.CloseIdleConnections while abandoned exchanges are still pending
        ops = Ops()
        sc = base(2000)
        kw = dict(t="t1", p=0)
        st = [{"op": dict(mkop(ops, ks[0], rng, **kw), mustSucceed=True)}]
        held = []
        for k in ks:
            v = mkop(ops, k, rng, **kw)
            v["fault"] = {"hold": True, "leg": 0}
            v["cancelAfterMs"] = 10
            held.append(v)
        st.append({"par": [[v] for v in held]})
        st.append({"closeIdle": True})
        st += [{"release": v["o"]} for v in held]
        st.append({"censusMs": 1200})
        st.append({"op": dict(mkop(ops, ks[0], rng, **kw), mustSucceed=True)})
        sc.update({"id": "c09-poolclose-%d" % si, "kind": "c09", "steps": st})
        out.append(sc)
        # (b) the broker re-registers at another address while calls are in flight on connections to the old one;
        # the refresh closes the old connection group; the calls complete successfully afterwards
        ops = Ops()
        sc = base(400)
        st = [{"op": dict(mkop(ops, ks[0], rng, **kw), mustSucceed=True)}]
        held = []
        for k in ks:
            v = mkop(ops, k, rng, **kw)
            v["fault"] = {"hold": True, "leg": 0}
            v["mustSucceed"] = True
            held.append(v)
        st.append({"bg": [[v] for v in held]})
        st += [{"waitArrived": v["o"]} for v in held]
        st.append({"move": {"kind": "readdress", "b": 2, "port": 9093}})
        st.append({"waitRefresh": True})
        st += [{"release": v["o"]} for v in held]
        st.append({"join": True})
        st.append({"censusMs": 1200})
        st.append({"op": dict(mkop(ops, ks[0], rng, **kw), mustSucceed=True)})
        sc.update({"id": "c09-groupclose-%d" % si, "kind": "c09", "steps": st})
        out.append(sc)

    # the context ends while the connection is being set up, and while the pool waits for its first metadata
    for (api, broker, tag) in (("ApiVersions", 2, "connect"), ("Metadata", 0, "firstload")):
        for how in ("cancel", "deadline"):
            ops = Ops()
            sc = cluster(brokers=(1, 2), boot=(1,), leaders1=(2, 2), leaders2=(2, 2), coord=2, txn=2, ctrlr=2, ttl=2000)
            sc["wfaults"] = [{"api": api, "broker": broker, "nth": 1, "hold": True, "id": 1}]
            v = ops.op("produce", t="t1", p=0, expectCtx=True)
            if how == "cancel":
                v.update({"cancelAfterMs": 30, "cancelBlind": True})
            else:
                v["deadlineMs"] = 60
            st = [{"op": v}, {"release": -1}, {"sleepMs": 150}, {"op": ops.op("produce", t="t1", p=0, mustSucceed=True)},
                  {"op": ops.op("fetch", t="t1", p=0, k=1, mustSucceed=True)}]
            sc.update({"id": "c09-%s-%s" % (tag, how), "kind": "c09", "steps": st})
            out.append(sc)
    return out


def run_part(ctx, prop):
    """Transport part of C06, C17 or C09: journals of the real Transport judged by TransportMon.tla and validated
    against Transport.tla. Calls ctx.violation itself; returns the coverage of this part."""
    cov = {"engine": "transport"}
    if not os.environ.get("VERIF_TRANSPORT_NOMC"):
        d = ctx.specdir(ENGINE)
        name = "fault"
        table = MC_QUICK if ctx.tier == "quick" else MC_THOROUGH
        write_mc_cfg(d, "MCpart_%s.cfg" % prop, *table[name])
        r = ctx.tlc(ENGINE, "MCTransport", "MCpart_%s.cfg" % prop, workers=12, timeout=2400, tag="mcpart-" + prop)
        if r["violated"] or r["error"] or r["timeout"]:
            raise Inconclusive("model checking of Transport.tla (%s) did not pass: %s" % (name, r["out"][-2000:]))
        cov.update({"states": r["distinct"], "transitions": r["generated"], "mc_depth": r["depth"], "mc_config": name})
        gname = {"C06": "releaseOnCancel", "C17": "releaseOnFail", "C09": "leakOnClosedGroup"}[prop]
        write_mc_cfg(d, "MCpartguard_%s.cfg" % prop, *MC_QUICK[GUARDS[gname][0]], bug=gname)
        r2 = ctx.tlc(ENGINE, "MCTransport", "MCpartguard_%s.cfg" % prop, workers=6, timeout=600, tag="mcpartguard-" + prop)
        if r2["violated"] not in GUARDS[gname][1]:
            raise Inconclusive("vacuity guard failed: the model with defect %s was not rejected (%s)" % (gname, r2["violated"] or r2["out"][-600:]))
        cov["vacuity_guards"] = {gname: r2["violated"]}
    if prop == "C17":
        types = [x for x in C17_TYPES if ctx.tier == "thorough" or x[0] in C17_QUICK]
        probes = [c17_script(tag, kind, api, place, table, None) for (tag, kind, api, place, table) in types]
        ptr = run_scripts(ctx, probes, "c17probe")
        lens = c17_lengths(types, ptr)
        missing = [x[0] for x in types if x[0] not in lens]
        if missing:
            raise Inconclusive("no frame length for %s" % missing)
        scripts = c17_scripts(ctx, lens)
        cov["cut_points"] = len(scripts)
        cov["frames"] = lens
    elif prop == "C06":
        directed = c06_abandon_scripts(ctx.tier)
        scripts = directed + c06_scripts(ctx.seed, 120 if ctx.tier == "quick" else 2500)
    elif prop == "C09":
        scripts = c09_scripts(ctx.seed, ctx.tier)
    else:
        raise Inconclusive("no transport part for %s" % prop)
    traces = run_scripts(ctx, scripts, prop.lower())
    # trace validation is the expensive half: every journal in the thorough tier, a seeded sample in the quick tier
    if ctx.tier == "quick":
        rng = random.Random(ctx.seed)
        idx = sorted(rng.sample(range(len(scripts)), min(len(scripts), {"C17": 160, "C06": 30, "C09": 30}[prop])))
        if prop == "C06":       # every directed journal is validated
            idx = sorted(set(idx) | set(range(len(directed))))
    else:
        idx = list(range(len(scripts)))
    checked = monitor(ctx, scripts, traces, PROP_INVS[prop])
    accepted, divs, tstates = conformance(ctx, [traces[i] for i in idx])
    cov.update({"traces_validated_against_impl": accepted, "traces_submitted_for_validation": len(idx), "traces_monitored": checked,
                "scenarios": len(scripts), "trace_events": sum(len(t) for t in traces), "trace_validation_states": tstates,
                "requests_journaled": sum(1 for t in traces for e in t if e.get("ev") == "req"),
                "divergence_count": len(divs), "divergences": divs[:10], "invariants": PROP_INVS[prop], "samples": sample(scripts, traces)})
    if divs:
        ctx.notes.append("DIVERGENCE: %d journal(s) of the real Transport are not behaviours of Transport.tla" % len(divs))
        print("DIVERGENCE property=%s traces=%d first=%s" % (prop, len(divs), json.dumps(divs[0])[:400]), flush=True)
    return cov


def replay(ctx, path):
    from engines import replayer
    return replayer.replay(ctx, path)
