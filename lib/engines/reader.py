"""Engine E2: non-group kafka.Reader position keeping (C02)."""
import json, os, random, re
from vlib import Inconclusive, read_ndjson, write_ndjson, split_traces

ENGINE = "fetchlog"
PROPS = {"C02": "model_checking"}
INVS = ["C02_Ascending", "C02_StoredContent", "C02_NoGap", "C02_Progress"]


def gen_log(rng, allow_old=True):
    n = rng.randint(4, 14)
    off = rng.choice([0, 0, 0, 3])
    start = off
    batches = []
    era_old = rng.random() < 0.35 and allow_old
    old_until = rng.randint(1, 4) if era_old else 0
    while off < start + n:
        size = rng.randint(1, 4)
        base, last = off, off + size - 1
        if len(batches) < old_until:
            fmt = rng.choice(["v1", "v1w", "v1w", "v0"])
        else:
            fmt = "v2"
        if fmt in ("v1", "v0"):
            # plain messages: one entry per record
            keep = [o for o in range(base, last + 1) if rng.random() < 0.8]
            for o in keep:
                batches.append({"base": o, "last": o, "present": [o], "fmt": fmt, "codec": 0})
        elif fmt == "v1w":
            present = [o for o in range(base, last + 1) if rng.random() < 0.75] or [last]
            if present[-1] != last:
                present.append(last)      # the wrapper carries the offset of its last inner message
            batches.append({"base": present[0], "last": last, "present": present, "fmt": fmt, "codec": rng.choice([1, 2, 3])})
        else:
            r = rng.random()
            if r < 0.12:
                present = []
            elif r < 0.5:
                present = [o for o in range(base, last + 1) if rng.random() < 0.6]
            else:
                present = list(range(base, last + 1))
            # (the log cleaner writes retained empty batches uncompressed)
            batches.append({"base": base, "last": last, "present": present, "fmt": "v2", "codec": rng.choice([0, 0, 0, 1, 2, 3, 4]) if present else 0})
        off = last + 1 + (rng.randint(1, 2) if rng.random() < 0.1 else 0)
    return batches


def gen_script(rng, sid):
    log = gen_log(rng)
    first = log[0]["base"]
    end = log[-1]["last"] + 1
    logstart = first
    start = rng.choice([-2, -2, -1, rng.randint(first, end), rng.randint(first, end)])
    steps = []
    nf = rng.randint(0, 3)
    for _ in range(nf):
        k = rng.random()
        if k < 0.3:
            f = {"kind": "err", "code": rng.choice([6, 7, 6])}
        elif k < 0.4:
            f = {"kind": "empty"}
        elif k < 0.75:
            f = {"kind": "trunc", "batches": rng.randint(0, 2), "records": rng.randint(0, 3), "extra": rng.choice([0, 1, 5, 13, 30])}
        else:
            f = {"kind": "cut", "batches": rng.randint(0, 2), "records": rng.randint(0, 3), "extra": rng.choice([0, 1, 7, 20])}
        steps.append({"op": "fault", "fault": f})
        if rng.random() < 0.6:
            steps.append({"op": "fetch", "n": rng.randint(1, 4)})
    if rng.random() < 0.5:
        steps.append({"op": "fetch", "n": rng.randint(1, 5)})
    for _ in range(rng.randint(0, 2)):
        r = rng.random()
        if r < 0.45:
            steps.append({"op": "setoffset", "o": rng.choice([-2, -1, rng.randint(first, end), rng.randint(first, end)])})
        elif r < 0.6:
            steps.append({"op": "moveleader", "to": 2})
            steps.append({"op": "fetch", "n": 2})
            steps.append({"op": "moveleader", "to": 1})
        elif r < 0.8:
            nb = {"base": end, "last": end + 1, "present": [end, end + 1] if rng.random() < 0.7 else [end + 1], "fmt": "v2", "codec": rng.choice([0, 2])}
            steps.append({"op": "append", "batch": nb})
            end += 2
        else:
            steps.append({"op": "sleep", "ms": rng.choice([5, 30])})
        if rng.random() < 0.3:
            steps.append({"op": "fault", "fault": {"kind": rng.choice(["cut", "trunc"]), "batches": rng.randint(0, 1), "records": rng.randint(0, 2), "extra": rng.choice([0, 3])}})
        steps.append({"op": "fetch", "n": rng.randint(1, 6)})
    steps.append({"op": "fetch", "n": 40})      # drain: until FetchMessage times out
    fv = rng.choice([2, 5, 10, 10])
    # (before fetch v3 a broker does not return a first batch larger than MaxBytes whole: a MaxBytes below the largest batch
    # is a configuration in which no client can make progress, so small limits are used with v3+ only)
    mb = rng.choice([1 << 20, 1 << 20, 200, 400, 700]) if fv >= 3 else 1 << 20
    sc = {"id": sid, "log": log, "logStart": logstart, "start": start, "qcap": rng.choice([1, 1, 2, 100]),
          "fetchVersion": fv, "maxBytes": mb, "steps": steps}
    if rng.random() < 0.15:
        sc["chunk"] = rng.choice([3, 7, 16, 33])
    return sc


def directed():
    B = lambda base, last, present, fmt="v2", codec=0: {"base": base, "last": last, "present": present, "fmt": fmt, "codec": codec}
    drain = [{"op": "fetch", "n": 40}]
    out = []
    # the configurations of MCFetchLog.tla
    L1 = [B(0, 2, [0, 1, 2]), B(3, 5, [3, 5])]
    L2 = [B(0, 3, [0, 1]), B(4, 5, []), B(6, 7, [6, 7])]
    L3 = [B(0, 2, [0, 2], "v1w", 1), B(3, 3, [3], "v1"), B(4, 4, [4], "v1"), B(5, 6, [5, 6])]
    L4 = [B(0, 1, [0, 1]), B(2, 4, [])]
    for name, log in (("L1", L1), ("L2", L2), ("L3", L3), ("L4", L4)):
        for fv in (2, 5, 10):
            for start in (-2, 1, 3):
                out.append({"id": "D-%s-v%d-s%d" % (name, fv, start), "log": log, "logStart": 0, "start": start, "qcap": 1, "fetchVersion": fv,
                            "maxBytes": 1 << 20, "steps": drain})
    # finding F3: a response made of a retained empty batch only
    out.append({"id": "D-empty-only-then-data", "log": L4, "logStart": 0, "start": 2, "qcap": 1, "fetchVersion": 10, "maxBytes": 1 << 20,
                "steps": [{"op": "fetch", "n": 2}, {"op": "append", "batch": B(5, 6, [5, 6])}] + drain})
    out.append({"id": "D-empty-first", "log": [B(0, 2, [])] + [B(3, 4, [3, 4])], "logStart": 0, "start": -2, "qcap": 1, "fetchVersion": 10,
                "maxBytes": 1 << 20, "steps": drain})
    # finding F9: consecutive retained empty batches (at the start, in the middle, at the end of a response)
    for k, log in enumerate(([B(0, 1, []), B(2, 3, []), B(4, 5, [4, 5])], [B(0, 1, [0, 1]), B(2, 2, []), B(3, 5, []), B(6, 6, [6])],
                             [B(0, 0, [0]), B(1, 2, []), B(3, 4, []), B(5, 6, [])])):
        for fv in (5, 10):
            out.append({"id": "D-empty-twice-%d-v%d" % (k, fv), "log": log, "logStart": 0, "start": -2, "qcap": 1, "fetchVersion": fv,
                        "maxBytes": 1 << 20, "steps": [{"op": "fetch", "n": 3}, {"op": "append", "batch": B(7, 8, [7, 8])}] + drain})
    # one batch per response (truncation at every batch boundary), mid-record truncation, cuts
    for k in range(0, 3):
        for r in range(0, 3):
            out.append({"id": "D-trunc-b%d-r%d" % (k, r), "log": L1 + [B(6, 8, [6, 7, 8], "v2", 2)], "logStart": 0, "start": -2, "qcap": 2, "fetchVersion": 10,
                        "maxBytes": 1 << 20, "steps": [{"op": "fault", "fault": {"kind": "trunc", "batches": k, "records": r, "extra": 9}},
                                                       {"op": "fault", "fault": {"kind": "cut", "batches": k, "records": r, "extra": 4}}] + drain})
    # SetOffset into a hole, into the middle of a batch, to the end, while messages are queued
    for o in (1, 4, 5, 6, -1, -2):
        out.append({"id": "D-setoffset-%d" % o, "log": L1, "logStart": 0, "start": -2, "qcap": 100, "fetchVersion": 10, "maxBytes": 1 << 20,
                    "steps": [{"op": "fetch", "n": 2}, {"op": "sleep", "ms": 30}, {"op": "setoffset", "o": o}] + drain})
    # the position is in the middle of a batch and the response is truncated inside the part of the batch that
    # precedes it (the records read and skipped), at it, or after it -- then the whole batch arrives
    for fmt, codec in (("v2", 0), ("v1w", 1), ("v1", 0)):
        for r in range(0, 8):
            for how in ("start", "setoffset"):
                big = [B(0, 7, list(range(8)), fmt, codec)] if fmt != "v1" else [B(o, o, [o], "v1") for o in range(8)]
                steps = [{"op": "fault", "fault": {"kind": "trunc", "batches": 0, "records": r, "extra": 5}}]
                if how == "setoffset":
                    steps = [{"op": "fetch", "n": 1}, {"op": "sleep", "ms": 20}] + steps + [{"op": "setoffset", "o": 5}]
                out.append({"id": "D-midbatch-%s-r%d-%s" % (fmt, r, how), "log": big + [B(8, 9, [8, 9], "v2" if fmt == "v2" else "v1w", 0 if fmt == "v2" else 1)],
                            "logStart": 0, "start": 5 if how == "start" else -2, "qcap": 1,
                            "fetchVersion": 10 if fmt == "v2" else 2, "maxBytes": 1 << 20, "steps": steps + drain})
    # many records of varied sizes in one batch, every codec (the decompressed records are parsed through a small buffer, so
    # multi-byte varints straddle its refills), and uncompressed responses arriving in small pieces
    for k, (fmt, codec, fv) in enumerate([("v2", 0, 10), ("v2", 1, 10), ("v2", 2, 10), ("v2", 3, 10), ("v2", 4, 10), ("v1w", 1, 2), ("v1w", 2, 2)]):
        for start in (-2, 17):
            out.append({"id": "D-many-%s-c%d-s%d" % (fmt, codec, start), "log": [B(0, 59, list(range(60)), fmt, codec), B(60, 61, [60, 61], fmt, codec)], "logStart": 0,
                        "start": start, "qcap": 100, "fetchVersion": fv, "maxBytes": 1 << 20, "steps": [{"op": "fetch", "n": 100}]})
    for c in (1, 2, 3, 5, 7, 13, 16, 17, 31, 64):
        for fv in (10, 2):
            lg = [B(0, 5, [0, 1, 2, 3, 4, 5]), B(6, 9, [6, 7, 8, 9])] if fv == 10 else [B(o, o, [o], "v1") for o in range(8)]
            out.append({"id": "D-chunk-%d-v%d" % (c, fv), "log": lg, "logStart": 0, "start": -2, "qcap": 100, "fetchVersion": fv,
                        "maxBytes": 1 << 20, "chunk": c, "steps": [{"op": "fetch", "n": 40}]})
    # a slow consumer: the fetcher is blocked on the full queue until after the deadline derived from MaxWait (500 ms in the
    # driver), so the end of the response is reached "too late" (RequestTimedOut, retried): the position must still advance
    for qc in (1, 2):
        for ms in (700, 1300):
            for fv, lg in ((10, [B(0, 5, [0, 1, 2, 3, 4, 5]), B(6, 7, [6, 7])]), (2, [B(o, o, [o], "v1") for o in range(7)])):
                out.append({"id": "D-slow-consumer-q%d-%d-v%d" % (qc, ms, fv), "log": lg, "logStart": 0, "start": -2, "qcap": qc, "fetchVersion": fv,
                            "maxBytes": 1 << 20, "steps": [{"op": "fetch", "n": 1}, {"op": "sleep", "ms": ms}, {"op": "fetch", "n": 2}, {"op": "sleep", "ms": ms}] + drain})
    # SetOffset to the position the Reader started from, right after the first message (and after a few): delivery restarts there
    for start in (-2, 3):
        for n in (1, 2, 4):
            out.append({"id": "D-rewind-s%d-n%d" % (start, n), "log": L1 + [B(6, 8, [6, 7, 8])], "logStart": 0, "start": start, "qcap": 1, "fetchVersion": 10,
                        "maxBytes": 1 << 20, "steps": [{"op": "fetch", "n": n}, {"op": "sleep", "ms": 20}, {"op": "setoffset", "o": start}] + drain})
    # a response that ends inside the 61-byte header of a later batch, at every field boundary of that header
    for extra in (1, 8, 12, 20, 26, 27, 31, 40, 52, 60, 61, 70):
        for k in (1, 2):
            out.append({"id": "D-cut-in-header-b%d-x%d" % (k, extra), "log": L1 + [B(6, 8, [6, 7, 8]), B(9, 9, [9])], "logStart": 0, "start": -2, "qcap": 100,
                        "fetchVersion": 10, "maxBytes": 1 << 20,
                        "steps": [{"op": "fault", "fault": {"kind": "trunc", "batches": k, "records": 0, "extra": extra}}] + drain})
    # leader migration and NotLeaderForPartition
    out.append({"id": "D-leader-move", "log": L1, "logStart": 0, "start": -2, "qcap": 1, "fetchVersion": 10, "maxBytes": 1 << 20,
                "steps": [{"op": "fetch", "n": 2}, {"op": "moveleader", "to": 2}] + drain})
    # retention removes the records the reader was about to read
    out.append({"id": "D-retention", "log": L1 + [B(6, 8, [6, 7, 8])], "logStart": 0, "start": -2, "qcap": 1, "fetchVersion": 10, "maxBytes": 150,
                "steps": [{"op": "fetch", "n": 1}, {"op": "sleep", "ms": 30}, {"op": "logstart", "o": 6}] + drain})
    return out


def _B(base, last, present=None, fmt="v2", codec=0):
    return {"base": base, "last": last, "present": list(range(base, last + 1)) if present is None else present, "fmt": fmt, "codec": codec}


# faults after which the Reader has to make a new connection (reader.run: NotLeaderForPartition, UnknownTopicOrPartition,
# a connection lost before / inside the answer); "leader": the partition moves to the other broker (the old one answers 6).
# err5 (LeaderNotAvailable, like every other broker error) is handed to the application as the result of one call and the
# fetch is retried on the same connection.
RECONNECT = {"err6": {"kind": "err", "code": 6}, "err3": {"kind": "err", "code": 3},
             "cut0": {"kind": "cut", "batches": 0, "records": 0, "extra": 0}, "cut1": {"kind": "cut", "batches": 0, "records": 1, "extra": 3},
             "leader": None, "err5": {"kind": "err", "code": 5}}


def _trig(req, fault=None, batch=None, **kw):
    t = dict({"req": req}, **kw)
    if batch is not None:
        t["batch"] = batch
    if fault == "leader":
        t["leader"] = 2
    elif fault:
        t["fault"] = RECONNECT.get(fault, fault) if isinstance(fault, str) else fault
    return t


def positioned_scripts(tier):
    """Symbolic start positions while the log grows: the Reader is positioned at LastOffset (before its first call, or by
    SetOffset in the middle of a run), the broker appends when the k-th ListOffsets / Fetch request of that reader arrives
    (right after the position was resolved, or together with the fault), and a reconnect-forcing fault hits the 1st / 2nd /
    k-th fetch: before anything was delivered from the new position, or after.  What has to be delivered (everything from
    the offset LastOffset meant when the reader was positioned) is decided by FetchMon from the recorded ListOffsets answer;
    the call counts below only pace the application (no final 6 s drain: a stall shows as a timed-out call)."""
    out = []
    full = tier != "quick"
    layouts = [("v2", 10, [_B(0, 2)], [_B(3, 4), _B(5, 6), _B(7, 7), _B(8, 9)])]
    layouts.append(("v1", 2, [_B(o, o, [o], "v1") for o in range(3)], [_B(3, 4, [3, 4], "v1w", 1), _B(5, 6, [5, 6], "v1w", 2), _B(7, 7, [7], "v1"), _B(8, 9, [8, 9], "v1w", 1)]))
    if full:
        layouts.append(("v2h", 5, [_B(0, 2, [0, 2])], [_B(3, 5, [3, 5], "v2", 2), _B(6, 7, [7]), _B(8, 8), _B(9, 10, [9, 10], "v2", 4)]))
    for lname, fv, log, A in layouts:
        nrec = lambda k: sum(len(b["present"]) for b in A[:k])
        for how in ("init", "mid"):
            gen = 0 if how == "init" else 1
            pre = [] if how == "init" else [{"op": "fetch", "n": 1}, {"op": "sleep", "ms": 20}, {"op": "setoffset", "o": -1}]
            base = {"log": log, "logStart": 0, "start": -1 if how == "init" else -2, "fetchVersion": fv, "maxBytes": 1 << 20}
            faults = ("err6", "err3", "cut0", "cut1", "leader", "err5") if (full or lname == "v2") else ("err6", "cut0")
            for f in faults:
                for qc in ((1, 100) if full else (1,)):
                    sid = "%s-%s-%s-q%d" % (lname, how, f, qc)
                    x = 1 if f == "err5" else 0       # the call that gets the broker's error
                    # the fault hits the first fetch of the positioned reader, the log grows at that very moment
                    out.append(dict(base, id="P-f1-" + sid, qcap=qc, on=[_trig("fetch", f, A[0], k=1, gen=gen), _trig("fetch", None, A[1], k=2, gen=gen)],
                                    steps=pre + [{"op": "fetch", "n": nrec(2) + x}]))
                    # the log grows right after the position was resolved (while reader.initialize seeks), then the fault
                    for lk in ((3, 4) if full else (3,)):
                        out.append(dict(base, id="P-l%d-%s" % (lk, sid), qcap=qc,
                                        on=[_trig("list", None, A[0], k=lk, gen=gen), _trig("fetch", f, None, k=1, gen=gen), _trig("fetch", None, A[1], k=2, gen=gen)],
                                        steps=pre + [{"op": "fetch", "n": nrec(2) + x}]))
                    if f == "cut1" and not full:
                        continue
                    # an empty poll first, the fault on the 2nd (k-th) fetch together with the append
                    for fk in ((2, 3) if full else (2,)):
                        out.append(dict(base, id="P-f%d-%s" % (fk, sid), qcap=qc, on=[_trig("fetch", f, A[0], k=fk, gen=gen), _trig("fetch", None, A[1], k=fk + 1, gen=gen)],
                                        steps=pre + [{"op": "fetch", "n": nrec(2) + x}]))
            # two faults in a row before the first delivery, the log growing at each
            for f1, f2 in ((("err6", "err3"), ("cut0", "err6"), ("leader", "cut0"), ("err3", "leader")) if full else (("err6", "err3"), ("cut0", "err6"))):
                t2 = _trig("fetch", f2, A[1], k=2, gen=gen)
                if f1 == "leader" and f2 == "leader":
                    continue
                if f2 == "leader":
                    t2["leader"] = 1 if f1 == "leader" else 2
                out.append(dict(base, id="P-twice-%s-%s-%s-%s" % (lname, how, f1, f2), qcap=1,
                                on=[_trig("fetch", f1, A[0], k=1, gen=gen), t2, _trig("fetch", None, A[2], k=3, gen=gen)],
                                steps=pre + [{"op": "fetch", "n": nrec(3)}]))
            # controls: the log grows before / while the end of the log is asked for (what was appended is before the position)
            for lk in (1, 2):
                out.append(dict(base, id="P-ctl-l%d-%s-%s" % (lk, lname, how), qcap=1,
                                on=[_trig("list", None, A[0], k=lk, gen=gen), _trig("fetch", "err6", A[1], k=1, gen=gen), _trig("fetch", None, A[2], k=2, gen=gen)],
                                steps=pre + [{"op": "fetch", "n": nrec(3) - nrec(1)}]))
    # reconnects in the middle of a run, after deliveries, the log growing in between: the triggers are tied to the offset asked for
    for lname, fv, log, A in layouts:
        nrec = lambda k: sum(len(b["present"]) for b in A[:k])
        for start in (-1, -2, 1):
            n0 = 0 if start == -1 else len([o for b in log for o in b["present"] if o >= max(start, 0)])
            for f in (("err6", "err3", "cut0", "cut1", "leader", "err5") if (full or lname == "v2") else ("err3", "leader")):
                for qc, mb in (((1, 1), (100, 1 << 20), (2, 1 << 20)) if full else ((1, 1 << 20),)):
                    if fv < 3:
                        mb = 1 << 20
                    a0, a1, a2 = A[0]["base"], A[1]["base"], A[2]["base"]
                    out.append({"id": "Q-%s-s%d-%s-q%d-m%d" % (lname, start, f, qc, mb), "log": log, "logStart": 0, "start": start, "qcap": qc, "fetchVersion": fv, "maxBytes": mb,
                                "on": [_trig("fetch", None, A[0], off=a0), _trig("fetch", f, A[1], off=a1), _trig("fetch", None, A[2], off=a2)],
                                "steps": [{"op": "fetch", "n": n0 + nrec(3) + (1 if f == "err5" else 0)}]})
            for f1, f2 in ((("err6", "cut0"), ("cut1", "err3"), ("err3", "err6")) if full else (("err6", "cut0"),)):
                out.append({"id": "Q-twice-%s-s%d-%s-%s" % (lname, start, f1, f2), "log": log, "logStart": 0, "start": start, "qcap": 1, "fetchVersion": fv, "maxBytes": 1 << 20,
                            "on": [_trig("fetch", None, A[0], off=A[0]["base"]), _trig("fetch", f1, A[1], off=A[1]["base"]), _trig("fetch", f2, A[2], off=A[2]["base"]),
                                   _trig("fetch", None, A[3], off=A[3]["base"])],
                            "steps": [{"op": "fetch", "n": n0 + nrec(4)}]})
    return out


def donectx_scripts(tier):
    """Application calls whose context is already done (cancelled before the call, or a deadline that has passed) while messages
    are queued, interleaved with ordinary calls: such a call either returns a message (delivered) or the context's error
    (then it delivered nothing and consumed nothing: the next delivery continues where the last one ended)."""
    out = []
    full = tier != "quick"
    logs = [("v2", 10, [_B(0, 2), _B(3, 5, [3, 5]), _B(6, 9, None, "v2", 2), _B(10, 13)])]
    if full:
        logs.append(("v1", 2, [_B(o, o, [o], "v1") for o in range(5)] + [_B(5, 8, [5, 6, 8], "v1w", 1), _B(9, 12, [9, 10, 11, 12], "v1w", 2)]))
    combos = [(d, e, q, a) for d in ("cancel", "deadline") for e in (1, 2, 3) for q in (1, 2, 100) for a in ("fetch", "read")]
    if not full:
        combos = [c for i, c in enumerate(combos) if i % 3 == (i // 6) % 3]       # 12 of the 36, every value of every field
    for lname, fv, log in logs:
        total = sum(len(b["present"]) for b in log)
        for d, e, q, a in combos:
            base = {"log": log, "logStart": 0, "start": -2, "qcap": q, "fetchVersion": fv, "maxBytes": 1 << 20}
            sid = "%s-%s-e%d-q%d-%s" % (lname, d, e, q, a)
            burst = {"op": "fetch", "done": d, "every": e, "pause": 12, "api": a}
            out.append(dict(base, id="X-" + sid, steps=[{"op": "fetch", "n": 1}, dict(burst, n=total - 3), {"op": "fetch", "n": 2, "api": a}]))
        for d in ("cancel", "deadline"):
            base = {"log": log, "logStart": 0, "start": -2, "fetchVersion": fv, "maxBytes": 1 << 20}
            # the very first call (it starts the background reader) has a done context
            out.append(dict(base, id="X-first-%s-%s" % (lname, d), qcap=100, steps=[{"op": "fetch", "n": 4, "done": d, "every": 1, "pause": 15}, {"op": "fetch", "n": total - 4}]))
            # done calls around SetOffset: messages of the superseded reader are still queued
            o = log[2]["base"] + 1
            rest = len([x for b in log for x in b["present"] if x >= o])
            out.append(dict(base, id="X-setoffset-%s-%s" % (lname, d), qcap=100,
                            steps=[{"op": "fetch", "n": 1}, {"op": "fetch", "n": 3, "done": d, "every": 2, "pause": 15}, {"op": "setoffset", "o": o},
                                   {"op": "fetch", "n": rest - 1, "done": d, "every": 1, "pause": 10}, {"op": "fetch", "n": 1}]))
            # ... and with a reconnect in the middle
            out.append(dict(base, id="X-fault-%s-%s" % (lname, d), qcap=2, on=[_trig("fetch", "err6", None, off=log[2]["base"])],
                            steps=[{"op": "fetch", "n": 2}, {"op": "fetch", "n": total - 3, "done": d, "every": 2, "pause": 12}, {"op": "fetch", "n": 1}]))
    return out


def gen_pos_script(rng, sid):
    """Seeded mixture of the two families: random layouts of the appended batches (holes, codecs), random start, random
    reconnect-forcing faults tied to fetch offsets / request counts, bursts of done-context calls."""
    n0 = rng.randint(1, 4)
    log = [_B(0, n0 - 1)] if rng.random() < 0.5 else [_B(0, n0 - 1, [o for o in range(n0) if o == n0 - 1 or rng.random() < 0.7], "v2", rng.choice([0, 1, 2, 3, 4]))]
    off = n0
    A = []
    for _ in range(rng.randint(2, 4)):
        size = rng.randint(1, 3)
        pres = [o for o in range(off, off + size) if rng.random() < 0.8] or [off + size - 1]
        A.append(_B(off, off + size - 1, pres, "v2", rng.choice([0, 0, 1, 2, 3, 4])))
        off += size
    start = rng.choice([-1, -1, -1, -2, rng.randint(0, n0)])
    faults = lambda: rng.choice(["err6", "err3", "cut0", "cut1", "leader", "err5", {"kind": "err", "code": 7}, {"kind": "trunc", "batches": 0, "records": 1, "extra": 5}, None])
    on, moved = [], False
    if start == -1 and rng.random() < 0.7:
        # before the first delivery, by request count
        k = rng.choice([1, 1, 2])
        where = rng.choice(["fetch", "list3", "list4"])
        f = faults()
        moved = f == "leader"
        if where == "fetch":
            on.append(_trig("fetch", f, A[0], k=k))
        else:
            on.append(_trig("list", None, A[0], k=int(where[4])))
            on.append(_trig("fetch", f, None, k=k))
        rest = A[1:]
        for i, b in enumerate(rest):
            f = faults() if rng.random() < 0.4 else None
            if f == "leader":
                if moved:
                    f = "err6"
                moved = True
            on.append(_trig("fetch", f, b, off=b["base"]))
    else:
        for b in A:
            f = faults() if rng.random() < 0.6 else None
            if f == "leader":
                if moved:
                    f = "err3"
                moved = True
            on.append(_trig("fetch", f, b, off=b["base"]))
    lo = n0 if start == -1 else max(start, 0)
    total = len([o for b in log + A for o in b["present"] if o >= lo]) + len([t for t in on if t.get("fault") == RECONNECT["err5"]])
    steps = []
    if rng.random() < 0.5 and total > 2:
        k = rng.randint(1, total - 1)
        steps.append({"op": "fetch", "n": k, "done": rng.choice(["cancel", "deadline"]), "every": rng.randint(1, 3), "pause": rng.choice([0, 5, 12]),
                      "api": rng.choice(["fetch", "read"])})
        total -= k
    steps.append({"op": "fetch", "n": total})
    fv = rng.choice([5, 10, 10])
    return {"id": sid, "log": log, "logStart": 0, "start": start, "qcap": rng.choice([1, 1, 2, 100]), "fetchVersion": fv,
            "maxBytes": rng.choice([1, 1 << 20, 1 << 20]), "on": on, "steps": steps}


def pos_scripts(seed, tier):
    rng = random.Random(seed * 32452843 + 11)
    n = 60 if tier == "quick" else 3000
    return positioned_scripts(tier) + donectx_scripts(tier) + [gen_pos_script(rng, "RP%d-%d" % (seed, k)) for k in range(n)]


def cut_scripts(tier):
    """C17, Reader half: the connection is lost after k whole batches + r records + e bytes of a fetch response (every record
    boundary, inside records, inside batch headers), for record batches (every codec) and v0/v1 message sets; the Reader goes on
    on a new connection without losing, duplicating or reordering records (the C02 invariants)."""
    B = lambda base, last, present, fmt="v2", codec=0: {"base": base, "last": last, "present": present, "fmt": fmt, "codec": codec}
    out = []
    logs = [("v2", 10, [B(0, 2, [0, 1, 2]), B(3, 5, [3, 4, 5]), B(6, 8, [6, 7, 8])]),
            ("v2z", 10, [B(0, 2, [0, 1, 2], "v2", 1), B(3, 5, [3, 4, 5], "v2", 2), B(6, 8, [6, 7, 8], "v2", 4)]),
            ("v1", 2, [B(o, o, [o], "v1") for o in range(7)]),
            ("v1w", 2, [B(0, 2, [0, 1, 2], "v1w", 1), B(3, 5, [3, 4, 5], "v1w", 2)])]
    extras = (0, 1, 7, 20, 45, 70) if tier == "quick" else (0, 1, 3, 7, 12, 20, 27, 33, 45, 61, 70, 90)
    for name, fv, log in logs:
        for k in range(0, 3):
            for r in range(0, 3):
                for e in extras:
                    cut = {"op": "fault", "fault": {"kind": "cut", "batches": k, "records": r, "extra": e}}
                    # the cut hits the first response (which holds the whole log) ...
                    out.append({"id": "C-cut-%s-b%d-r%d-x%d" % (name, k, r, e), "log": log, "logStart": 0, "start": -2, "qcap": 2, "fetchVersion": fv,
                                "maxBytes": 1 << 20, "steps": [cut, {"op": "fetch", "n": 40}]})
                    # ... or a later one, after records were delivered from earlier responses (one batch per response: MaxBytes 1, fetch v3+)
                    if fv >= 3 and k < 2:
                        out.append({"id": "C-cut-late-%s-b%d-r%d-x%d" % (name, k, r, e), "log": log, "logStart": 0, "start": -2, "qcap": 1, "fetchVersion": fv,
                                    "maxBytes": 1, "steps": [{"op": "fetch", "n": 2}, dict(cut, fault=dict(cut["fault"], batches=0)), {"op": "fetch", "n": 2},
                                                             dict(cut, fault=dict(cut["fault"], batches=0, records=1)), {"op": "fetch", "n": 40}]})
    return out


def cut_part(ctx):
    scripts = cut_scripts(ctx.tier)
    traces = run_scripts(ctx, scripts, "c17")
    n = monitor(ctx, scripts, traces, INVS + ["C09r_CloseReturns"])
    ctx.log("Reader continuation after cut fetch responses: %d scenarios monitored" % n)
    return {"scenarios": len(scripts), "traces_monitored": n, "invariants": INVS}


def gen_scripts(seed, n):
    rng = random.Random(seed * 15485863 + 3)
    return directed() + [gen_script(rng, "R%d-%d" % (seed, k)) for k in range(n)]


def run_scripts(ctx, scripts, tag):
    ctx.vh_keep = getattr(ctx, "vh_keep", None) or ["reader.go"]
    sp = os.path.join(ctx.work, "rscripts-%s.ndjson" % tag)
    tp = os.path.join(ctx.work, "rtraces-%s.ndjson" % tag)
    write_ndjson(sp, scripts)
    p = ctx.run_vh(["reader", "-scripts", sp, "-out", tp, "-par", "32"], timeout=2400)
    if p.returncode != 0 and ("panic:" in p.stderr or "fatal error:" in p.stderr):
        # a panic in a goroutine of the library kills the driver: find the scripts that cause it
        return isolate(ctx, scripts, tag)
    if p.returncode != 0:
        raise Inconclusive("vh reader failed: " + p.stderr[-2000:])
    traces = split_traces(read_ndjson(tp))
    if len(traces) != len(scripts):
        raise Inconclusive("driver produced %d traces for %d scripts" % (len(traces), len(scripts)))
    return traces


def isolate(ctx, scripts, tag):
    """Run every script in its own process; a script whose process dies with a panic is a violation
    (the Reader stops delivering and takes the program down). Returns traces of the surviving scripts."""
    from concurrent.futures import ThreadPoolExecutor
    import subprocess

    def one(k):
        sp = os.path.join(ctx.work, "riso-%s-%d.ndjson" % (tag, k))
        tp = os.path.join(ctx.work, "riso-%s-%d.t" % (tag, k))
        write_ndjson(sp, [scripts[k]])
        p = ctx.run_vh(["reader", "-scripts", sp, "-out", tp, "-par", "1"], timeout=300)
        if p.returncode != 0:
            return k, None, p.stderr
        return k, read_ndjson(tp), ""

    traces = []
    with ThreadPoolExecutor(max_workers=16) as ex:
        res = list(ex.map(one, range(len(scripts))))
    died = 0
    for k, evs, err in res:
        if evs is None:
            if "panic:" in err or "fatal error:" in err:
                died += 1
                first = [x for x in err.splitlines() if x.startswith("panic:") or x.startswith("fatal error:")][:1]
                rep = ctx.save_replay("%s-panic" % scripts[k]["id"], [("script.json", json.dumps(scripts[k])), ("stderr.txt", err[-8000:])])
                if died <= 20:
                    ctx.violation("the library panicked while a Reader was consuming the scripted log (%s): %s" % (scripts[k]["id"], first[0] if first else "panic"),
                                  rep, key="panic script=%s %s" % (scripts[k]["id"], first[0] if first else ""))
                traces.append([{"ev": "cfg", "id": scripts[k]["id"], "log": [], "logStart": 0, "hw": 0, "start": -2, "qcap": 1, "died": True}])
            else:
                raise Inconclusive("vh reader failed on %s: %s" % (scripts[k]["id"], err[-1500:]))
        else:
            traces.append(evs)
    return traces


def tid_of(out):
    m = re.findall(r'tid = "([^"]*)"', out)
    return m[-1] if m else None


def monitor(ctx, scripts, traces, invs, module="FetchMon", maxviol=40):
    d = ctx.specdir(ENGINE)
    cfg = "%s_%s.cfg" % (module, ctx.prop)
    with open(os.path.join(d, cfg), "w") as f:
        f.write("SPECIFICATION Spec\nINVARIANTS " + " ".join(invs) + "\nPOSTCONDITION TraceAccepted\nCHECK_DEADLOCK FALSE\n")
    byid = {s["id"]: s for s in scripts}
    remaining = list(traces)
    checked = nviol = 0
    while remaining:
        tf = os.path.join(ctx.work, "rmon-in.ndjson")
        write_ndjson(tf, [e for t in remaining for e in t])
        r = ctx.tlc(ENGINE, module, cfg, workers=1, timeout=1800, env={"TRACE": tf})
        if r["violated"]:
            tid = tid_of(r["out"])
            idx = next((i for i, t in enumerate(remaining) if t[0].get("id") == tid), None)
            if idx is None:
                raise Inconclusive("monitor reported %s but the trace could not be identified" % r["violated"])
            bad = remaining[idx]
            checked += idx + 1
            rep = ctx.save_replay("%s-%s" % (tid, r["violated"]), [
                ("script.json", json.dumps(byid.get(tid, {}))),
                ("trace.ndjson", "\n".join(json.dumps(e) for e in bad) + "\n"),
                ("tlc.txt", r["out"][-20000:])])
            ctx.violation("%s violated on a trace of the real Reader (script %s)" % (r["violated"], tid), rep,
                          key="%s script=%s" % (r["violated"], tid))
            nviol += 1
            remaining = remaining[idx + 1:]
            if nviol >= maxviol:
                ctx.notes.append("stopped after %d violations; %d traces not monitored" % (nviol, len(remaining)))
                break
            continue
        if r["postcondition_failed"] or r["error"] or r["timeout"]:
            raise Inconclusive("monitor run failed: " + (r["error"] or r["out"][-1500:]))
        checked += len(remaining)
        remaining = []
    return checked


def conformance(ctx, traces):
    divs = []
    remaining = list(traces)
    accepted = 0
    while remaining and len(divs) < 30:
        tf = os.path.join(ctx.work, "rconf-in.ndjson")
        write_ndjson(tf, [e for t in remaining for e in t])
        r = ctx.tlc(ENGINE, "FetchLogTrace", "FetchLogTrace.cfg", workers=1, timeout=1800, env={"TRACE": tf})
        if r["postcondition_failed"] or r["violated"]:
            m = re.search(r'"DIVERGED_AT_LINE",\s*(\d+)', r["out"])
            line = int(m.group(1)) if m else (r["depth"] or 1)
            n = 0
            for k, t in enumerate(remaining):
                if line <= n + len(t):
                    ev = t[line - n - 1] if 0 < line - n <= len(t) else {}
                    divs.append({"trace": t[0].get("id"), "event": ev, "why": r["violated"] or "no spec action matches"})
                    accepted += k
                    remaining = remaining[k + 1:]
                    break
                n += len(t)
            else:
                raise Inconclusive("conformance failure could not be located")
            continue
        if r["error"] or r["timeout"]:
            raise Inconclusive("conformance run failed: " + (r["error"] or r["out"][-1500:]))
        accepted += len(remaining)
        remaining = []
    return accepted, divs


def model_check(ctx):
    d = ctx.specdir(ENGINE)
    cfg = "MC_quick.cfg" if ctx.tier == "quick" else "MC_full.cfg"
    # vacuity guards: the model with each of these defects must be rejected (empty-batch position, a symbolic position
    # resolved again after a reconnect, a reconnect that forgets the position reached, a done-context call that drops a message)
    guards = ["MC_defect.cfg", "MC_defect_reresolve.cfg", "MC_defect_restart.cfg", "MC_defect_cancel.cfg"]
    from concurrent.futures import ThreadPoolExecutor
    with ThreadPoolExecutor(max_workers=5) as ex:
        main = ex.submit(ctx.tlc, ENGINE, "MCFetchLog", cfg, workers=12, timeout=1500)
        gr = [ex.submit(ctx.tlc, ENGINE, "MCFetchLog", g, workers=2, timeout=1500) for g in guards]
        r = main.result()
        gr = [g.result() for g in gr]
    if r["violated"] or r["error"] or r["timeout"]:
        raise Inconclusive("model checking of FetchLog.tla did not pass: " + r["out"][-2000:])
    for g, r2 in zip(guards, gr):
        if r2["violated"] != "C02_ExactStream":
            raise Inconclusive("vacuity guard failed: the model with the defect of %s was not rejected" % g)
    return {"states": r["distinct"], "transitions": r["generated"], "mc_depth": r["depth"], "mc_config": cfg, "defect_guards_rejected": guards}


def run(ctx):
    cov = {"engine": "fetchlog"}
    # the model is checked while the driver runs the scripts (the driver mostly waits)
    from concurrent.futures import ThreadPoolExecutor
    mcpool = ThreadPoolExecutor(max_workers=1)
    mc = mcpool.submit(model_check, ctx)
    scripts = gen_scripts(ctx.seed, 120 if ctx.tier == "quick" else 1500)
    extra = pos_scripts(ctx.seed, ctx.tier)     # symbolic positions while the log grows + reconnects; calls with a done context
    # the seeded scripts with several timed-out bursts (6 s each) run first, the short ones fill the tail
    scripts = [x for x in scripts if x["id"].startswith("R")] + [x for x in scripts if not x["id"].startswith("R")] + extra
    traces = run_scripts(ctx, scripts, "main")
    ctx.log("driver ran %d scripts (%d events)" % (len(scripts), sum(len(t) for t in traces)))
    cov.update(mc.result())
    mcpool.shutdown()
    ctx.log("FetchLog MC ok: %d distinct states" % cov["states"])
    checked = monitor(ctx, scripts, traces, INVS)
    ctx.log("monitor done: %d traces" % checked)
    accepted, divs = conformance(ctx, traces)
    ctx.log("conformance done: %d accepted, %d diverged" % (accepted, len(divs)))
    fam = {}
    for sc, t in zip(scripts, traces):
        f = fam.setdefault(sc["id"].split("-")[0] if sc["id"][0] in "PQX" else ("RP" if sc["id"].startswith("RP") else "D+R"),
                           {"scripts": 0, "reconnects_before_first_delivery": 0, "reconnects_after_deliveries": 0, "done_calls": 0,
                            "done_calls_refused": 0, "appends": 0, "appends_before_first_delivery": 0})
        f["scripts"] += 1
        seen_msg, lost = False, None      # lost: the connection whose fetch was answered with a reconnect-forcing fault
        for e in t:
            if e["ev"] in ("setoffset.end", "cfg"):
                seen_msg, lost = False, None
            elif e["ev"] == "msg":
                seen_msg = True
            elif e["ev"] == "fetch":
                if lost is not None and e["conn"] != lost:
                    f["reconnects_after_deliveries" if seen_msg else "reconnects_before_first_delivery"] += 1
                    lost = None
                if e["kind"] in ("cut", "shorthdr") or (e["kind"] == "err" and e["code"] in (3, 6)):
                    lost = e["conn"]
            elif e["ev"] == "call" and e.get("done"):
                f["done_calls"] += 1
            elif e["ev"] == "ctxerr":
                f["done_calls_refused"] += 1
            elif e["ev"] == "append":
                f["appends"] += 1
                f["appends_before_first_delivery"] += 0 if seen_msg else 1
    cov["families"] = fam
    cov.update({"traces_validated_against_impl": accepted, "traces_monitored": checked, "scripts": len(scripts),
                "trace_events": sum(len(t) for t in traces), "divergence_count": len(divs), "divergences": divs[:10], "invariants": INVS,
                "samples": [{"script": scripts[0]}, {"script": extra[0]}, {"script": scripts[-1]}, {"trace_head": traces[-1][:10]}]})
    if divs:
        ctx.notes.append("DIVERGENCE: %d trace(s) of the real Reader are not behaviours of FetchLog.tla" % len(divs))
        print("DIVERGENCE property=C02 traces=%d first=%s" % (len(divs), json.dumps(divs[0])[:300]), flush=True)
    return cov


def replay(ctx, path):
    from engines import replayer
    return replayer.replay(ctx, path)
