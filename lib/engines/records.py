"""Engine E8 "records": record batches, what is produced is what a consumer decodes (C05).

* spec/records/PagePool.tla is model-checked by TLC (reference-counted pages of protocol/buffer.go); four deliberately
  broken variants must be rejected (vacuity guard).
* Cases are generated here (exhaustive small pools plus seeded samples), the Go driver (vh records, harness/recdrv) runs
  them on the REAL kafka-go code against the fake cluster: produce direction (library -> wire: Client.Produce, Writer,
  Conn.WriteCompressedMessages with produce v2/v3/v7; the record-set bytes captured at the broker are described field by
  field by the independent parser harness/krec), fetch direction (reference-encoded batch sequences -> Client.Fetch,
  Conn.ReadBatch/ReadMessage, Reader.FetchMessage) and concurrent decodes over the page pool.
* TLC evaluates the predicates of spec/records/Records.tla + RecordsCheck.tla on every line. Nothing in this file
  decides whether a line is right: the verdict is the C05FAIL records and the invariant C05_AllLinesAccepted of TLC."""
import copy, itertools, json, os, random, re, threading, time
from concurrent.futures import ThreadPoolExecutor
from vlib import Inconclusive, read_ndjson, write_ndjson, match_known

ENGINE = "records"
PROPS = {"C05": "model_checking"}
ASSUMPTIONS = {"C05": [
    "checksum values are computed by the harness with hash/crc32 over the byte range Records.tla states (Internal_CrcRange "
    "checks the range used); TLC decides lengths, counts, deltas, order, content and timestamps",
    "payloads are symbolic (null, literal <= 24 bytes, Rep(byte, n), Pat(seed, n)); equality of longer observed strings is "
    "decided by the driver's canonical description (all-equal bytes, regenerated pattern, else length + SHA-256 prefix)",
    "compression itself is abstract: the reference codecs (klauspost gzip/snappy/zstd, pierrec lz4) decompress what the "
    "library wrote and compress what it reads; 'for every payload' is sampled over payload classes, not proven",
    "message format 1 has no headers: records handed to v1 writers carry none; format 0 has no timestamp: none is compared",
    "a record handed over with the zero time must be stamped with a time inside the wall-clock window of the call",
    "offsets are compared relative to a per-case origin (0, 1000 or 2^32+5), timestamps as [s, ms] limbs relative to an origin "
    "second; values outside TLC's 32-bit range are reported as a sentinel that equals no expected value",
    "Client.Fetch returns every record of the served batches, including those before the requested offset (documented on "
    "FetchResponse.Records); Conn/Reader skip them; after a batch with a wrong checksum Client.Fetch may or may not go on",
    "control batches, corrupted batches and empty retained batches are only served to Client.Fetch (the property's claims "
    "about them are about that path); compressed format-0 wrappers and LogAppendTime batches are not covered",
    "the page pool has no hook in protocol/buffer.go: PagePool.tla is bound to the code only behaviourally (self-describing "
    "values read late under concurrent decodes), not by trace validation",
]}

T0 = 1_600_000_000
CODEC_NAME = {0: "none", 1: "gzip", 2: "snappy", 3: "lz4", 4: "zstd"}
MAX_REPORTED = 10
JVM_OPTS = "-XX:ActiveProcessorCount=2 -Xmx2g -Xss256m"
P_CLAUSES = ["P_Accepted", "P_Format", "P_Lengths", "P_Crc", "P_Count", "P_Order", "P_KeyValue", "P_Headers", "P_Timestamp"]
F_CLAUSES = ["F_NoError", "F_Records", "F_Content", "F_Timestamp", "F_ControlHidden", "F_CorruptHidden"]
POOL_CLAUSES = ["Pool_Intact", "Pool_NoError"]


# ------------------------------------------------------------------------------------------- symbolic strings
def null():
    return {"k": "null", "n": 0, "b": [], "c": 0, "s": 0, "h": ""}


def lit(b):
    if isinstance(b, str):
        b = b.encode()
    assert len(b) <= 24
    return {"k": "lit", "n": len(b), "b": list(b), "c": 0, "s": 0, "h": ""}


def rep(c, n):
    assert n > 24
    return {"k": "rep", "n": n, "b": [], "c": c, "s": 0, "h": ""}


def pat(s, n):
    assert n > 24 and 0 <= s < (1 << 30)
    return {"k": "pat", "n": n, "b": [], "c": 0, "s": s, "h": ""}


EMPTY = lit(b"")
KEYS = [null(), EMPTY, lit("k1")]
VALUES = [null(), EMPTY, lit("value-1")]
KV = [(k, v) for k in KEYS for v in VALUES]


def hdr(k, v):
    return {"k": lit(k), "v": v}


HEADERS = [[], [hdr("a", lit("1"))], [hdr("a", EMPTY), hdr("bb", null())]]

# times handed to the writers: origin second + s seconds + ns nanoseconds
TS = {"Z": {"zero": True, "s": 0, "ns": 0},
      "A": {"zero": False, "s": 1, "ns": 1_900_000},      # ...001.9 ms
      "B": {"zero": False, "s": 1, "ns": 2_100_000},      # ...002.1 ms
      "C": {"zero": False, "s": 1, "ns": 0},              # whole millisecond
      "D": {"zero": False, "s": 1, "ns": 999_999},        # ...000.999999 ms
      "E": {"zero": False, "s": 1 + 30 * 86400, "ns": 0},  # 30 days later, whole millisecond
      # distances from "C" at the boundaries of the varint encodings of the timestamp delta
      "F": {"zero": False, "s": 1, "ns": 63_000_000}, "G": {"zero": False, "s": 1, "ns": 64_000_000}, "H": {"zero": False, "s": 1, "ns": 65_000_000},
      "I": {"zero": False, "s": 9, "ns": 191_000_000}, "J": {"zero": False, "s": 9, "ns": 192_000_000}}   # 8191 / 8192 ms after C
TS_PAIRS = ["AB", "BA", "CC", "ZA", "AZ", "DC", "AD", "CA"]


def ts_tags(names):
    tags = []
    if any(TS[x]["ns"] % 1_000_000 for x in names):
        tags.append("submillis")
    if "E" in names or ("Z" in names and any(x != "Z" for x in names)):
        tags.append("tsfar")        # records of one list more than 2^31 ms apart (a zero time is stamped "now", the others are at T0)
    if "Z" in names:
        tags.append("zerotime")
    return tags


# ------------------------------------------------------------------------------------------- produce cases
def prec(kv, ts, headers):
    return {"ts": copy.deepcopy(TS[ts]), "key": copy.deepcopy(kv[0]), "value": copy.deepcopy(kv[1]), "headers": copy.deepcopy(headers)}


def produce_lists(tier, rng, full, fmt):
    """Record lists for one (path, version, codec): [(name, [records], tags)]."""
    out = [("n0", [], [])]
    hs = HEADERS if fmt == 2 else [[]]
    one = ["A", "C", "Z"]
    for j, kv in enumerate(KV):
        out.append(("n1-kv%d" % j, [prec(kv, one[j % 3], hs[j % len(hs)])], ts_tags(one[j % 3])))
    pairs = list(itertools.product(range(9), range(9)))
    if not full:
        pairs = [p for k, p in enumerate(pairs) if k % 3 == 0]
    for k, (a, b) in enumerate(pairs):
        tp = TS_PAIRS[k % len(TS_PAIRS)]
        out.append(("n2-kv%d-%d-%s" % (a, b, tp), [prec(KV[a], tp[0], hs[k % len(hs)]), prec(KV[b], tp[1], hs[(k + 1) % len(hs)])],
                    ts_tags(tp)))
    for k in range((100 if tier == "thorough" else 27) if full else 9):
        idx = [rng.randrange(9) for _ in range(3)]
        tsn = [rng.choice("ABCDZ") for _ in range(3)]
        out.append(("n3-s%d" % k, [prec(KV[idx[j]], tsn[j], hs[rng.randrange(len(hs))]) for j in range(3)], ts_tags(tsn)))
    plain = (lit("k"), lit("v"))
    tsp = list(itertools.product("ABCDZ", repeat=2))
    if not full:
        tsp = [p for k, p in enumerate(tsp) if k % 3 == 0]
    for a, b in tsp:
        out.append(("ts-%s%s" % (a, b), [prec(plain, a, []), prec(plain, b, [])], ts_tags(a + b)))
    for k in range(10 if full else 3):
        tsn = [rng.choice("ABCD") for _ in range(3)]
        out.append(("ts3-s%d-%s" % (k, "".join(tsn)), [prec(plain, t, []) for t in tsn], ts_tags(tsn)))
    for tp in ("CE", "EC"):
        out.append(("tsfar-%s" % tp, [prec(plain, tp[0], []), prec(plain, tp[1], [])], ts_tags(tp)))
    # lengths, deltas and counts at the boundaries of the varint encodings (1|2 bytes at 64, 2|3 bytes at 8192)
    for n in ((63, 64, 65, 8191, 8192, 8193) if full else (64, 8192)):
        out.append(("vlen-%d" % n, [prec((lit("k"), rep(65, n)), "C", []), prec(plain, "C", [])], ["boundary"]))
        out.append(("klen-%d" % n, [prec((rep(66, n), lit("v")), "C", []), prec(plain, "C", [])], ["boundary"]))
        if fmt == 2:
            out.append(("hlen-%d" % n, [prec(plain, "C", [hdr("a", rep(67, n))]), prec(plain, "C", [hdr("bb", rep(68, n + 1))])], ["boundary"]))
    for tp in ("CF", "CG", "CH", "CI", "CJ", "GC", "JC"):
        out.append(("tsb-%s" % tp, [prec(plain, tp[0], []), prec(plain, tp[1], []), prec(plain, "C", [])], ts_tags(tp) + ["boundary"]))
    for n in ((64, 65, 66, 130) if full else (65,)):
        out.append(("count-%d" % n, [prec(plain, "C", []) for _ in range(n)], ["boundary"]))
    sizes = [70000, 65536] if tier == "quick" else [65535, 65536, 65537, 70000, 140000]
    for n in sizes:
        out.append(("big-value-rep-%d" % n, [prec((lit("k"), rep(120, n)), "C", hs[-1])], ["big"]))
        out.append(("big-value-pat-%d" % n, [prec((null(), pat(1000 + n % 997, n)), "A", [])], ["big", "submillis"]))
        if tier == "thorough" or n == 65536:
            out.append(("big-key-pat-%d" % n, [prec((pat(2000 + n % 997, n + 1), lit("v")), "C", [])], ["big"]))
    out.append(("big-multi", [prec((lit("k"), pat(31, 70000)), "C", []), prec((EMPTY, null()), "C", hs[-1]),
                              prec((null(), pat(32, 70000)), "C", [])], ["big"]))
    if tier == "thorough":
        out.append(("big-multi-rep", [prec((rep(1, 65536), rep(2, 65536)), "C", []), prec((rep(3, 65535), rep(4, 65537)), "C", [])], ["big"]))
    return out


def produce_cases(tier, seed, codecs):
    paths = [("client", 2, 1), ("client", 7, 2), ("writer", 7, 2), ("conn", 2, 1), ("conn", 3, 2), ("conn", 7, 2)]
    if tier == "thorough":
        paths += [("writer", 2, 1), ("client", 3, 2)]
    out = []
    for (path, pv, fmt) in paths:
        for codec in codecs:
            rng = random.Random(seed * 1000003 + pv * 101 + codec * 7 + len(path))
            full = tier == "thorough" or codec == 0
            for name, recs, tags in produce_lists(tier, rng, full, fmt):
                out.append({"id": "p-%s-v%d-%s-%s" % (path, pv, CODEC_NAME[codec], name), "dir": "produce", "path": path, "pv": pv, "fv": 0,
                            "fmt": fmt, "codec": codec, "t0": T0, "origin": 0, "from": 0, "recs": recs, "batches": [],
                            "tags": sorted(set(tags))})
    return out


# ------------------------------------------------------------------------------------------- fetch cases
def rrec(off, kv, headers, has_ts=True):
    return {"off": off, "ts": {"s": 1 + off // 100, "m": (off * 7) % 1000}, "hasTs": has_ts,
            "key": copy.deepcopy(kv[0]), "value": copy.deepcopy(kv[1]), "headers": copy.deepcopy(headers)}


def compositions(n):
    if n == 0:
        return [[]]
    out = []
    for first in range(1, n + 1):
        for rest in compositions(n - first):
            out.append([first] + rest)
    return out


def mkbatch(form, recs, **kw):
    """form: 'v0' | 'v1' | 'v1w:<codec>' | 'v2:<codec>'"""
    name, _, c = form.partition(":")
    codec = int(c or 0)
    fmt = {"v0": 0, "v1": 1, "v1w": 1, "v2": 2}[name]
    rs = copy.deepcopy(recs)
    for r in rs:
        if fmt == 0:
            r["hasTs"] = False
            r["ts"] = {"s": 0, "m": 0}
        if fmt != 2:
            r["headers"] = []
    b = {"fmt": fmt, "codec": codec, "wrap": name == "v1w", "control": False, "corrupt": False,
         "base": rs[0]["off"] if rs else kw.get("base", 0), "last": rs[-1]["off"] if rs else kw.get("last", 0), "recs": rs}
    b.update(kw)
    return b


def form_label(batches):
    labels = []
    for b in batches:
        labels.append({0: "v0", 1: "v1w" if b["wrap"] else "v1", 2: "v2"}[b["fmt"]])
    u = sorted(set(labels))
    return u[0] if len(u) == 1 else ("mixed" if u else "empty")


def fetch_case(cid, path, batches, frm, tags, fv=10, origin=1000):
    codecs = sorted({b["codec"] for b in batches})
    codec = codecs[-1] if codecs else 0
    return {"id": cid, "dir": "fetch", "path": path, "pv": 0, "fv": fv, "fmt": max([b["fmt"] for b in batches] or [2]), "codec": codec,
            "t0": T0, "origin": origin, "from": frm, "recs": [], "batches": batches, "tags": sorted(set(tags + ["form:" + form_label(batches)]))}


def fetch_cases(tier, seed, codecs):
    rng = random.Random(seed * 7919 + 5)
    cz = [c for c in codecs if c != 0]
    forms = ["v0", "v1", "v2:0"] + ["v1w:%d" % c for c in cz] + ["v2:%d" % c for c in cz]
    paths = ["client", "conn", "reader"]
    fvs = [10, 10, 5, 10, 2]
    out = []
    n_id = [0]

    def add(path, batches, frm, tags, **kw):
        n_id[0] += 1
        kw.setdefault("fv", fvs[n_id[0] % len(fvs)])
        out.append(fetch_case("f-%s-%04d" % (path, n_id[0]), path, batches, frm, tags, **kw))

    def records(n, start, rot, hs=True):
        return [rrec(start + j, KV[(rot + 4 * j) % 9], HEADERS[(rot + j) % 3] if hs else []) for j in range(n)]

    # every split of 1..3 records into batches, one format per case, three rotations of the key/value pool
    rots = [0, 1, 2] if tier == "quick" else list(range(9))
    for n in (1, 2, 3):
        for comp in compositions(n):
            for form in forms:
                for rot in rots:
                    recs = records(n, 10, rot)
                    batches, k = [], 0
                    for size in comp:
                        batches.append(mkbatch(form, recs[k:k + size]))
                        k += size
                    froms = [10]
                    if comp[0] >= 2:
                        froms.append(11)            # the first batch begins before the requested offset
                    if n >= 2 and rot == rots[0]:
                        froms.append(10 + n - 1)    # only the last record is wanted
                    for frm in froms:
                        for path in paths:
                            if path == "reader" and tier == "quick" and rot != rots[0]:
                                continue
                            add(path, copy.deepcopy(batches), frm, ["split"] + (["before"] if frm > 10 and comp[0] >= 2 and frm < 10 + comp[0] else []))
    # nothing to read
    for path in paths:
        add(path, [], 0, ["emptylog"], origin=0)
        add(path, [mkbatch("v2:0", records(2, 10, 0))], 12, ["athw"])
    # several batches of different formats in one response
    for k in range(30 if tier == "quick" else 500):
        nb = rng.randint(2, 4)
        off = 10
        batches = []
        for _ in range(nb):
            size = rng.randint(1, 3)
            batches.append(mkbatch(rng.choice(forms), records(size, off, rng.randrange(9))))
            off += size
        frm = rng.choice([10, 10, batches[0]["last"], batches[1]["base"], 11])
        for path in paths:
            if path == "reader" and tier == "quick" and k % 3:
                continue
            add(path, copy.deepcopy(batches), frm, ["mixed"])
    # control batch (Client.Fetch hides it); a control record's key is version+type, its value is opaque
    ctl = lambda off: {"off": off, "ts": {"s": 1, "m": off % 1000}, "hasTs": True, "key": lit(bytes([0, 0, 0, 1])), "value": lit(bytes([0, 0, 0, 0, 0, 7])), "headers": []}
    for form in ["v2:0"] + ["v2:%d" % c for c in cz]:
        for pos in (0, 1, 2):
            data = [mkbatch(form, records(2, 10, 1)), mkbatch(form, records(2, 13, 2))]
            coff = {0: 9, 1: 12, 2: 15}[pos]
            cb = mkbatch("v2:0", [ctl(coff)], control=True)
            batches = sorted(data + [cb], key=lambda b: b["base"])
            for frm in ([9] if pos == 0 else [10, 11]):
                add("client", copy.deepcopy(batches), frm, ["control"])
    # a control batch as the ONLY batch of a response (fetching at the offset of a transaction marker at the log end), two
    # markers in a row, a marker as the last batch
    for form in ["v2:0", "v2:%d" % cz[0]]:
        add("client", [mkbatch("v2:0", [ctl(10)], control=True)], 10, ["control"])
        add("client", [mkbatch(form, records(2, 10, 1)), mkbatch("v2:0", [ctl(12)], control=True)], 12, ["control"])
        add("client", [mkbatch(form, records(2, 10, 1)), mkbatch("v2:0", [ctl(12)], control=True)], 10, ["control"])
        add("client", [mkbatch("v2:0", [ctl(10)], control=True), mkbatch("v2:0", [ctl(11)], control=True)], 10, ["control"])
        add("client", [mkbatch("v2:0", [ctl(10)], control=True), mkbatch("v2:0", [ctl(11)], control=True), mkbatch(form, records(1, 12, 3))], 11, ["control"])
    # a batch whose checksum does not match (Client.Fetch surfaces nothing of it)
    for form in ["v1", "v2:0"] + ["v1w:%d" % c for c in cz] + ["v2:%d" % c for c in cz]:
        for pos in (0, 1, 2):
            if form == "v1":
                # an uncompressed message carries its own checksum: one message per "batch", so that "the batch" is unambiguous
                batches = [mkbatch(form, records(1, 10, 3)), mkbatch(form, records(1, 11, 4)), mkbatch(form, records(1, 12, 5))]
            else:
                batches = [mkbatch(form, records(2, 10, 3)), mkbatch(form, records(2, 12, 4)), mkbatch(form, records(1, 14, 5))]
            batches[pos]["corrupt"] = True
            add("client", batches, 10, ["corrupt"])
    # compacted logs: offsets with holes inside a batch, batch base before its first record, last offset after its last record
    for form in ["v2:0"] + ["v2:%d" % c for c in cz] + ["v1w:%d" % c for c in cz]:
        for path in paths:
            recs = [rrec(10, KV[2], []), rrec(12, KV[5], []), rrec(13, KV[8], [])]
            add(path, [mkbatch(form, recs), mkbatch(form, records(1, 14, 0, hs=False))], 10, ["holes"])
            add(path, [mkbatch(form, recs), mkbatch(form, records(1, 14, 0, hs=False))], 11, ["holes", "before"])
    for form in ["v2:0"] + ["v2:%d" % c for c in cz]:
        for path in paths:
            b = mkbatch(form, [rrec(10, KV[2], []), rrec(11, KV[6], [])], base=8, last=12)
            add(path, [b, mkbatch(form, records(1, 13, 0))], 9, ["basebefore", "before"])
            add(path, [copy.deepcopy(b), mkbatch(form, records(1, 13, 0))], 11, ["basebefore", "before"])
    # retained empty batch (count 0) between two batches: Client.Fetch only
    for form in ["v2:0"]:
        add("client", [mkbatch(form, records(1, 10, 0)), mkbatch(form, [], base=11, last=12), mkbatch(form, records(1, 13, 1))], 10, ["emptybatch"])
    # values and keys crossing the 64 KiB page size
    sizes = [70000, 65536] if tier == "quick" else [65535, 65536, 65537, 70000, 140000]
    bigforms = ["v1", "v2:0"] + ["v1w:%d" % c for c in cz] + ["v2:%d" % c for c in cz] + (["v0"] if tier == "thorough" else [])
    for n in sizes:
        for form in bigforms:
            for path in paths:
                recs = [rrec(10, (lit("k"), rep(120, n)), HEADERS[1]), rrec(11, (null(), pat(500 + n % 89, n)), []),
                        rrec(12, (pat(600 + n % 89, n + 3), EMPTY), HEADERS[2])]
                add(path, [mkbatch(form, recs[:2]), mkbatch(form, recs[2:])], 10 if n != 70000 else 11, ["big"] + (["before"] if n == 70000 else []))
    # offsets beyond 32 bits
    for form in forms:
        for path in paths:
            add(path, [mkbatch(form, records(2, 10, 6)), mkbatch(form, records(1, 12, 7))], 10, ["bigoffset"], origin=(1 << 32) + 5)
    return out


def pool_cases(tier, seed):
    if tier == "quick":
        return [{"id": "pool-client", "dir": "pool", "path": "client", "g": 8, "decodes": 150, "hold": 6, "parts": 5, "nbatch": 12, "seed": seed, "codec": seed % 5},
                {"id": "pool-direct", "dir": "pool", "path": "direct", "g": 8, "decodes": 250, "hold": 6, "parts": 5, "nbatch": 12, "seed": seed + 1, "codec": (seed + 2) % 5}]
    return [{"id": "pool-client", "dir": "pool", "path": "client", "g": 16, "decodes": 2000, "hold": 8, "parts": 5, "nbatch": 20, "seed": seed, "codec": seed % 5},
            {"id": "pool-direct", "dir": "pool", "path": "direct", "g": 16, "decodes": 2000, "hold": 8, "parts": 5, "nbatch": 20, "seed": seed + 1, "codec": (seed + 2) % 5},
            {"id": "pool-client-longhold", "dir": "pool", "path": "client", "g": 16, "decodes": 1000, "hold": 48, "parts": 5, "nbatch": 20, "seed": seed + 2, "codec": (seed + 3) % 5},
            {"id": "pool-direct-uncompressed", "dir": "pool", "path": "direct", "g": 16, "decodes": 2000, "hold": 16, "parts": 3, "nbatch": 30, "seed": seed + 3, "codec": -1}]


def gen_cases(tier, seed):
    codecs = [0, 1 + (seed % 4)] if tier == "quick" else [0, 1, 2, 3, 4]
    cases = produce_cases(tier, seed, codecs) + fetch_cases(tier, seed, codecs)
    for c in pool_cases(tier, seed):
        c.update({"pv": 0, "fv": 0, "fmt": 2, "t0": T0, "origin": 0, "from": 0, "recs": [], "batches": [], "tags": ["pool"]})
        cases.append(c)
    ids = [c["id"] for c in cases]
    assert len(ids) == len(set(ids))
    return cases, codecs


# ------------------------------------------------------------------------------------------- page-pool model
DEFECTS = ["closeTwice", "bufferLeak", "truncateKeepsRef", "refToNoRef"]


def pool_model(ctx):
    """TLC on PagePool.tla: the specified model must satisfy its invariants, each broken variant must be rejected."""
    d = ctx.specdir(ENGINE)
    for df in DEFECTS:
        with open(os.path.join(d, "MC_pool_%s.cfg" % df), "w") as f:
            f.write("SPECIFICATION Spec\nCONSTANTS\n Pages = {p1, p2}\n Buffers = {b1, b2}\n Refs = {r1, r2}\n MaxBufPages = 2\n Defect = \"%s\"\n"
                    "INVARIANTS TypeOK PoolClean RefcExact NoStale NoUnrelatedSharing\nPROPERTIES CloseIdempotent\nCHECK_DEADLOCK FALSE\n" % df)

    def again(f):
        # a JVM that died without a verdict (killed under memory pressure) is run again; a verdict is never guessed
        for attempt in (1, 2, 3):
            r = f(attempt)
            if r["violated"] or not (r["error"] or r["timeout"] or not r["distinct"]):
                return r
            ctx.log("TLC run on PagePool.tla ended without a verdict (rc=%s), attempt %d" % (r["rc"], attempt))
            time.sleep(3 * attempt)
        return r

    def main():
        return again(lambda a: ctx.tlc(ENGINE, "PagePool", "MC_pool.cfg" if ctx.tier == "quick" else "MC_pool_thorough.cfg", workers=8, timeout=600 if ctx.tier == "quick" else 1500,
                                       extra=["-noGenerateSpecTE"], env={"JAVA_TOOL_OPTIONS": "-Xmx4g"}, tag="pool-main-%d" % a))

    def defect(df):
        return again(lambda a: ctx.tlc(ENGINE, "PagePool", "MC_pool_%s.cfg" % df, workers=2, timeout=300, extra=["-noGenerateSpecTE"],
                                       tag="pool-%s-%d" % (df, a), env={"JAVA_TOOL_OPTIONS": JVM_OPTS}))
    with ThreadPoolExecutor(max_workers=5) as ex:
        fm = ex.submit(main)
        fd = {df: ex.submit(defect, df) for df in DEFECTS}
        r = fm.result()
        rd = {df: f.result() for df, f in fd.items()}
    if r["violated"] or r["error"] or r["timeout"] or not r["distinct"]:
        raise Inconclusive("model checking of PagePool.tla did not pass: " + r["out"][-2000:])
    rejected = {}
    for df, r2 in rd.items():
        if not r2["violated"]:
            raise Inconclusive("vacuity guard failed: PagePool.tla with defect %s was not rejected: %s" % (df, r2["out"][-800:]))
        rejected[df] = r2["violated"]
    return {"states": r["distinct"], "transitions": r["generated"], "mc_depth": r["depth"], "pool_model_wall_s": round(r["wall"], 1),
            "pool_model": ("3 pages, 2 buffers, 3 refs, at most 2 pages per buffer" if ctx.tier == "quick" else
                           "4 pages, 2 buffers, 3 refs, at most 3 pages per buffer") + ", exhaustive, symmetry reduced",
            "pool_defects_rejected": rejected}


# ------------------------------------------------------------------------------------------- judging
def parse_fails(out):
    fails = {}
    for m in re.finditer(r'<<\s*"C05FAIL",\s*"([^"]+)",\s*\{([^}]*)\}\s*>>', out):
        fails[m.group(1)] = sorted(set(re.findall(r'"(\w+)"', m.group(2))))
    return fails


def judge_shard(ctx, sid, lines, state):
    f = os.path.join(ctx.work, "rec-shard-%03d.ndjson" % sid)
    write_ndjson(f, lines)
    for attempt in (1, 2, 3):
        r = ctx.tlc(ENGINE, "RecordsCheck", "RecordsCheck.cfg", workers=1, timeout=state["timeout"],
                    env={"RECLINES": f, "JAVA_TOOL_OPTIONS": JVM_OPTS}, extra=["-noGenerateSpecTE"], tag="rec-%03d-%d" % (sid, attempt))
        if r["violated"] or not (r["error"] or r["timeout"]):
            break
        ctx.log("TLC run of shard %d ended without a verdict (rc=%s), attempt %d" % (sid, r["rc"], attempt))
    if r["violated"] and r["violated"].startswith("Internal_"):
        m = re.findall(r"/\\ i = (\d+)", r["out"])
        k = int(m[-1]) if m else 0
        lid = lines[k - 1]["id"] if 0 < k <= len(lines) else "?"
        detail = lines[k - 1].get("harness", "") if 0 < k <= len(lines) else ""
        raise Inconclusive("judge invariant %s failed on line %s (generator/driver problem, not a verdict) %s: %s" % (
            r["violated"], lid, detail, r["out"][-1200:]))
    if r["violated"] not in (None, "C05_AllLinesAccepted") or r["error"] or r["timeout"] or r["postcondition_failed"]:
        raise Inconclusive("TLC judge run failed (shard %d, rc=%s): %s" % (sid, r["rc"], (r["error"] or r["out"])[-1500:]))
    m = re.search(r'"C05STATS",\s*\[(.*?)\],\s*(\d+)\s*>>', r["out"], re.S)
    if not m:
        raise Inconclusive("TLC judge run printed no C05STATS (shard %d): %s" % (sid, r["out"][-1500:]))
    st = {k: int(v) for k, v in re.findall(r"(\w+) \|-> (\d+)", m.group(1))}
    nfail = int(m.group(2))
    fails = parse_fails(r["out"])
    if st.get("lines") != len(lines) or nfail != len(fails) or (nfail > 0) != (r["violated"] == "C05_AllLinesAccepted"):
        raise Inconclusive("TLC judged %s lines of %d, nfail=%d, %d C05FAIL records, violated=%s (shard %d)" % (
            st.get("lines"), len(lines), nfail, len(fails), r["violated"], sid))
    return st, fails, r["generated"], r["distinct"], r["wall"]


def judge(ctx, lines, nshards):
    def cost(l):
        return 1 + len(json.dumps(l)) / 3000.0
    order = sorted(range(len(lines)), key=lambda k: -cost(lines[k]))
    shards = [[] for _ in range(nshards)]
    load = [0.0] * nshards
    for k in order:
        j = load.index(min(load))
        shards[j].append(k)
        load[j] += cost(lines[k])
    shards = [[lines[k] for k in sorted(s)] for s in shards if s]
    state = {"timeout": 600 if ctx.tier == "quick" else 2400}
    ctx.specdir(ENGINE)
    with ThreadPoolExecutor(max_workers=16) as ex:
        futs = [ex.submit(judge_shard, ctx, sid, sh, state) for sid, sh in enumerate(shards)]
        results, err = [], None
        for f in futs:
            try:
                results.append(f.result())
            except Inconclusive as e:
                err = err or e
        if err:
            raise err
    stats, fails = {}, {}
    for st, fl, _, _, _ in results:
        for k, v in st.items():
            stats[k] = stats.get(k, 0) + v
        fails.update(fl)
    return stats, fails, sum(r[2] for r in results), sum(r[3] for r in results), sum(r[4] for r in results), len(shards)


# ------------------------------------------------------------------------------------------- self-test of the judge
def selftest_lines(lines):
    """Lines derived from real ones by a known mutation, each with the clauses it must fail."""
    out = []

    def mut(src, name, expect, f):
        l = copy.deepcopy(src)
        f(l)
        l["id"] = "selftest-%s" % name
        l["expect"] = expect
        out.append(l)

    def setp(path, val):
        def f(l):
            o = l
            for k in path[:-1]:
                o = o[k]
            o[path[-1]] = val(o[path[-1]]) if callable(val) else val
        return f

    pv2 = next((l for l in lines if l["dir"] == "produce" and l["fmt"] == 2 and l["codec"] == 0 and len(l["in"]) == 2 and l["in"][0]["key"]["k"] == "null"
                and not l["in"][0]["ts"]["zero"] and not l["in"][1]["ts"]["zero"] and l["in"][1]["headers"]
                and len(l["wire"]["entries"]) == 1 and l["path"] != "conn"), None)
    if pv2:
        mut(pv2, "p-asis", [], lambda l: None)
        mut(pv2, "p-crc", ["P_Crc"], setp(["wire", "entries", 0, "crc", "ok"], False))
        mut(pv2, "p-lastdelta", ["P_Count"], setp(["wire", "entries", 0, "lastDelta"], lambda v: v + 1))
        mut(pv2, "p-count", ["P_Count"], setp(["wire", "entries", 0, "count"], lambda v: v + 1))
        mut(pv2, "p-offdelta", ["P_Count"], setp(["wire", "entries", 0, "records", 1, "offDelta"], 5))
        mut(pv2, "p-nullkey-as-empty", ["P_KeyValue"], setp(["wire", "entries", 0, "records", 0, "key"], EMPTY))
        mut(pv2, "p-lenfield", ["P_Lengths"], setp(["wire", "entries", 0, "records", 0, "lenField"], lambda v: v + 1))
        mut(pv2, "p-batchlength", ["P_Lengths"], setp(["wire", "entries", 0, "sizeField"], lambda v: v - 1))
        mut(pv2, "p-tsdelta", ["P_Timestamp"], setp(["wire", "entries", 0, "records", 1, "tsDelta", "m"], lambda v: (v + 1) % 60))
        mut(pv2, "p-firstts", ["P_Timestamp"], setp(["wire", "entries", 0, "firstTs", "m"], lambda v: (v + 1) % 1000))
        mut(pv2, "p-err", ["P_Accepted"], setp(["err"], "boom"))
        mut(pv2, "p-trailing", ["P_Accepted"], setp(["wire", "trailing"], 3))
        mut(pv2, "p-attrs", ["P_Format"], setp(["wire", "entries", 0, "attrs"], 8))
        mut(pv2, "p-header", ["P_Headers"], setp(["wire", "entries", 0, "records", 1, "headers", 0, "v"], lit("Z")))
        mut(pv2, "p-dropped", ["P_Count", "P_Lengths", "P_Order"], setp(["wire", "entries", 0, "records"], lambda v: v[:1]))
    pv1 = next((l for l in lines if l["dir"] == "produce" and l["fmt"] == 1 and l["codec"] != 0 and len(l["in"]) == 2 and l["in"][0]["key"]["k"] == "null"
                and not l["in"][0]["ts"]["zero"] and len(l["wire"]["entries"]) == 1), None)
    if pv1:
        mut(pv1, "w-asis", [], lambda l: None)
        mut(pv1, "w-inneroffsets", ["P_Count"], setp(["wire", "entries", 0, "inner", 1, "off"], 7))
        mut(pv1, "w-innercrc", ["P_Crc"], setp(["wire", "entries", 0, "inner", 0, "crc", "ok"], False))
        mut(pv1, "w-innersize", ["P_Lengths"], setp(["wire", "entries", 0, "inner", 0, "sizeField"], lambda v: v + 2))
        mut(pv1, "w-key", ["P_Format"], setp(["wire", "entries", 0, "key"], EMPTY))
        mut(pv1, "w-ts", ["P_Timestamp"], setp(["wire", "entries", 0, "inner", 0, "ts", "m"], lambda v: (v + 1) % 1000))
    fc = next((l for l in lines if l["dir"] == "fetch" and l["path"] == "client" and len(l["got"]) >= 2 and "split" in l["tags"] and l["fmt"] == 2
               and l["got"][0]["off"] >= l["from"]), None)
    if fc:
        mut(fc, "f-asis", [], lambda l: None)
        mut(fc, "f-offset", ["F_Records"], setp(["got", 0, "off"], lambda v: v + 100))
        mut(fc, "f-missing", ["F_Records"], setp(["got"], lambda v: v[:-1]))
        mut(fc, "f-value", ["F_Content"], setp(["got", 1, "value"], lit("other")))
        mut(fc, "f-ts", ["F_Timestamp"], setp(["got", 0, "ts", "m"], lambda v: (v + 1) % 1000))
        mut(fc, "f-err", ["F_NoError"], setp(["err"], "x"))
        kk = fc["got"][0]["key"]
        mut(fc, "f-client-nil-vs-empty", ["F_Content"], setp(["got", 0, "key"], EMPTY if kk["k"] == "null" else (null() if kk["n"] == 0 else lit("zz"))))
    fn = next((l for l in lines if l["dir"] == "fetch" and l["path"] == "conn" and len(l["got"]) >= 1 and l["got"][0]["key"]["n"] == 0), None)
    if fn:
        mut(fn, "f-conn-nil-vs-empty", [], setp(["got", 0, "key"], EMPTY if fn["got"][0]["key"]["k"] == "null" else null()))
    fctl = next((l for l in lines if l["dir"] == "fetch" and "control" in l["tags"] and not l["err"]), None)
    if fctl:
        cb = next(b for b in fctl["log"] if b["control"] and b["last"] >= fctl["from"])
        def addctl(l):
            l["got"] = sorted(l["got"] + [copy.deepcopy(cb["recs"][0])], key=lambda r: r["off"])
        mut(fctl, "f-control-surfaced", ["F_ControlHidden", "F_Records"], addctl)
    fcor = next((l for l in lines if l["dir"] == "fetch" and "corrupt" in l["tags"] and l["log"][1]["corrupt"]), None)
    if fcor:
        def addcor(l):
            l["got"] = sorted(l["got"] + copy.deepcopy(l["log"][1]["recs"]), key=lambda r: r["off"])
        mut(fcor, "f-corrupt-surfaced", ["F_CorruptHidden", "F_Records"], addcor)
    pl = next((l for l in lines if l["dir"] == "pool" and l["pool"]["samples"]), None)
    if pl:
        mut(pl, "pool-asis", [], lambda l: None)
        mut(pl, "pool-bad", ["Pool_Intact"], setp(["pool", "bad"], 1))
        mut(pl, "pool-sample", ["Pool_Intact"], setp(["pool", "samples", 0, "got"], lit("overwritten")))
        mut(pl, "pool-error", ["Pool_NoError"], setp(["pool", "errors"], 2))
    return out


def regen_selftest(lines_path, out_path):
    """Maintenance: derive spec/records/selftest.ndjson from the lines of a run on the unchanged tree."""
    st = selftest_lines(read_ndjson(lines_path))
    write_ndjson(out_path, st)
    return len(st)


def selftest(ctx):
    """The judge must fail exactly the expected clauses on spec/records/selftest.ndjson (real lines of the unchanged tree with
    one known mutation each, see selftest_lines); independent of the tree under test."""
    d = ctx.specdir(ENGINE)
    f = os.path.join(d, "selftest.ndjson")
    st = read_ndjson(f)
    if len(st) < 30:
        raise Inconclusive("self-test of the judge: %s has only %d lines" % (f, len(st)))
    r = ctx.tlc(ENGINE, "RecordsCheck", "RecordsSelfTest.cfg", workers=1, timeout=300, env={"RECLINES": f, "JAVA_TOOL_OPTIONS": JVM_OPTS},
                extra=["-noGenerateSpecTE"], tag="rec-selftest")
    if r["violated"] or r["error"] or r["timeout"] or r["distinct"] != len(st) + 1:
        m = re.findall(r"/\\ i = (\d+)", r["out"])
        k = int(m[-1]) if m else 0
        which = st[k - 1]["id"] + " expects " + str(st[k - 1]["expect"]) if 0 < k <= len(st) else "?"
        raise Inconclusive("self-test of the TLA+ judge failed (%s) at %s; TLC says: %s" % (r["violated"] or "error", which, str(parse_fails(r["out"]))[-600:] + r["out"][-600:]))
    return len(st)


# ------------------------------------------------------------------------------------------- reporting
def path_label(l):
    if l["dir"] == "produce":
        return "%s-v%d" % (l["path"], l["pv"])
    if l["dir"] == "fetch":
        return "%s-v%d" % (l["path"], l["fv"])
    return l["path"]


def fmt_label(l):
    if l["dir"] == "produce":
        return "v%d" % l["fmt"]
    for t in l["tags"]:
        if t.startswith("form:"):
            return t[5:]
    return "v2"


def classify(l, clauses):
    tags, cs = set(l["tags"]), set(clauses)
    if l["dir"] == "produce":
        if not l["in"]:
            return "empty-list"
        if cs == {"P_Timestamp"} and "tsfar" in tags:
            return "timestamp-far"
        if cs == {"P_Timestamp"} and "submillis" in tags:
            return "timestamp-submillis"
    if l["dir"] == "fetch":
        if "F_Records" in cs and "holes" in tags and not ({"F_NoError", "F_ControlHidden", "F_CorruptHidden"} & cs):
            return "offsets-holes"
    return "+".join(sorted(cs))


def key_of(l, clauses):
    return "%s %s %s %s %s %s" % (l["dir"], path_label(l), fmt_label(l), CODEC_NAME.get(l["codec"], str(l["codec"])), classify(l, clauses), l["id"])


def describe(l, clauses):
    head = (",".join(clauses) + " false for") if clauses else "all clauses hold for"
    if l["dir"] == "produce":
        ins = [{"time": ("zero" if r["ts"]["zero"] else "T0+%d.%09ds" % (r["ts"]["s"], r["ts"]["ns"])), "key": short(r["key"]), "value": short(r["value"]),
                "headers": len(r["headers"])} for r in l["in"]]
        dec = [{"ts_ms_rel": [d["ts"]["s"], d["ts"]["m"]], "key": short(d["key"]), "value": short(d["value"])} for d in l["wire"]["decoded"]]
        return "%s %s (format v%d, %s): handed over %s; an independent decoder finds %s; library error %r, decoder error %r" % (
            head, path_label(l), l["fmt"], CODEC_NAME[l["codec"]], json.dumps(ins), json.dumps(dec), l["err"], l["wire"]["decodeErr"])
    if l["dir"] == "fetch":
        log = [{"fmt": b["fmt"], "codec": b["codec"], "wrap": b["wrap"], "control": b["control"], "corrupt": b["corrupt"], "base": b["base"], "last": b["last"],
                "offsets": [r["off"] for r in b["recs"]]} for b in l["log"]]
        got = [{"off": g["off"], "key": short(g["key"]), "value": short(g["value"]), "ts": [g["ts"]["s"], g["ts"]["m"]]} for g in l["got"]]
        return "%s %s reading from offset %d of log %s: returned %s, error %r" % (
            head, path_label(l), l["from"], json.dumps(log), json.dumps(got), l["err"])
    p = {k: v for k, v in l["pool"].items() if k != "samples"}
    return "%s the page-pool run %s: %s; first observations %s" % (head, l["id"], json.dumps(p), json.dumps(l["pool"]["samples"][:3]))


def short(s):
    if s["k"] == "null":
        return "null"
    if s["k"] == "lit":
        return "lit(%s)" % bytes(s["b"]).decode("latin1")
    if s["k"] == "rep":
        return "rep(%d x %d)" % (s["c"], s["n"])
    if s["k"] == "pat":
        return "pat(seed %d, %d bytes)" % (s["s"], s["n"])
    return "raw(%d bytes, %s)" % (s["n"], s["h"])


def run_driver(ctx, cases, tag, par=24):
    cp = os.path.join(ctx.work, "rec-cases-%s.ndjson" % tag)
    lp = os.path.join(ctx.work, "rec-lines-%s.ndjson" % tag)
    write_ndjson(cp, cases)
    p = ctx.run_vh(["records", "-cases", cp, "-out", lp, "-par", str(par)], timeout=3000)
    if p.returncode != 0 and ("panic:" in p.stderr or "fatal error:" in p.stderr) and len(cases) > 1:
        # a panic in a goroutine of the library kills the driver: find the cases that cause it (halving), report each as a violation
        first = [x for x in p.stderr.splitlines() if x.startswith("panic:") or x.startswith("fatal error:")][:1]
        if par > 1:
            lines, drv = run_driver(ctx, cases, tag + "s", par=1)      # deterministic order first
            return lines, drv
        half = len(cases) // 2
        l1, d1 = run_driver(ctx, cases[:half], tag + "a", par=1)
        l2, d2 = run_driver(ctx, cases[half:], tag + "b", par=1)
        return l1 + l2, d1 or d2
    if p.returncode != 0 and ("panic:" in p.stderr or "fatal error:" in p.stderr):
        c = cases[0]
        first = [x for x in p.stderr.splitlines() if x.startswith("panic:") or x.startswith("fatal error:")][:1]
        rep = ctx.save_replay("panic-%s" % c["id"], [("case.json", json.dumps(c)), ("stderr.txt", p.stderr[-8000:])])
        ctx.violation("the library panicked on case %s: %s" % (c["id"], first[0] if first else "panic"), rep, key="panic case=%s %s" % (c["id"], first[0] if first else ""))
        return [dict(id=c["id"], dir=c.get("dir", ""), tags=c.get("tags", []), err="panic", died=True)], {}
    if p.returncode != 0:
        raise Inconclusive("vh records failed: " + (p.stderr or p.stdout)[-2000:])
    lines = read_ndjson(lp)
    if [l["id"] for l in lines] != [c["id"] for c in cases]:
        raise Inconclusive("driver wrote %d lines for %d cases" % (len(lines), len(cases)))
    try:
        drv = json.loads(p.stdout.strip().splitlines()[-1])
    except Exception:
        drv = {}
    return lines, drv


def run(ctx):
    tier, seed = ctx.tier, ctx.seed
    ctx.vh_keep = ["records.go"]
    cov = {"engine": ENGINE}
    ctx.vh()                         # build before the threads start
    ctx.specdir(ENGINE)
    cases, codecs = gen_cases(tier, seed)
    ctx.log("generated %d cases (codecs %s)" % (len(cases), [CODEC_NAME[c] for c in codecs]))
    with ThreadPoolExecutor(max_workers=1) as ex:
        fpm = ex.submit(pool_model, ctx)          # TLC on the page-pool model runs while the driver exercises the code
        t1 = time.time()
        lines, drv = run_driver(ctx, cases, "main", par=12 if tier == "quick" else 16)
        cov["driver_wall_s"] = round(time.time() - t1, 1)
        ctx.log("driver ran %d cases in %.1fs" % (len(lines), time.time() - t1))
        cov.update(fpm.result())
    ctx.log("PagePool.tla: %d distinct states, invariants hold; %d defective variants rejected" % (cov["states"], len(DEFECTS)))
    nself = selftest(ctx)
    ctx.log("judge self-test: %d mutated lines classified as expected" % nself)
    t2 = time.time()
    stats, fails, gen, dist, tlcwall, nshards = judge(ctx, lines, 16 if tier == "quick" else 32)
    ctx.log("TLC judged %d lines in %d shards (%.1fs wall): %d with a false clause" % (stats.get("lines", 0), nshards, time.time() - t2, len(fails)))

    byid = {l["id"]: l for l in lines}
    cbyid = {c["id"]: c for c in cases}
    groups = {}
    for lid, clauses in sorted(fails.items()):
        l = byid[lid]
        gk = (l["dir"], path_label(l), classify(l, clauses))
        groups.setdefault(gk, []).append((lid, clauses))
    reported = 0
    per_class = {}
    for gk in sorted(groups):
        items = groups[gk]
        per_class[" ".join(gk)] = len(items)
        first_unknown = True
        for lid, clauses in items:
            l = byid[lid]
            key = key_of(l, clauses)
            if match_known(ctx.prop, key) is not None:
                ctx.violation(describe(l, clauses)[:600], "", key=key)        # prints KNOWN-FINDING (once per finding)
                continue
            if not first_unknown or reported >= MAX_REPORTED:
                continue            # further inputs of a class already reported: counted in failing_classes
            first_unknown = False
            rep = ctx.save_replay(lid, [("case.json", json.dumps(cbyid[lid]) + "\n"), ("line.json", json.dumps(l) + "\n"),
                                        ("verdict.txt", 'TLC: <<"C05FAIL", "%s", {%s}>>\nkey: %s\n' % (lid, ", ".join(clauses), key)),
                                        ("README.txt", "bin/check C05 --replay <this directory>  (runs case.json through vh records and judges the line with "
                                                       "spec/records/RecordsCheck.tla)\n")])
            ctx.violation(describe(l, clauses)[:1800], rep, key=key)
            reported += 1
    unknown = sum(1 for lid, cl in fails.items() if match_known(ctx.prop, key_of(byid[lid], cl)) is None)
    accepted = stats.get("lines", 0) - len(fails)
    by = lambda pred: sum(1 for l in lines if pred(l))
    pool = [l["pool"] for l in lines if l["dir"] == "pool"]
    samples = []
    for want in ("produce", "fetch"):
        l = next((x for x in lines if x["dir"] == want and x["id"] not in fails and len(x["in"] or x["got"]) >= 2), None)
        if l:
            samples.append({"id": l["id"], "what": describe(l, [])[:700]})
    for lid in list(fails)[:2]:
        samples.append({"id": lid, "failed_clauses": fails[lid], "key": key_of(byid[lid], fails[lid])})
    if pool:
        samples.append({"id": "pool", "result": {k: v for k, v in pool[0].items() if k != "samples"}})
    cov.update({
        "transitions": cov["transitions"] + gen, "judge_states": dist, "judge_transitions": gen, "judge_tlc_wall_s": round(tlcwall, 1),
        "traces_validated_against_impl": accepted, "lines_judged": stats.get("lines", 0), "lines_with_false_clause": len(fails),
        "evaluations": len(cases),
        "distinct_nontrivial": len({json.dumps([c["dir"], c["path"], c["pv"], c["fv"], c["codec"], c["from"], c["recs"], c["batches"]], sort_keys=True)
                                    for c in cases if c["recs"] or any(b["recs"] for b in c["batches"]) or c["dir"] == "pool"}),
        "rule": "cases are enumerated by lib/engines/records.py (small pools exhaustively: 9 key/value null/empty/literal combinations, "
                "header lists, timestamp pool with sub-millisecond parts; every split of 1..3 records into batches per format) plus seeded "
                "samples; a case is non-trivial when it carries at least one record (or is a pool run) and distinct by (path, versions, "
                "codec, requested offset, records/batches)",
        "failing_classes": per_class, "selftest_lines": nself, "codecs": [CODEC_NAME[c] for c in codecs],
        "produce_cases": by(lambda l: l["dir"] == "produce"), "fetch_cases": by(lambda l: l["dir"] == "fetch"),
        "produce_by_path": {p: by(lambda l, p=p: l["dir"] == "produce" and path_label(l) == p) for p in sorted({path_label(l) for l in lines if l["dir"] == "produce"})},
        "fetch_by_path": {p: by(lambda l, p=p: l["dir"] == "fetch" and l["path"] == p) for p in ("client", "conn", "reader")},
        "fetch_by_tag": {t: by(lambda l, t=t: l["dir"] == "fetch" and t in l["tags"]) for t in ("split", "before", "mixed", "control", "corrupt", "holes", "basebefore", "big", "bigoffset", "emptybatch")},
        "wire_entries_described": stats.get("entries", 0), "records_compared": stats.get("records", 0),
        "observed_not_judged": {"batches_whose_maxTimestamp_is_not_the_maximum": stats.get("maxTsNotMax", 0),
                                "batches_whose_first_record_has_nonzero_timestampDelta": stats.get("firstTsNotFirst", 0)},
        "pool_runs": [{k: v for k, v in p.items() if k != "samples"} for p in pool],
        "clauses": {"produce": P_CLAUSES, "fetch": F_CLAUSES, "pool": POOL_CLAUSES},
        "samples": samples,
    })
    if unknown > reported:
        ctx.notes.append("%d lines have a false clause that no known finding covers, in %d classes; one VIOLATION and replay directory per class "
                         "(at most %d), the counts per class are in failing_classes" % (unknown, len(groups), MAX_REPORTED))
    cov["lines_failing_not_known"] = unknown
    return cov


def replay(ctx, path):
    """bin/check C05 --replay <dir>: run the saved case again and let TLC judge the line."""
    ctx.vh_keep = ["records.go"]
    case = json.load(open(os.path.join(path, "case.json")))
    lines, _ = run_driver(ctx, [case], "replay", par=1)
    stats, fails, _, _, _, _ = judge(ctx, lines, 1)
    l = lines[0]
    if fails:
        clauses = fails[l["id"]]
        print("REPLAY: %s" % describe(l, clauses)[:1500])
        ctx.violation(describe(l, clauses)[:1500], path, key=key_of(l, clauses))
        return 1 if ctx.violations else 0
    print("REPLAY: line accepted by the judge (no clause false)")
    return 0
