"""Shared machinery of /verif/bin/check: work dirs, building the harness from /repo's working tree,
running TLC, known findings, evidence files, verdict lines."""
import json, os, re, shutil, subprocess, sys, tempfile, time, hashlib

VERIF = os.path.dirname(os.path.dirname(os.path.abspath(__file__)))
REPO = os.environ.get("VERIF_REPO", "/repo")
SPEC = os.path.join(VERIF, "spec")
HARNESS = os.path.join(VERIF, "harness")
OUT = os.path.join(VERIF, "out")
TLA_JAR = "/opt/veriftools/tla/tla2tools.jar"

GOENV = dict(os.environ, GOFLAGS="-mod=mod", GOPROXY="off", GOSUMDB="off", GOTOOLCHAIN="local")


class Inconclusive(Exception):
    pass


class Ctx:
    def __init__(self, prop, tier, seed):
        self.prop, self.tier, self.seed = prop, tier, seed
        self.t0 = time.time()
        base = os.environ.get("VERIF_TMP") or tempfile.gettempdir()
        os.makedirs(base, exist_ok=True)
        self.work = tempfile.mkdtemp(prefix="verif-%s-" % prop, dir=base)
        self.violations = []      # (what, replay_path)
        self.known = []           # strings
        self.notes = []
        self.cov = {}
        self.assumptions = []
        self._vh = None

    def cleanup(self):
        shutil.rmtree(self.work, ignore_errors=True)

    def log(self, *a):
        print("[%s %6.1fs]" % (self.prop, time.time() - self.t0), *a, flush=True)

    # -- building -----------------------------------------------------------------------------
    def vh(self, race=False):
        """Build the harness binary against /repo's current working tree (tag verif)."""
        key = "vh-race" if race else "vh"
        if getattr(self, "_" + key.replace("-", "_"), None):
            return getattr(self, "_" + key.replace("-", "_"))
        # private copy of the harness module so that go.mod/go.sum edits by the go tool never touch /verif
        hdir = os.path.join(self.work, "harness")
        if not os.path.isdir(hdir):
            shutil.copytree(HARNESS, hdir, ignore=shutil.ignore_patterns("*.test"))
            shutil.copy(os.path.join(REPO, "go.sum"), os.path.join(hdir, "go.sum"))
            gm = open(os.path.join(hdir, "go.mod")).read().replace("=> /repo", "=> " + REPO)
            open(os.path.join(hdir, "go.mod"), "w").write(gm)
            # an engine may restrict the binary to its own command file(s) so that a driver of another
            # engine that does not compile (work in progress) cannot break it: ctx.vh_keep = ["conn.go"]
            keep = getattr(self, "vh_keep", None)
            if keep:
                cdir = os.path.join(hdir, "cmd", "vh")
                for f in os.listdir(cdir):
                    if f.endswith(".go") and f != "main.go" and f not in keep:
                        os.remove(os.path.join(cdir, f))
        out = os.path.join(self.work, key)
        cmd = ["go", "build", "-tags", "verif"] + (["-race"] if race else []) + ["-o", out, "./cmd/vh"]
        p = subprocess.run(cmd, cwd=hdir, env=GOENV, capture_output=True, text=True)
        if p.returncode != 0:
            raise Inconclusive("harness build failed:\n" + p.stdout + p.stderr)
        setattr(self, "_" + key.replace("-", "_"), out)
        return out

    def run_vh(self, args, timeout=1800, race=False, env=None, stdin=None):
        e = dict(os.environ)
        e["VERIF_SEED"] = str(self.seed)
        if env:
            e.update(env)
        p = subprocess.run([self.vh(race)] + args, capture_output=True, text=True, timeout=timeout, env=e, input=stdin)
        return p

    # -- TLC ----------------------------------------------------------------------------------
    def specdir(self, engine):
        d = os.path.join(self.work, "spec-" + engine)
        if not os.path.isdir(d):
            shutil.copytree(os.path.join(SPEC, engine), d)
        return d

    def tlc(self, engine, module, cfg, workers=16, timeout=900, env=None, extra=None, deque=False, tag=None, xss=None):
        """Run TLC; returns dict with rc, out, generated, distinct, depth, violated (invariant/property name),
        postcondition_failed, error."""
        d = self.specdir(engine)
        tag = tag or (module + "-" + os.path.basename(cfg))
        md = os.path.join(self.work, "md-" + re.sub(r"[^A-Za-z0-9_.-]", "_", tag) + "-%d" % int(time.time() * 1000))
        e = dict(os.environ)
        jtmp = os.path.join(self.work, "jtmp")      # TLC litters java.io.tmpdir with tlc-<n> directories
        os.makedirs(jtmp, exist_ok=True)
        jopts = ["-Djava.io.tmpdir=" + jtmp]
        if deque:
            jopts.append("-Dtlc2.tool.queue.IStateQueue=StateDeque")
        if xss:
            jopts.append("-Xss" + xss)
        if jopts:
            e["JAVA_TOOL_OPTIONS"] = " ".join(jopts)
        if env:
            e.update(env)
        # The stack that overflows is the one of the MAIN thread (TLC evaluates constants, ASSUMEs and the initial states there), and
        # the java launcher sizes that thread from its command line before the JVM reads JAVA_TOOL_OPTIONS: -Xss in JAVA_TOOL_OPTIONS
        # only reaches threads created later.  JDK_JAVA_OPTIONS is read by the launcher itself.  (Seen as an intermittent
        # StackOverflowError in WireFuzzGen when the machine is loaded: interpreted frames are larger than compiled ones.)
        if "-Xss" not in e.get("JDK_JAVA_OPTIONS", ""):
            e["JDK_JAVA_OPTIONS"] = (e.get("JDK_JAVA_OPTIONS", "") + " -Xss512m").strip()
        if "-Djava.io.tmpdir" not in e.get("JAVA_TOOL_OPTIONS", ""):
            e["JAVA_TOOL_OPTIONS"] = (e.get("JAVA_TOOL_OPTIONS", "") + " -Djava.io.tmpdir=" + jtmp).strip()   # an engine's own options replaced ours
        if "-Xss" not in e.get("JAVA_TOOL_OPTIONS", ""):
            # deep recursive operators (sequence folds over long traces) overflow the default 1 MB thread stacks now and then
            e["JAVA_TOOL_OPTIONS"] = (e.get("JAVA_TOOL_OPTIONS", "") + " -Xss256m").strip()
        cmd = ["timeout", str(timeout), "tlc", "-workers", str(workers), "-metadir", md, "-config", cfg] + (extra or []) + [module + ".tla"]
        t0 = time.time()
        p = subprocess.run(cmd, cwd=d, env=e, capture_output=True, text=True)
        out = p.stdout + p.stderr
        shutil.rmtree(md, ignore_errors=True)
        for f in os.listdir(d):
            if "_TTrace_" in f:
                try:
                    os.remove(os.path.join(d, f))
                except OSError:
                    pass    # another thread's TLC run in the same scratch dir removed it first
        r = {"rc": p.returncode, "out": out, "wall": time.time() - t0, "generated": 0, "distinct": 0, "depth": 0,
             "violated": None, "postcondition_failed": False, "error": None, "timeout": p.returncode == 124}
        m = re.findall(r"(\d[\d,]*) states generated, (\d[\d,]*) distinct states found", out)
        if m:
            r["generated"] = int(m[-1][0].replace(",", ""))
            r["distinct"] = int(m[-1][1].replace(",", ""))
        m = re.search(r"depth of the complete state graph search is (\d+)", out)
        if m:
            r["depth"] = int(m.group(1))
        m = re.search(r"Invariant (\S+) is violated", out)
        if m:
            r["violated"] = m.group(1)
        m = re.search(r"Action property (\S+) is violated|Temporal properties were violated|property (\S+) is violated", out)
        if m and not r["violated"]:
            r["violated"] = m.group(1) or m.group(2) or "temporal"
        if "Postcondition" in out and "is false" in out:
            r["postcondition_failed"] = True
        if r["violated"] is None and not r["postcondition_failed"] and p.returncode not in (0,):
            if "Model checking completed. No error has been found" not in out and "Finished in" not in out:
                r["error"] = out[-3000:]
            elif re.search(r"Error: ", out):
                r["error"] = out[-3000:]
        return r

    # -- verdicts -----------------------------------------------------------------------------
    def save_replay(self, name, files):
        """Copy artefacts of a violation to /verif/out/replays/<prop>/<name>/ and return the directory."""
        d = os.path.join(OUT, "replays", self.prop, name)
        os.makedirs(d, exist_ok=True)
        for src in files:
            if isinstance(src, tuple):
                open(os.path.join(d, src[0]), "w").write(src[1])
            elif os.path.exists(src):
                shutil.copy(src, d)
        return d

    def violation(self, what, replay, key=None):
        """Report a property violation observed on the real code, unless known_findings lists it."""
        kf = match_known(self.prop, key or what)
        if kf is not None:
            msg = "KNOWN-FINDING: property=%s %s" % (self.prop, kf["summary"])
            if msg not in self.known:
                self.known.append(msg)
                print(msg, flush=True)
            return False
        self.violations.append((what, replay))
        print("VIOLATION property=%s replay=%s" % (self.prop, replay), flush=True)
        print("  detail: %s" % what, flush=True)
        return True

    def finish(self, level, coverage, assumptions=None):
        ev = {"property_id": self.prop, "tier": self.tier, "seed": int(self.seed), "level": level,
              "coverage": coverage, "assumptions": (assumptions or []) + self.assumptions,
              "wall_s": round(time.time() - self.t0, 2), "violations": len(self.violations)}
        if self.known:
            ev["known_findings_reported"] = self.known
        if self.notes:
            ev["notes"] = self.notes
        os.makedirs(os.path.join(VERIF, "evidence"), exist_ok=True)
        path = os.path.join(VERIF, "evidence", self.prop + ".json")
        tmp = path + ".tmp"
        json.dump(ev, open(tmp, "w"), indent=1, sort_keys=True, default=str)
        os.replace(tmp, path)
        self.log("evidence written:", path, "violations=%d" % len(self.violations))
        return 1 if self.violations else 0


_known = None


def load_known():
    global _known
    if _known is None:
        p = os.path.join(VERIF, "known_findings.json")
        _known = json.load(open(p)).get("findings", []) if os.path.exists(p) else []
    return _known


def match_known(prop, key):
    """A finding matches when it is for this property, has status "known" and its `match` regex matches the key."""
    for f in load_known():
        if f.get("property") == prop and f.get("status") == "known" and re.search(f["match"], key):
            return f
    return None


def read_ndjson(path):
    out = []
    with open(path) as f:
        for line in f:
            line = line.strip()
            if line:
                out.append(json.loads(line))
    return out


def write_ndjson(path, rows):
    with open(path, "w") as f:
        for r in rows:
            f.write(json.dumps(r, separators=(",", ":")) + "\n")


def split_traces(events, start="cfg"):
    traces, cur = [], None
    for e in events:
        if e.get("ev") == start:
            cur = []
            traces.append(cur)
        if cur is not None:
            cur.append(e)
    return traces


def sha(s):
    return hashlib.sha1(s.encode()).hexdigest()[:12]
